#!/usr/bin/env python3
"""Regenerates the machine-written tables of DESIGN.md (between BEGIN/END markers) from the evidence files,
the sensitivity suites and the seeded changes."""
import glob, json, os, re
V = "/verif"
def rules_table():
    rows = ["| property | obligations (quick, capi) | rules and instance counts | sensitivity mutants |", "|---|---|---|---|"]
    for p in sorted(glob.glob(V + "/evidence/C*.json")):
        ev = json.load(open(p))
        pid = ev["property_id"]
        pr = ev["coverage"].get("per_rule_instances", {})
        rl = ", ".join("%s:%s" % (r.split(".", 1)[1], v.get("capi", "-")) for r, v in sorted(pr.items()))
        muts = sorted(glob.glob(V + "/sensitivity/%s/*.diff" % pid))
        neg = sum(1 for m in muts if "# expect: none" in open(m).read())
        rows.append("| %s | %d | %s | %d (%d negative controls) |" % (pid, ev["coverage"]["obligations"], rl, len(muts), neg))
    return "\n".join(rows)
def seeds_table():
    rows = ["| seeded change | targets | what it needs to manifest | reported by (new violations only) |", "|---|---|---|---|"]
    for d in sorted(glob.glob(V + "/seeded/*/meta.json")):
        m = json.load(open(d))
        det = "; ".join("%s: %s" % (p, ", ".join(sorted({k.split(":")[0] for k in ks}))) for p, ks in sorted(m.get("detected_by", {}).items())) or "**not detected**"
        need = (m.get("needs_to_manifest") or "").replace("|", "/").replace("\n", " ")
        rows.append("| `%s` | %s | %s | %s |" % (m["id"], m["property"], need[:260] + ("…" if len(need) > 260 else ""), det))
    return "\n".join(rows)
def refactorings_table():
    rows = ["| refactoring | what was restructured |", "|---|---|"]
    def key(d):
        pid, n = os.path.basename(os.path.dirname(d)).split("-")
        return (pid, int(n))
    for d in sorted(glob.glob(V + "/refactorings/*/meta.json"), key=key):
        m = json.load(open(d))
        summ = (m.get("summary") or "").replace("|", "/").replace("\n", " ")
        rows.append("| `%s` | %s |" % (os.path.basename(os.path.dirname(d)), summ[:230] + ("…" if len(summ) > 230 else "")))
    return "\n".join(rows)
s = open(V + "/DESIGN.md").read()
for name, fn in (("rules", rules_table), ("seeds", seeds_table), ("refactorings", refactorings_table)):
    b, e = "<!-- BEGIN:%s -->" % name, "<!-- END:%s -->" % name
    if b in s:
        s = s[:s.index(b) + len(b)] + "\n" + fn() + "\n" + s[s.index(e):]
open(V + "/DESIGN.md", "w").write(s)
print("tables regenerated")
