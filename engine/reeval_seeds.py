#!/usr/bin/env python3
"""reeval_seeds.py [seed-id ...] -- re-evaluates the checks on every stored seeded change (at its base commit, with the patch
applied), subtracts what the base commit alone reports, and rewrites detected_by / detected in its meta.json."""
import json, os, re, subprocess, sys
ROOT = "/verif/seeded"
ids = sys.argv[1:] or sorted(os.listdir(ROOT))
cache = {}


def run(base, patch):
    env = dict(os.environ, MAXL="60")
    p = subprocess.run(["/verif/engine/try_patch_fast.sh", base, patch], capture_output=True, text=True, env=env)
    keys, cur = {}, None
    for line in p.stdout.splitlines():
        m = re.match(r"== (C\d+): (\d+) violation", line)
        if m:
            cur = m.group(1); keys[cur] = []
        m = re.match(r"(VIOLATED|UNPROVEN): (\S+) ", line)
        if m and cur:
            keys[cur].append(m.group(2))
    return keys, p.stdout


missed = []
for sid in ids:
    d = os.path.join(ROOT, sid)
    mp = os.path.join(d, "meta.json")
    if not os.path.exists(mp):
        continue
    meta = json.load(open(mp))
    base = meta["base_commit"]
    if base not in cache:
        cache[base], _ = run(base, "-")
    keys, out = run(base, os.path.join(d, "patch.diff"))
    if "does not build" in out or "does not apply" in out:
        print(sid, "EVALUATION FAILED:", out[-200:])
        continue
    new = {}
    for p, ks in keys.items():
        fresh = [k for k in ks if k not in cache[base].get(p, [])]
        if fresh:
            new[p] = fresh
    meta["detected_by"] = new
    meta["detected"] = bool(new)
    meta["detected_by_own_property_check"] = meta["property"] in new
    meta["pre_existing_findings_at_base_commit"] = cache[base]
    json.dump(meta, open(mp, "w"), indent=1)
    own = meta["property"] in new
    print(sid, "own-property" if own else ("OTHER-ONLY" if new else "MISSED"), {p: ks[:2] for p, ks in new.items()})
    if not own:
        missed.append(sid)
print("not detected by their own property's check:", missed)
