#!/usr/bin/env python3
"""Regenerates engine/anchors.json (function fingerprints of the tree the rules were confirmed on) from a fresh
extraction of /repo (capi configuration, which is a superset of the default one)."""
import json, os, subprocess, sys
sys.path.insert(0, os.path.dirname(os.path.abspath(__file__)))
from vlib import anchors
out = "/verif/.work/anchors-facts.json"
subprocess.run(["/verif/engine/extract.sh", "capi", out], check=True, stdout=subprocess.DEVNULL)
j = json.load(open(out))
tab = anchors.build(j)
head = subprocess.run(["git", "-C", "/repo", "rev-parse", "--short", "HEAD"], capture_output=True, text=True).stdout.strip()
json.dump({"comment": "function fingerprints used only to recognise renamed/moved functions (vlib/anchors.py)", "repo_commit": head, "functions": tab},
          open(anchors.ANCHORS, "w"), indent=0, sort_keys=True)
os.unlink(out)
print("anchors:", len(tab), "functions at", head)
