#!/usr/bin/env python3-vt
import json, sys, glob
import jsonschema
jsonschema.validate(json.load(open('/verif/MANIFEST.json')), json.load(open('/root/.vp/MANIFEST.schema.json')))
print('manifest ok')
s = json.load(open('/root/.vp/EVIDENCE.schema.json'))
m = json.load(open('/verif/MANIFEST.json'))
for c in m['checks']:
    p = c['evidence_file']
    try:
        jsonschema.validate(json.load(open(p)), s)
        print(c['property_id'], 'evidence ok')
    except Exception as e:
        print(c['property_id'], 'EVIDENCE INVALID', str(e)[:300])
ids = {json.loads(l)['id'] for l in open('/verif/properties.jsonl')}
cl = {c['property_id'] for c in m['checks']}
na = {n['property_id'] for n in m.get('not_applicable', [])}
print('unaccounted:', sorted(ids - cl - na), 'both:', sorted(cl & na))
