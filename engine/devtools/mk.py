#!/usr/bin/env python3
"""mk.py <Cxx> <name> <expect> <file> <<< JSON list of [old,new] replacements (on stdin as python literal)"""
import sys, subprocess, ast
prop, name, expect, path = sys.argv[1:5]
reps = ast.literal_eval(sys.stdin.read())
p = '/var/tmp/mut/' + path
s = open(p).read()
for old, new in reps:
    if old not in s:
        print("MISSING in", path, ":", old[:60]); subprocess.run(['git','-C','/var/tmp/mut','checkout','-q','.']); sys.exit(1)
    s = s.replace(old, new, 1)
open(p, 'w').write(s)
subprocess.run(['/verif/engine/mkpatch.sh', prop, name] + expect.split(','))
