#!/bin/bash
# mkscratch.sh <base> <patch> <name>
D=/var/tmp/dbg-$3; rm -rf $D; mkdir -p $D; git -C /repo archive $1 | tar -x -C $D; (cd $D && patch -p1 -s < $2) || exit 1; /verif/engine/extract.sh capi $D/facts.json $D >/dev/null && echo $D
