#!/bin/bash
# usage: confirm.sh <prop> <n> <mode: tests|diff|runsh> [test-name-or-filter]
P=$1; N=$2; MODE=$3; NAME=$4
W=/var/tmp/seed-$P; S=/var/tmp/seedwork-$P/change$N; L=/var/tmp/confirm-$P-$N.log
export CARGO_TARGET_DIR=$W/target CARGO_NET_OFFLINE=true
cd $W || exit 1
git checkout -q -- . ; git clean -fdq -e target
res() { echo "RESULT $P change$N: $*" | tee -a $L; }
: > $L
run_demo() {  # $1 = with|without
  case $MODE in
    tests) mkdir -p tests; cp $S/demo/*.rs tests/; timeout 900 cargo test --offline --test $NAME -- --nocapture >> $L 2>&1; rc=$?; rm -rf tests;;
    diff)  git apply $S/demo/demo.* >> $L 2>&1; timeout 1200 cargo test --offline --lib $NAME -- --nocapture >> $L 2>&1; rc=$?;;
    runsh) (cd $S/demo && timeout 1500 ./run.sh $1) >> $L 2>&1; rc=$?;;
  esac
  return $rc
}
echo "== without" >> $L; run_demo without; R0=$?
git checkout -q -- . ; git clean -fdq -e target
git apply $S/patch.diff >> $L 2>&1 || { res "PATCH-DOES-NOT-APPLY"; exit 2; }
echo "== build" >> $L
cargo build --offline >> $L 2>&1; B1=$?
cargo build --offline --features capi >> $L 2>&1; B2=$?
echo "== with" >> $L; run_demo with; R1=$?
git checkout -q -- . ; git clean -fdq -e target
res "build=$B1 build_capi=$B2 demo_without_rc=$R0 demo_with_rc=$R1"
