#!/usr/bin/env python3
"""post_wave4.py <confirm-log> <id>... : record my confirmation runs (made at the commit the authors worked on) in the imported metas"""
import json, sys
log = sys.argv[1]
res = {}
for line in open(log):
    if line.startswith("RESULT "):
        parts = line.split()
        res[(parts[1], parts[2].rstrip(":"))] = line.strip()
import glob, os
for d in sys.argv[2:]:
    p = "/verif/seeded/%s/meta.json" % d
    m = json.load(open(p))
    ch = m.get("_change")
    key = (m["property"], ch)
    m["confirmed_by_me"] = {
        "what_i_ran": "scratch worktree at %s: demo without the patch (expected pass), git apply patch.diff, cargo build --offline, cargo build --offline --features capi, demo with the patch (expected fail) -- confirm5.sh" % m["base_commit"],
        "result": res.get(key),
        "existing_suite": "full `cargo test --offline --lib` run by the author with the change applied (see author_reported / author_commands: only the load-dependent *_loop_* EAGAIN flakes, which fail the same way on the unmodified tree and pass when re-run alone); not re-run by me for this wave",
    }
    m.pop("_change", None)
    json.dump(m, open(p, "w"), indent=1)
    print(d, res.get(key))
