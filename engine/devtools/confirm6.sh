#!/bin/bash
# usage: confirm2.sh <prop> <n> <base> <mode: tests|diff|intree> <name> [extra cargo test args...]
P=$1; N=$2; BASE=$3; MODE=$4; NAME=$5; shift 5; EXTRA="$@"
W=${CWT:-/var/tmp/cwt}; S=/var/tmp/seedwork6-$P/change$N; L=/var/tmp/confirm6-$P-$N.log
export CARGO_TARGET_DIR=${CWT:-/var/tmp/cwt}-target CARGO_NET_OFFLINE=true
[ -d $W ] || git -C /repo worktree add --detach $W $BASE >/dev/null 2>&1
cd $W || exit 1
git checkout -q -- . ; git clean -fdq ; git checkout -q --detach $BASE || exit 3
res() { echo "RESULT $P change$N: $*" | tee -a $L | tee -a ${CONFIRM_LOG:-/var/tmp/confirm_wave6.log}; }
: > $L
FEAT=""; case "$P/$N" in C05/1|C09/1|C11/*|C14/2|C16/*|C17/*|C18/*) FEAT="--features capi";; esac; [ -n "$FORCE_FEAT" ] && FEAT="$FORCE_FEAT"
run_demo() {
  case $MODE in
    tests) mkdir -p tests; cp $S/demo/$NAME.rs tests/; timeout 1800 cargo test --offline $FEAT --test $NAME -- --nocapture --test-threads=1 $EXTRA >> $L 2>&1; rc=$?;;
    diff)  git apply $S/demo/demo.diff >> $L 2>&1; timeout 1800 cargo test --offline $FEAT --lib $NAME -- --nocapture >> $L 2>&1; rc=$?;;
    runsh) (cd $S/demo && WORKTREE=$W timeout 2400 ./run.sh $1) >> $L 2>&1; rc=$?;;
    testsdir) mkdir -p tests; cp -r $S/demo/tests/* tests/; timeout 1800 cargo test --offline $FEAT --test $NAME -- --nocapture --test-threads=1 $EXTRA >> $L 2>&1; rc=$?;;
    capimod) cp $S/demo/$NAME.rs src/capi/; git apply $S/demo/demo.patch >> $L 2>&1; timeout 1800 cargo test --offline --lib --features capi $NAME -- --nocapture >> $L 2>&1; rc=$?;;
    c15hook) git apply $S/demo/demo-hook.diff >> $L 2>&1; cp $S/demo/demo_c15.rs src/tests/demo_c15.rs; PATHRS_DEMO_FAKE_SYSCTL=fs.protected_symlinks=1 timeout 1800 cargo test --offline --lib c15_demo -- --test-threads=1 >> $L 2>&1; rc=$?;;
    intree) cp $S/demo/$NAME.rs src/tests/; echo "mod $NAME;" >> src/tests.rs; timeout 1800 cargo test --offline --lib $NAME -- --nocapture >> $L 2>&1; rc=$?;;
  esac
  return $rc
}
echo "== without" >> $L; run_demo without-change; R0=$?
git checkout -q -- . ; git clean -fdq
git apply $S/patch.diff >> $L 2>&1 || { res "PATCH-DOES-NOT-APPLY"; exit 2; }
echo "== build" >> $L
cargo build --offline >> $L 2>&1; B1=$?
cargo build --offline --features capi >> $L 2>&1; B2=$?
echo "== with" >> $L; if [ "$MODE" = runsh ]; then git checkout -q -- . ; git clean -fdq; fi; run_demo with-change; R1=$?
git checkout -q -- . ; git clean -fdq
res "build=$B1 build_capi=$B2 demo_without_rc=$R0 demo_with_rc=$R1"
