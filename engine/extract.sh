#!/bin/bash
# usage: extract.sh <config: capi|default> <out.json> [repo dir]
# Runs the vdrv driver on the repository's current working tree and writes the fact file.
set -e
CFG="$1"; OUT="$2"; REPO="${3:-/repo}"
V=/verif
DRV=$V/engine/vdrv/target/debug/vdrv
[ -x "$DRV" ] || { echo "extract: driver not built (run setup)"; exit 3; }
export LD_LIBRARY_PATH="$(rustc +nightly --print sysroot)/lib"
TGT="${VDRV_TARGET:-$V/.work/target-$CFG}"
mkdir -p "$TGT" "$V/.work"
# one extraction per target directory at a time (checks, sensitivity runs and seed evaluations share it)
exec 9>"$V/.work/extract-$CFG.lock"
flock 9
# force the wrapper to run again: remove the crate's fingerprints
rm -rf "$TGT"/debug/.fingerprint/pathrs-* 2>/dev/null || true
FEAT=""
[ "$CFG" = "capi" ] && FEAT="--features capi"
NONCE="${VDRV_NONCE:-$(date +%s%N)-$$}"
rm -f "$OUT"
cd "$REPO"
CARGO_NET_OFFLINE=true VDRV_OUT="$OUT" VDRV_NONCE="$NONCE" RUSTFLAGS="-Zmir-opt-level=0 -Awarnings" \
  RUSTC_WORKSPACE_WRAPPER="$DRV" CARGO_TARGET_DIR="$TGT" \
  cargo +nightly check --offline --lib $FEAT >"$OUT.log" 2>&1 || { echo "extract: cargo check failed"; tail -30 "$OUT.log"; exit 4; }
[ -s "$OUT" ] || { echo "extract: no fact file written"; tail -30 "$OUT.log"; exit 5; }
echo "$NONCE"
