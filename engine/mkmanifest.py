#!/usr/bin/env python3
"""Regenerates /verif/MANIFEST.json from the claim table below and the rule modules present."""
import json
import os
import subprocess

V = "/verif"
props = [json.loads(l) for l in open(os.path.join(V, "properties.jsonl"))]

TECH = ("static analysis: rustc_private MIR extractor + rule engine (must-pass-through on the pruned CFG, value provenance, "
        "flag-bit abstract interpretation with interprocedural propagation, who-may-call, constant/decision tables)")
NOTE = ("Static analysis of nightly-rustc MIR (-Zmir-opt-level=0, --features capi; thorough tier also the default feature set) of "
        "/repo's working tree; nothing is executed. Trusted: MIR construction and Instance::try_resolve, the identity-callee table "
        "(vlib/dataflow.py), external-callee behaviour tables (std/rustix/libc) named in the rule modules. Decides the structural "
        "clauses named in level_claimed.text; clauses listed there as not decided depend on kernel behaviour, schedules or run-time values.")

CLAIMS = {
    "C01": "Decides on all CFG paths of the emulated walk: '..' is clamped at the root (pop() failure -> restart from the root clone, no open), absolute link targets restart from the root clone with the lexical position reset, every queue growth is behind the link-budget test whose exhaustion yields ELOOP (termination ranking), '' is opened as '.', no_follow_trailing and NO_SYMLINKS are honoured in both backends, kernel lookups carry RESOLVE_IN_ROOT|NO_MAGICLINKS; budget constant compared with the kernel's. every component other than '..' at the root is opened (a non-directory followed by '.', '..' or '/' is noticed); the link body spliced into the walk is the readlink result unmodified and no component is dropped on the way to the queue; the emulated one-shot open takes its trailing-symlink mode from O_NOFOLLOW alone and returns the bare lookup handle only for a symlink asked for with O_PATH. NOT decided: equality of outcomes with the kernel for concrete trees.",
    "C02": "Decides that the verification protocol that makes the emulated walk schedule-independent is present on every CFG path: check_current after every '..' open before the fd is used, before every Complete result, fail-closed comparisons against /proc/thread-self/fd via the checked helper, fd-relative single-component O_PATH|O_NOFOLLOW steps, link bodies read from the opened fd, bounded EAGAIN retry ending in SafetyViolation, no partial result after a safety violation. Kernel lookups are scoped (RESOLVE_IN_ROOT|NO_MAGICLINKS surely set at every openat2 of the resolver). The path check_current compares is the kernel's answer unedited (as_unsafe_path -> ProcfsHandle::readlink -> readlinkat); the reopen of the one-shot open is by descriptor under thread-self. NOT decided: sufficiency of the protocol against every schedule.",
    "C03": "Decides per mutating call site (mkdirat, mknodat, symlinkat, linkat, unlinkat, renameat2, O_CREAT open) and per descend open: dirfd originates from in-root resolution or a previous descend open; name is a single component by construction; descend opens can never be handed '.'/'..' (proof accepted in the function, in every caller, or in the producer of the name); the set of mutating functions is closed. The resolver-containment rules (verification protocol, fail-closed comparison, scoped kernel lookups) and byte-fidelity of every path handed to the kernel are obligations here too. A creating open that can carry O_PATH (the kernel then ignores O_CREAT) can never be handed '..'; reopen of resolved handles is by descriptor under thread-self; the no-follow wrapper forces O_NOFOLLOW for every flag combination. Holds on every CFG path, hence under every fault placement. NOT decided: effects observed on a real filesystem under attacker schedules.",
    "C04": "Thin structural claim: flag bits of the one-shot open reach both backends' final opens unchanged except for O_CLOEXEC/O_NOCTTY/O_NOFOLLOW; both backends force the same descriptor flags; creation-flag validation and argument checks precede the backend dispatch; the backend field is read only in the dispatch functions; every errno the emulation synthesises is tabulated against the kernel's; interior-NUL and empty-path handling of the two backends are compared. Shape of the emulated one-shot open (mode from O_NOFOLLOW alone, bare handle only for symlink+O_PATH, otherwise reopen with the caller's flags); no dropping adaptor between the component splitter and the walk's queue; the symlink stack's writer and reader agree on which components are no-ops. No errno re-labelling of a failed system call; the backend probe answers 'kernel' only if the probing call succeeded; link budget and protected-symlinks table agree with the kernel's (budget: known finding F7). NOT decided: outcome equality for concrete trees, partial-lookup results, symlink-stack book-keeping.",
    "C05": "Decided per call site: OS entries only in src/syscalls.rs plus a named exemption table; flag-bit abstract interpretation proves O_CLOEXEC|O_NOCTTY (open), O_NOFOLLOW (wrapper), O_CLOEXEC + O_NOCTTY-or-O_PATH (openat2), *_CLOEXEC (fsopen/fsmount/open_tree), RESOLVE masks, AT_SYMLINK_NOFOLLOW|AT_NO_AUTOMOUNT (stat); provenance classification proves every dirfd/path argument of the wrapper call sites is (fd-relative single component | empty path on an fd | confined openat2 | listed bootstrap/probe exemption); the only followed link is the open_follow sink; the C API's descriptor gate refuses AT_FDCWD (capi).",
    "C06": "Decides that every descriptor the procfs layer returns or walks through has passed the mount-identity checks on all paths: lookup results in ProcfsHandle::open/open_base, each step and the final reopen of the emulated procfs walk, the magic-link dentry in open_follow, and every constructed handle (fstype + root inode); the comparisons fail closed (Option<u64> compared whole, EXDEV); constructor preference order. fetch_mnt_id yields Some(id) for every kernel generation that reports one (and None otherwise), and every open_tree carries OPEN_TREE_CLONE on all call paths. NOT decided: which object the kernel returns under a given mount table; racing mounts.",
    "C07": "Decides: the emulated procfs walk refuses '..' (EXDEV) and absolute link bodies (ELOOP) before any open/queue growth, honours NO_SYMLINKS and the link budget; ProcfsHandle::open forces O_NOFOLLOW; open_follow follows exactly the split-off last component; every flow of caller-supplied open flags to an open sink provably lacks O_CREAT, O_EXCL and O_TMPFILE (flag-bit analysis with branch refinement; sibling validators agree). A failing system call of the emulated walk is reported as that failure (no errno re-labelling on failure-only paths or in error-mapping closures). NOT decided: outcome equality of the two procfs resolvers.",
    "C08": "Decides boundedness: every cycle of the crate call graph has a recognised termination witness (descending fd recursion, type-structural, data-structural, or a flag that provably flips) and no procfs-handle constructor sits in a loop or unwitnessed cycle; the masked-handle retry is taken only for ENOENT on a masked handle and returns the original error if no new handle can be made. The call graph includes call-backs through conversions/formatting/drop, so 'describing an error fails the same way again' cycles are seen; context-insensitive cycles are accepted only with an infeasibility witness. No errno is fabricated on the procfs lookup path (retry result returned as produced). The handle the retry runs on is created without any masking mount option; the openat2 probe answers 'supported' only if the probing call succeeded. NOT decided: truthfulness of ENOENT on each kind of /proc.",
    "C09": "Decides: reopen goes only through thread-self/fd/<n> of the library's procfs handle, built from the descriptor number alone; symlink handles are refused with ELOOP before the open; O_NOFOLLOW is stripped; all descriptor-validity predicates put 0 on the valid side; forced O_CLOEXEC|O_NOCTTY, creation-flag refusal and the over-mount check of the link hold at the final open. The readlink probe of open_follow selects the no-follow open only for ENOENT, follows for Ok and ENAMETOOLONG, and returns every other failure. Every file returned by reopen comes from the by-descriptor reopen (never a duplicate of the handle); the probe (ProcfsHandle::readlink) fabricates no errno and returns the link body unedited. NOT decided: the kernel's magic-link semantics.",
    "C10": "Every `?`/Err edge is a CFG edge, so the rules hold for every fault placement: no unwrap/expect/panic!/unreachable! whose reachability or operand depends on a system-call result; every Result from the syscall layer is propagated or matched except a reasoned table; every loop in syscall-reaching code has a termination witness; fetch_mnt_id degrades only for ENOSYS/EINVAL; lazy statics do not re-enter themselves. Every openat2 call site of the resolvers retries EAGAIN inside a constant-bounded loop whose exhaustion is a SafetyViolation; no call-graph cycle (call-backs included) lacks a termination witness; a closed table of special-cased errnos per function. Dependencies are covered by an external-callee table.",
    "C11": "Decides the ownership structure: escape hatches from RAII fd ownership (into_raw_fd, from_raw_fd, forget, ManuallyDrop, Box::leak/into_raw, borrow_raw, close/dup2) occur only at their audited sites with the audited provenance; the only fd-owning static is the global procfs handle; every fd-creating sink is close-on-exec; compile-fail witnesses show borrowed handles cannot outlive or duplicate ownership. the success test on the raw return value of a descriptor-returning system call puts 0 on the owning side; NOT decided: run-time descriptor counts.",
    "C12": "Decides: mode validation (nothing outside 0o1777) reaches the lookup and every mkdirat; only EEXIST is tolerated from mkdirat; the step open is O_DIRECTORY|O_NOFOLLOW on the same (dirfd, name); '.', '..', '' never reach the creation loop and '..' gives ENOENT; the returned handle is the last step open; partial lookups become creatable remainders only for ENOENT. a refusal synthesised inside the creation loop depends only on the component name, the errno of its own mkdirat or the step open (necessary for convergence with concurrent callers). NOT decided: whole-tree frame condition, convergence of concurrent callers.",
    "C13": "Decides: '.' and '..' can never reach the O_DIRECTORY descent open (refusal accepted at any layer); descent is by a single-component O_DIRECTORY|O_NOFOLLOW open relative to the parent fd and recursion passes that fd; removals are unlinkat(fd, name, 0|AT_REMOVEDIR) on the function's own arguments; scan skips '.'/'..'; ENOENT tolerated only via ignore_enoent which maps exactly errno 2. NOT decided: frame condition, convergence.",
    "C14": "Decides per operation: exactly one mutating call on every success path, of the kind and with the type bits of the arm, applied to the two halves of one resolve_parent() result of the right argument; trailing slash -> InvalidArgument before any call; C mknod S_IFMT decoding; create_file returns the O_CREAT|O_NOFOLLOW open itself; rename/unlink flags. NOT decided: whole-tree frame condition.",
    "C15": "Decides: may_follow_link's decision table (extracted from the loop-free MIR over four comparison atoms) equals the kernel's may_follow_link(); its inputs are fstat of the directory fd the link was opened from and of the link fd; it precedes the readlink of every followed link and is not applied to unfollowed trailing links; the sysctl is read from sys/fs/protected_symlinks through the procfs handle. NOT decided: euid vs fsuid, cache staleness.",
    "C16": "Decides: the error table is touched only by store_error and pathrs_errorinfo, each under one Mutex guard; ids are drawn from [i32::MIN, -4096] and inserted only into a vacant entry; errorinfo removes on read; every extern \"C\" int return is into_c_return whose Err arm stores the error; errno mapping table.",
    "C17": "Decides: every fd parameter is used only through try_as_borrowed_fd (negative -> error before borrow_raw); every path pointer only through parse_path (NULL -> error before CStr::from_ptr); copy_path_into_buffer copies min(len, bufsize) under non-NULL/non-zero guards and returns the full length; no Rust enum crosses the boundary; unknown procfs base and invalid S_IFMT -> InvalidArgument.",
    "C18": "Table agreement across four artefacts: Rust extern \"C\" definitions and layouts (from the compiler) vs include/pathrs.h (parsed) vs every C.pathrs_* call in go-pathrs vs every libpathrs_so.pathrs_* call and the cffi cdef in the Python binding: symbol sets, arity, per-position width/signedness/pointer class, enum values, struct layout.",
}
DESIGN = {p: "DESIGN.md §4 %s" % p for p in CLAIMS}

have = sorted(f[:-3].upper() for f in os.listdir(os.path.join(V, "engine/vlib/rules")) if f.startswith("c") and f.endswith(".py"))
# a module may declare itself not ready
ready = []
for p in have:
    src = open(os.path.join(V, "engine/vlib/rules", p.lower() + ".py")).read()
    if "RULES = [" in src and "NOT_READY" not in src:
        ready.append(p)

checks = []
for p in ready:
    checks.append({
        "property_id": p,
        "quick_cmd": "./check %s --tier quick" % p,
        "thorough_cmd": "./check %s --tier thorough" % p,
        "evidence_file": "/verif/evidence/%s.json" % p,
        "replay_cmd_template": "./check %s --replay {path}" % p,
        "engine": "vdrv+vlib",
        "level_claimed": {"category": "other", "text": CLAIMS[p], "design_ref": DESIGN[p]},
        "level_note": NOTE,
        "technique": TECH,
    })
na = [{"property_id": pr["id"], "reason": "static rule set for this property is still under construction in this round (see DESIGN.md §4 for the planned rules); not claimed until armed"}
      for pr in props if pr["id"] not in ready]

fixes = subprocess.run(["git", "-C", "/repo", "log", "--format=%h %s", "--grep=^fix:"], capture_output=True, text=True).stdout.strip().splitlines()
m = {
    "version": 1,
    "setup_cmd": "cd /verif/engine/vdrv && CARGO_NET_OFFLINE=true cargo +nightly build --offline && /verif/engine/extract.sh capi /verif/.work/warm-capi.json && /verif/engine/extract.sh default /verif/.work/warm-default.json && rm -f /verif/.work/warm-*.json*",
    "hooks": {"guard": "opensuse_libpathrs_verif",
              "enable": "none needed: the analysis reads unmodified source (no instrumentation in /repo)",
              "baseline_off_cmd": "cd /repo && cargo test --workspace --no-fail-fast --offline",
              "source_commits": [], "add_only": True},
    "engines": [{"name": "vdrv+vlib", "path": "/verif/engine", "serves_properties": ready,
                 "kind_free_text": "rustc_private MIR fact extractor (Rust, zero deps) + Python rule engine; ABI table parsers for the C header and the Go/Python bindings; compile-fail witnesses"}],
    "checks": checks,
    "not_applicable": na,
    "notes": "All checks are static analyses of /repo's current working tree; nothing runs libpathrs. fix: commits in /repo: %s. known_findings.json lists fixed and known findings; sensitivity/ holds the mutants of the thorough tier; seeded/ the independently written breaking changes." % "; ".join(fixes),
}
json.dump(m, open(os.path.join(V, "MANIFEST.json"), "w"), indent=1)
print("claimed:", ready, "not yet:", [n["property_id"] for n in na])
