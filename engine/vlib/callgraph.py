"""Whole-crate call graph (CG): resolved calls, closure construction, function values, unresolved
calls to crate traits (all impls), static references -> initialisers."""
from .common import is_bitflags_generated, os_entry_class


class CallGraph:
    def __init__(self, facts, skip=is_bitflags_generated):
        self.facts = facts
        self.nodes = {}
        for b in facts.bodies:
            if b.kind in ("fn", "assoc_fn", "closure", "static", "const", "assoc_const", "anon_const") and not skip(b):
                self.nodes.setdefault(b.path, b)
        self.edges = {p: set() for p in self.nodes}
        self.edge_info = {}       # (src, dst) -> list of (kind, term|stmt)
        self.external = {p: [] for p in self.nodes}   # calls leaving the crate
        for p, b in self.nodes.items():
            for blk in b.blocks:
                ops = []
                for s in blk.stmts:
                    ops.extend(s.rv_operands())
                    if s.kind == "assign" and s.rv and s.rv["k"] == "agg" and s.rv.get("closure"):
                        self._add(p, s.rv["closure"], "closure", s)
                    if s.kind == "assign" and s.rv and s.rv["k"] == "tls":
                        self._add(p, s.rv["static"], "static", s)
                t = blk.term
                if t.kind in ("call", "tailcall"):
                    ops.extend(t.args)
                    f = t.f
                    r = t.resolved
                    if f.get("unres") and f.get("trait"):
                        impls = facts.impl_methods(f["path"])
                        for im in impls:
                            self._add(p, im, "unresolved-trait", t)
                        if not impls:
                            self.external[p].append(t)
                    elif r in self.nodes:
                        self._add(p, r, "call", t)
                    elif t.callee in self.nodes:
                        self._add(p, t.callee, "call", t)
                    else:
                        self.external[p].append(t)
                for o in ops:
                    if o.is_const:
                        c = o.const
                        if c.get("static"):
                            self._add(p, c["static"], "static", o)
                        for k in ("fn", "fnd"):
                            if c.get(k) in self.nodes:
                                self._add(p, c[k], "fnvalue", o)
                        if c.get("fn") and c.get("fn") not in self.nodes and c.get("fnd") not in self.nodes:
                            # function value of a trait method implemented in the crate
                            for im in facts.impl_methods(c["fn"]):
                                self._add(p, im, "fnvalue", o)

    def _add(self, a, b, kind, site):
        if b not in self.nodes:
            return
        self.edges[a].add(b)
        self.edge_info.setdefault((a, b), []).append((kind, site))

    def reachable_from(self, start):
        seen = set()
        work = [start] if isinstance(start, str) else list(start)
        while work:
            x = work.pop()
            if x in seen or x not in self.edges:
                continue
            seen.add(x)
            work.extend(self.edges[x])
        return seen

    def callers(self):
        rev = {p: set() for p in self.nodes}
        for a, bs in self.edges.items():
            for b in bs:
                rev[b].add(a)
        return rev

    def sccs(self):
        """Tarjan; returns the non-trivial SCCs (size > 1 or self-loop)."""
        index = {}
        low = {}
        stack = []
        onstack = set()
        out = []
        counter = [0]
        import sys
        sys.setrecursionlimit(10000)

        def strong(v):
            index[v] = low[v] = counter[0]
            counter[0] += 1
            stack.append(v)
            onstack.add(v)
            for w in self.edges[v]:
                if w not in index:
                    strong(w)
                    low[v] = min(low[v], low[w])
                elif w in onstack:
                    low[v] = min(low[v], index[w])
            if low[v] == index[v]:
                comp = []
                while True:
                    w = stack.pop()
                    onstack.discard(w)
                    comp.append(w)
                    if w == v:
                        break
                if len(comp) > 1 or v in self.edges[v]:
                    out.append(sorted(comp))
        for v in sorted(self.nodes):
            if v not in index:
                strong(v)
        return out

    def may_syscall(self):
        """Bodies from which an OS entry is reachable."""
        direct = set()
        for p, b in self.nodes.items():
            for t in b.calls(cleanup=True):
                if os_entry_class(t):
                    direct.add(p)
        rev = self.callers()
        seen = set(direct)
        work = list(direct)
        while work:
            x = work.pop()
            for c in rev.get(x, ()):
                if c not in seen:
                    seen.add(c)
                    work.append(c)
        return seen, direct
