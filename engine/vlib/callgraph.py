"""Whole-crate call graph (CG): resolved calls, closure construction, function values, unresolved
calls to crate traits (all impls), static references -> initialisers, and call-backs from generic
library code into the crate's implementations of foreign traits (conversions, formatting, ...)."""
import re

from .common import is_bitflags_generated, os_entry_class

FOREIGN_ROOTS = ("std::", "core::", "alloc::", "rustix::", "bitflags::", "thiserror::", "once_cell::", "libc::")
FMT_ARG = {"new_display": "std::fmt::Display", "new_debug": "std::fmt::Debug", "new_lower_hex": "std::fmt::LowerHex",
           "new_upper_hex": "std::fmt::UpperHex", "new_octal": "std::fmt::Octal", "new_binary": "std::fmt::Binary"}


def base_type(ty):
    """Nominal head of a type string: strips references, Box/Rc/Arc, lifetimes and generic arguments."""
    ty = (ty or "").strip()
    while True:
        m = re.match(r"^(&(?:'\w+ )?(?:mut )?|\*(?:const|mut) )", ty)
        if m:
            ty = ty[m.end():].strip()
            continue
        m = re.match(r"^(?:std::boxed::Box|std::rc::Rc|std::sync::Arc)<(.*)>$", ty)
        if m:
            ty = m.group(1).strip()
            continue
        break
    return re.sub(r"<.*$", "", ty)


def split_generics(ty):
    """Top-level generic arguments of `Head<A, B<C>, D>` -> [A, B<C>, D]."""
    i = ty.find("<")
    if i < 0 or not ty.endswith(">"):
        return []
    out, depth, cur = [], 0, ""
    for ch in ty[i + 1:-1]:
        if ch in "<([":
            depth += 1
        elif ch in ">)]":
            depth -= 1
        if ch == "," and depth == 0:
            out.append(cur.strip())
            cur = ""
        else:
            cur += ch
    if cur.strip():
        out.append(cur.strip())
    return out


class CallGraph:
    def __init__(self, facts, skip=is_bitflags_generated, broad_callbacks=False):
        self.facts = facts
        self.broad = broad_callbacks
        # crate impls of foreign traits, by nominal self type
        self.foreign_impls = {}
        for i in facts.impls:
            if i["trait"].startswith(FOREIGN_ROOTS):
                for m in i["methods"]:
                    self.foreign_impls.setdefault(base_type(i["self_ty"]), []).append((i["trait"], m["impl_item"]))
        self.crate_types = set(facts.adts)
        self.nodes = {}
        for b in facts.bodies:
            if b.kind in ("fn", "assoc_fn", "closure", "static", "const", "assoc_const", "anon_const") and not skip(b):
                self.nodes.setdefault(b.path, b)
        self.edges = {p: set() for p in self.nodes}
        self.edge_info = {}       # (src, dst) -> list of (kind, term|stmt)
        self.external = {p: [] for p in self.nodes}   # calls leaving the crate
        for p, b in self.nodes.items():
            for blk in b.blocks:
                ops = []
                for s in blk.stmts:
                    ops.extend(s.rv_operands())
                    if s.kind == "assign" and s.rv and s.rv["k"] == "agg" and s.rv.get("closure"):
                        self._add(p, s.rv["closure"], "closure", s)
                    if s.kind == "assign" and s.rv and s.rv["k"] == "tls":
                        self._add(p, s.rv["static"], "static", s)
                t = blk.term
                if t.kind in ("call", "tailcall"):
                    ops.extend(t.args)
                    f = t.f
                    r = t.resolved
                    if f.get("unres") and f.get("trait"):
                        impls = facts.impl_methods(f["path"])
                        for im in impls:
                            self._add(p, im, "unresolved-trait", t)
                        if not impls:
                            self.external[p].append(t)
                    elif r in self.nodes:
                        self._add(p, r, "call", t)
                    elif t.callee in self.nodes:
                        self._add(p, t.callee, "call", t)
                    else:
                        self.external[p].append(t)
                        self._callbacks(p, t)
                elif t.kind == "drop":
                    self._drop_edges(p, b, t)
                for o in ops:
                    if o.is_const:
                        c = o.const
                        if c.get("static"):
                            self._add(p, c["static"], "static", o)
                        for k in ("fn", "fnd"):
                            if c.get(k) in self.nodes:
                                self._add(p, c[k], "fnvalue", o)
                        if c.get("fn") and c.get("fn") not in self.nodes and c.get("fnd") not in self.nodes:
                            # function value of a trait method implemented in the crate
                            for im in facts.impl_methods(c["fn"]):
                                self._add(p, im, "fnvalue", o)

    def _impls(self, ty, trait):
        return [m for (tr, m) in self.foreign_impls.get(base_type(ty), []) if tr == trait]

    def _callbacks(self, p, t):
        """A call leaving the crate can come back through the crate's impls of foreign traits for the types
        it is instantiated with.  The usual conversions are resolved exactly; with broad_callbacks every
        foreign-trait impl of every crate type mentioned in the instantiation is a possible callee."""
        f = t.f
        callee = t.callee
        full = f.get("full") or ""
        targets = []
        if callee == "std::convert::Into::into":
            targets = self._impls(t.rty, "std::convert::From")
        elif callee == "std::convert::TryInto::try_into":
            g = split_generics(t.rty or "")
            targets = self._impls(g[0] if g else "", "std::convert::TryFrom") + self._impls(f.get("self_ty"), "std::convert::TryInto")
        elif callee == "std::ops::FromResidual::from_residual":
            g = split_generics(t.rty or "")
            if len(g) == 2:
                src = split_generics((t.argtys or [""])[0])
                if not (len(src) == 2 and src[1] == g[1]):
                    targets = self._impls(g[1], "std::convert::From")
        elif callee == "std::string::ToString::to_string":
            targets = self._impls(f.get("self_ty"), "std::fmt::Display")
        elif callee.startswith("core::fmt::rt::Argument::") and callee.rsplit("::", 1)[-1] in FMT_ARG:
            m = re.search(r"::<(.*)>$", full)
            if m:
                targets = self._impls(m.group(1), FMT_ARG[callee.rsplit("::", 1)[-1]])
        elif f.get("trait", "").startswith("std::fmt::") and f.get("self_ty"):
            targets = self._impls(f["self_ty"], f["trait"])
        elif callee == "std::ops::Drop::drop":
            targets = self._impls(f.get("self_ty"), "std::ops::Drop")
        for m in targets:
            self._add(p, m, "callback", t)
        if self.broad:
            text = " ".join([full] + list(t.argtys or []) + [t.rty or ""])
            for ct in self.crate_types:
                if ct in text and re.search(r"(?<![\w:])" + re.escape(ct) + r"(?!\w)", text):
                    for (_tr, m) in self.foreign_impls.get(ct, []):
                        if m not in targets:
                            self._add(p, m, "callback-broad", t)

    def _drop_edges(self, p, b, t):
        """Dropping a value runs the Drop impls of the crate types it contains."""
        ty = t.raw.get("pty")
        if not ty:
            return
        for ct in self.crate_types:
            if ct in ty:
                for m in self._impls(ct, "std::ops::Drop"):
                    self._add(p, m, "callback", t)

    def _add(self, a, b, kind, site):
        if b not in self.nodes:
            return
        self.edges[a].add(b)
        self.edge_info.setdefault((a, b), []).append((kind, site))

    def reachable_from(self, start):
        seen = set()
        work = [start] if isinstance(start, str) else list(start)
        while work:
            x = work.pop()
            if x in seen or x not in self.edges:
                continue
            seen.add(x)
            work.extend(self.edges[x])
        return seen

    def callers(self):
        rev = {p: set() for p in self.nodes}
        for a, bs in self.edges.items():
            for b in bs:
                rev[b].add(a)
        return rev

    def sccs(self):
        """Tarjan; returns the non-trivial SCCs (size > 1 or self-loop)."""
        index = {}
        low = {}
        stack = []
        onstack = set()
        out = []
        counter = [0]
        import sys
        sys.setrecursionlimit(10000)

        def strong(v):
            index[v] = low[v] = counter[0]
            counter[0] += 1
            stack.append(v)
            onstack.add(v)
            for w in self.edges[v]:
                if w not in index:
                    strong(w)
                    low[v] = min(low[v], low[w])
                elif w in onstack:
                    low[v] = min(low[v], index[w])
            if low[v] == index[v]:
                comp = []
                while True:
                    w = stack.pop()
                    onstack.discard(w)
                    comp.append(w)
                    if w == v:
                        break
                if len(comp) > 1 or v in self.edges[v]:
                    out.append(sorted(comp))
        for v in sorted(self.nodes):
            if v not in index:
                strong(v)
        return out

    def may_syscall(self):
        """Bodies from which an OS entry is reachable."""
        direct = set()
        for p, b in self.nodes.items():
            for t in b.calls(cleanup=True):
                if os_entry_class(t):
                    direct.add(p)
        rev = self.callers()
        seen = set(direct)
        work = list(direct)
        while work:
            x = work.pop()
            for c in rev.get(x, ()):
                if c not in seen:
                    seen.add(c)
                    work.append(c)
        return seen, direct
