"""CFG utilities over vdrv bodies: edges, definite-variant pruning (PRUNE), reachability with
cuts (CUT), dominators, natural loops, control dependence."""
import re

from .facts import Operand, Place

# callee paths that return their Result/Option argument with the same variant
VARIANT_PRESERVING = {
    "error::ErrorExt::wrap",
    "error::ErrorExt::with_wrap",
    "std::result::Result::<T, E>::map_err",
    "std::result::Result::<T, E>::map",
    "std::option::Option::<T>::map",
}

# (adt path, variant index) -> variant index of the ControlFlow returned by Try::branch
def _is_payload0(place):
    """`(x as V).0` (possibly behind derefs): the single payload field of an enum variant."""
    pr = [p for p in place.proj if p != "*"]
    return len(pr) == 2 and isinstance(pr[0], dict) and "dc" in pr[0] and isinstance(pr[1], dict) and pr[1].get("f") == 0


TRY_BRANCH = {
    ("std::result::Result", 0): 0,  # Ok -> Continue
    ("std::result::Result", 1): 1,  # Err -> Break
    ("std::option::Option", 0): 1,  # None -> Break
    ("std::option::Option", 1): 0,  # Some -> Continue
}


class Edge:
    __slots__ = ("src", "dst", "label")

    def __init__(self, src, dst, label):
        self.src, self.dst, self.label = src, dst, label

    def key(self):
        return (self.src, self.dst, self.label)

    def __repr__(self):
        return "bb%d -%s-> bb%d" % (self.src, self.label, self.dst)


def raw_edges(body, bb):
    """All outgoing edges of a block: list of Edge; labels: 'goto', ('sw', v), ('sw','otherwise'),
    'ret' (call return), 'unwind', 'drop', 'assert'."""
    t = body.blocks[bb].term
    r = t.raw
    k = t.kind
    out = []
    if k == "goto":
        out.append(Edge(bb, r["t"], "goto"))
    elif k == "switch":
        for v, tg in zip(r["vals"], r["tgts"]):
            out.append(Edge(bb, tg, ("sw", v)))
        out.append(Edge(bb, r["other"], ("sw", "otherwise")))
    elif k == "call":
        if r.get("t") is not None:
            out.append(Edge(bb, r["t"], "ret"))
        if r.get("u") is not None:
            out.append(Edge(bb, r["u"], "unwind"))
    elif k == "drop":
        out.append(Edge(bb, r["t"], "drop"))
        if r.get("u") is not None:
            out.append(Edge(bb, r["u"], "unwind"))
    elif k == "assert":
        out.append(Edge(bb, r["t"], "assert"))
        if r.get("u") is not None:
            out.append(Edge(bb, r["u"], "unwind"))
    return out


class CFG:
    """Pruned, cleanup-free control-flow graph of one body."""

    def __init__(self, body, prune=True, keep_unwind=False):
        self.body = body
        self.n = len(body.blocks)
        self.keep_unwind = keep_unwind
        self.pruned_edges = []
        self.variant_at_switch = {}
        known = self._variant_analysis() if prune else {}
        self.succ = {}
        self.pred = {i: [] for i in range(self.n)}
        for i in range(self.n):
            es = []
            for e in raw_edges(body, i):
                if e.label == "unwind" and not keep_unwind:
                    continue
                if body.blocks[e.dst].cleanup and not keep_unwind:
                    continue
                es.append(e)
            if i in known:
                keepv = known[i]
                kept = [e for e in es if e.label == ("sw", keepv)]
                if not kept:
                    kept = [e for e in es if e.label == ("sw", "otherwise")]
                for e in es:
                    if e not in kept:
                        self.pruned_edges.append(e)
                es = kept
            self.succ[i] = es
        # drop blocks whose terminator is Unreachable: edges into them are infeasible
        changed = True
        dead = set()
        while changed:
            changed = False
            for i in range(self.n):
                if i in dead:
                    continue
                t = body.blocks[i].term
                if t.kind == "unreachable" or (self.succ[i] == [] and t.kind not in ("ret", "resume", "terminate", "call", "tailcall")):
                    dead.add(i)
                    changed = True
                    continue
                live = [e for e in self.succ[i] if e.dst not in dead]
                if len(live) != len(self.succ[i]):
                    self.succ[i] = live
                    changed = True
                    if not live and t.kind not in ("ret", "resume", "terminate", "call", "tailcall"):
                        dead.add(i)
        self.dead = dead
        self.threaded = []
        self._jump_thread()
        for i in range(self.n):
            for e in self.succ[i]:
                self.pred[e.dst].append(e)
        self.entry = 0

    def _jump_thread(self):
        """A block with no statements that switches on a local whose value every `goto` predecessor has
        just set to a constant (matches!, && / || lowering) is bypassed: P -> B -> T(c) becomes P -> T(c)."""
        body = self.body
        for b in range(self.n):
            blk = body.blocks[b]
            t = blk.term
            if t.kind != "switch" or blk.stmts or b in self.dead:
                continue
            d = Operand(t.raw["d"])
            if d.place is None or not d.place.is_local:
                continue
            L = d.place.local
            targets = {}
            other = None
            for e in self.succ[b]:
                if e.label[1] == "otherwise":
                    other = e.dst
                else:
                    targets[e.label[1]] = e.dst
            for p in range(self.n):
                if p == b:
                    continue
                es = self.succ.get(p, [])
                for k, e in enumerate(es):
                    if e.dst != b or e.label != "goto":
                        continue
                    val = None
                    for s in body.blocks[p].stmts:
                        if s.kind == "assign" and s.lhs.local == L:
                            val = None
                            if s.lhs.is_local and s.rv["k"] == "use":
                                op = Operand(s.rv["a"])
                                if op.is_const and op.int_value() is not None:
                                    val = op.int_value()
                    if val is None:
                        continue
                    tgt = targets.get(val, other)
                    if tgt is None:
                        continue
                    es[k] = Edge(p, tgt, "goto")
                    self.threaded.append((p, b, tgt))

    # ---------------------------------------------------------------- PRUNE
    def _variant_analysis(self):
        """Forward must-analysis: local -> (adt, variant index). Returns {bb: switch value}
        for SwitchInt terminators whose discriminant is known."""
        body = self.body
        n = self.n
        IN = [None] * n  # None = unvisited (top)
        IN[0] = {}
        work = [0]
        result = {}
        self._switch_on = {}     # switch block -> local whose discriminant it tests

        def transfer(bb, state, record):
            st = dict(state)
            blk = body.blocks[bb]
            discr_of = {}
            discr_src = {}
            for s in blk.stmts:
                if s.kind == "assign":
                    lhs = s.lhs
                    rv = s.rv
                    if not lhs.is_local:
                        st.pop(lhs.local, None)
                        continue
                    l = lhs.local
                    k = rv["k"]
                    if k == "agg" and rv.get("ak") == "adt":
                        st[l] = (rv["adt"], rv["vi"])
                        # one level of payload: Ok(None), Ok(Some(x)), Some(Err(e)) ...
                        st.pop((l, 0), None)
                        ops = rv.get("ops") or []
                        if len(ops) == 1:
                            o0 = Operand(ops[0])
                            if o0.place is not None and o0.place.is_local and o0.place.local in st:
                                st[(l, 0)] = st[o0.place.local]
                            elif o0.is_const and (ops[0].get("k") or {}).get("ty") == "bool":
                                st[(l, 0)] = ("bool", (ops[0]["k"].get("u") or 0) & 1)
                    elif k == "use" and Operand(rv["a"]).is_const and (rv["a"].get("k") or {}).get("ty") == "bool":
                        st.pop((l, 0), None)
                        if any("cfg" in str(x_) for x_ in (s.x or [])):
                            st.pop(l, None)      # cfg!(..): a fact about this build configuration, not about the code
                        else:
                            st[l] = ("bool", (rv["a"]["k"].get("u") or 0) & 1)
                    elif k == "un" and rv.get("op") == "Not" and Operand(rv["a"]).place is not None and Operand(rv["a"]).place.is_local \
                            and st.get(Operand(rv["a"]).place.local, (None,))[0] == "bool":
                        st.pop((l, 0), None)
                        st[l] = ("bool", 1 - st[Operand(rv["a"]).place.local][1])
                    elif k == "use":
                        op = Operand(rv["a"])
                        st.pop((l, 0), None)
                        if op.place is not None and op.place.is_local and op.place.local in st:
                            st[l] = st[op.place.local]
                            if (op.place.local, 0) in st:
                                st[(l, 0)] = st[(op.place.local, 0)]
                        elif op.place is not None and (op.place.local, 0) in st and _is_payload0(op.place):
                            # `(x as Variant).0` of a value whose payload variant is known
                            st[l] = st[(op.place.local, 0)]
                        else:
                            st.pop(l, None)
                    elif k == "discr":
                        p = Place(rv["p"])
                        st.pop(l, None)
                        if p.is_local:
                            discr_src[l] = p.local
                        if p.is_local and p.local in st:
                            discr_of[l] = st[p.local][1]
                        elif not p.is_local and _is_payload0(p) and (p.local, 0) in st and st[(p.local, 0)][0] != "bool":
                            # match on the payload of a value whose payload variant is known: `Ok(None)` vs `Ok(Some(_))`
                            discr_of[l] = st[(p.local, 0)][1]
                    elif k in ("ref", "rawptr"):
                        p = Place(rv["p"])
                        if rv.get("mut") and p.local in st:
                            st.pop(p.local, None)
                        st.pop(l, None)
                    else:
                        st.pop(l, None)
                elif s.kind == "setdiscr":
                    st.pop(s.lhs.local, None)
            t = blk.term
            self._last_switch_value = None
            if t.kind == "switch":
                d = Operand(t.raw["d"])
                if d.place is not None and d.place.is_local and d.place.local in discr_src:
                    self._switch_on[bb] = discr_src[d.place.local]
                if d.place is not None and d.place.is_local:
                    self._last_switch_value = discr_of.get(d.place.local)
                    bv = st.get(d.place.local)
                    if self._last_switch_value is None and t.raw.get("dty") == "bool" and bv is not None and bv[0] == "bool":
                        self._last_switch_value = bv[1]
                        discr_of[d.place.local] = bv[1]
            if t.kind == "switch" and record:
                d = Operand(t.raw["d"])
                if d.place is not None and d.place.is_local and d.place.local in discr_of:
                    result[bb] = discr_of[d.place.local]
                else:
                    result.pop(bb, None)
            if t.kind == "call":
                dest = t.dest
                args = t.args
                newv = None
                payload = None
                if dest is not None and dest.is_local:
                    a0 = args[0] if args else None
                    a0v = None
                    if a0 is not None and a0.place is not None and a0.place.is_local:
                        a0v = st.get(a0.place.local)
                    if a0v is not None:
                        if t.callee in VARIANT_PRESERVING:
                            if t.callee.endswith("::map") and a0v[0].endswith("Result") is False and not a0v[0].endswith("Option"):
                                newv = None
                            else:
                                newv = a0v
                        elif t.callee == "std::ops::Try::branch":
                            m = TRY_BRANCH.get((a0v[0], a0v[1]))
                            if m is not None:
                                newv = ("std::ops::ControlFlow", m)
                                if m == 0 and (a0.place.local, 0) in st:
                                    payload = st[(a0.place.local, 0)]
                    if t.callee == "std::ops::FromResidual::from_residual":
                        # `?` on a failure: the value built from the residual is the failure variant
                        rty = t.rty or ""
                        if rty.startswith("std::result::Result<"):
                            newv = ("std::result::Result", 1)
                        elif rty.startswith("std::option::Option<"):
                            newv = ("std::option::Option", 0)
                # arguments moved / mutably borrowed are gone
                for a in args:
                    if a.place is not None and a.kind == "move" and a.place.is_local:
                        st.pop(a.place.local, None)
                        st.pop((a.place.local, 0), None)
                if dest is not None:
                    st.pop((dest.local, 0), None)
                    if dest.is_local and newv is not None:
                        st[dest.local] = newv
                        if payload is not None:
                            st[(dest.local, 0)] = payload
                    else:
                        st.pop(dest.local, None)
            return st

        self._vtransfer = transfer
        self._vIN = IN
        iters = 0
        while work:
            bb = work.pop()
            iters += 1
            if iters > 200000:
                break
            out = transfer(bb, IN[bb], False)
            for e in raw_edges(body, bb):
                if e.label == "unwind":
                    continue
                d = e.dst
                if IN[d] is None:
                    IN[d] = dict(out)
                    work.append(d)
                else:
                    new = {k: v for k, v in IN[d].items() if out.get(k) == v}
                    if new != IN[d]:
                        IN[d] = new
                        work.append(d)
        for bb in range(n):
            if IN[bb] is not None:
                transfer(bb, IN[bb], True)
        return result

    # ---------------------------------------------------------------- reachability
    def reachable(self, start, cut_nodes=(), cut_edges=(), through_start=True):
        """Blocks reachable from `start` (a block index, or an iterable of them) without
        entering a cut node or taking a cut edge ((src,dst) or (src,dst,label))."""
        cut_nodes = set(cut_nodes)
        ce2 = set()
        ce3 = set()
        for c in cut_edges:
            if isinstance(c, Edge):
                ce3.add(c.key())
            elif len(c) == 2:
                ce2.add(tuple(c))
            else:
                ce3.add(tuple(c))
        starts = [start] if isinstance(start, int) else list(start)
        seen = set()
        work = []
        for s0 in starts:
            if s0 in cut_nodes:
                continue
            seen.add(s0)
            work.append(s0)
        while work:
            b = work.pop()
            for e in self.succ.get(b, []):
                if e.dst in cut_nodes or (e.src, e.dst) in ce2 or e.key() in ce3:
                    continue
                if e.dst not in seen:
                    seen.add(e.dst)
                    work.append(e.dst)
        return seen

    def reaches(self, a, b, cut_nodes=(), cut_edges=()):
        return b in self.reachable(a, cut_nodes, cut_edges)

    def edge_targets_reachable(self, edges, cut_nodes=(), cut_edges=()):
        """Blocks reachable when starting by *taking* the given edges."""
        starts = [e.dst for e in edges]
        return self.reachable(starts, cut_nodes, cut_edges)

    def reach_assuming(self, assume):
        """Blocks reachable from the entry when the given locals hold the given enum variants ({local: (adt, index)}),
        e.g. a function specialised on one variant of an enum parameter."""
        e0 = Edge(-1, self.entry, "entry")
        return self.precise_reach([e0], _init={self.entry: dict(assume)})

    def precise_reach(self, edges, cut_nodes=(), cut_edges=(), _init=None):
        """Blocks reachable when starting by taking `edges`, following only paths that are consistent with the enum
        variants established *on those paths* (the variant state at the starting edge, refined by the edge itself,
        is propagated forward and joined only with other paths that also start at `edges`).  Sound: a block is
        dropped only if every path from the edges to it passes a `match` arm that contradicts a definitely known
        variant."""
        if not getattr(self, "_vIN", None):
            return self.edge_targets_reachable(edges, cut_nodes, cut_edges)
        body = self.body
        cut_nodes = set(cut_nodes)
        ce3 = {c.key() if isinstance(c, Edge) else tuple(c) for c in cut_edges}

        def adt_of(local):
            ty = body.local_tys[local]
            ty = re.sub(r"^(&(mut )?)+", "", ty)
            for pre, name in (("std::result::Result<", "std::result::Result"), ("std::option::Option<", "std::option::Option"),
                              ("std::ops::ControlFlow<", "std::ops::ControlFlow")):
                if ty.startswith(pre):
                    return name
            return re.sub(r"<.*$", "", ty)

        def out_state(e):
            st_in = self._vIN[e.src]
            if st_in is None:
                return None
            st = self._vtransfer(e.src, st_in, False)
            return refine(e, st)

        def refine(e, st):
            if isinstance(e.label, tuple) and e.label[0] == "sw" and e.src in self._switch_on and isinstance(e.label[1], int):
                l = self._switch_on[e.src]
                st = dict(st)
                st[l] = (adt_of(l), e.label[1])
            return st

        K = 8       # distinct variant states kept per block (paths are only merged beyond that)
        IN = {}     # block -> list of states

        def add(bb, st):
            lst = IN.setdefault(bb, [])
            if any(st == x for x in lst):
                return False
            # a state that knows less than an existing one adds paths, one that knows more does not
            for x in lst:
                if all(st.get(k) == v for k, v in x.items()):
                    return False       # x's facts all hold in st: x already covers st's continuation
            if len(lst) < K:
                lst.append(dict(st))
            else:
                # merge into the closest state (keep only common facts)
                best = max(range(len(lst)), key=lambda i: sum(1 for k, v in lst[i].items() if st.get(k) == v))
                merged = {k: v for k, v in lst[best].items() if st.get(k) == v}
                if merged == lst[best]:
                    return False
                lst[best] = merged
            return True

        work = []
        for e in edges:
            st = _init.get(e.dst) if _init is not None else out_state(e)
            if st is None or e.dst in cut_nodes:
                continue
            if add(e.dst, st):
                work.append(e.dst)
        it = 0
        while work:
            it += 1
            if it > 40000:
                return self.edge_targets_reachable(edges, cut_nodes, cut_edges)
            bb = work.pop()
            blk = body.blocks[bb]
            t = blk.term
            for st_in in list(IN.get(bb, [])):
                st_out = self._vtransfer(bb, st_in, False)
                decided = self._last_switch_value if t.kind == "switch" else None
                for e in self.succ.get(bb, []):
                    if e.dst in cut_nodes or e.key() in ce3:
                        continue
                    if decided is not None and isinstance(e.label, tuple) and e.label[0] == "sw":
                        vals = [x.label[1] for x in self.succ.get(bb, []) if isinstance(x.label, tuple)]
                        if e.label[1] != decided and not (e.label[1] == "otherwise" and decided not in vals):
                            continue
                    st = refine(e, st_out)
                    if add(e.dst, st) and e.dst not in work:
                        work.append(e.dst)
        return set(IN)

    def live_blocks(self):
        return self.reachable(self.entry)

    def return_blocks(self):
        live = self.live_blocks()
        return [i for i in live if self.body.blocks[i].term.kind == "ret"]

    def path(self, a, b, cut_nodes=(), cut_edges=()):
        """One path of blocks from a to b (BFS), or None."""
        cut_nodes = set(cut_nodes)
        ce = {tuple(c.key()) if isinstance(c, Edge) else tuple(c) for c in cut_edges}
        prev = {a: None}
        q = [a]
        while q:
            x = q.pop(0)
            if x == b:
                out = []
                while x is not None:
                    out.append(x)
                    x = prev[x]
                return out[::-1]
            for e in self.succ.get(x, []):
                if e.dst in cut_nodes or (e.src, e.dst) in ce or e.key() in ce:
                    continue
                if e.dst not in prev:
                    prev[e.dst] = x
                    q.append(e.dst)
        return None

    # ---------------------------------------------------------------- dominators
    def dominators(self):
        """dom[b] = set of blocks dominating b (incl. b), over live blocks."""
        live = self.live_blocks()
        order = self._rpo(live)
        dom = {b: set(live) for b in live}
        dom[self.entry] = {self.entry}
        changed = True
        while changed:
            changed = False
            for b in order:
                if b == self.entry:
                    continue
                ps = [e.src for e in self.pred[b] if e.src in live]
                if not ps:
                    continue
                new = set.intersection(*[dom[p] for p in ps]) | {b}
                if new != dom[b]:
                    dom[b] = new
                    changed = True
        return dom

    def _rpo(self, live):
        seen = set()
        post = []

        def dfs(s0):
            stack = [(s0, iter(self.succ.get(s0, [])))]
            seen.add(s0)
            while stack:
                node, it = stack[-1]
                adv = False
                for e in it:
                    if e.dst in live and e.dst not in seen:
                        seen.add(e.dst)
                        stack.append((e.dst, iter(self.succ.get(e.dst, []))))
                        adv = True
                        break
                if not adv:
                    post.append(node)
                    stack.pop()

        dfs(self.entry)
        return post[::-1]

    def dominates(self, a, b, dom=None):
        dom = dom or self.dominators()
        return b in dom and a in dom[b]

    # ---------------------------------------------------------------- loops
    def back_edges(self):
        dom = self.dominators()
        out = []
        for b in dom:
            for e in self.succ.get(b, []):
                if e.dst in dom[b]:
                    out.append(e)
        return out

    def natural_loops(self):
        """{header: set(blocks)} merged per header."""
        loops = {}
        for e in self.back_edges():
            h = e.dst
            body_ = {h, e.src}
            work = [e.src]
            while work:
                x = work.pop()
                if x == h:
                    continue
                for pe in self.pred[x]:
                    if pe.src not in body_:
                        body_.add(pe.src)
                        work.append(pe.src)
            loops.setdefault(h, set()).update(body_)
        return loops

    # ---------------------------------------------------------------- post-dominators / control dependence
    def postdominators(self):
        live = self.live_blocks()
        exits = [b for b in live if not [e for e in self.succ.get(b, []) if e.dst in live]]
        EXIT = -1
        nodes = set(live) | {EXIT}
        succ = {b: [e.dst for e in self.succ.get(b, []) if e.dst in live] for b in live}
        for b in exits:
            succ[b] = [EXIT]
        succ[EXIT] = []
        pdom = {b: set(nodes) for b in nodes}
        pdom[EXIT] = {EXIT}
        changed = True
        while changed:
            changed = False
            for b in live:
                ss = succ[b]
                if not ss:
                    continue
                new = set.intersection(*[pdom[x] for x in ss]) | {b}
                if new != pdom[b]:
                    pdom[b] = new
                    changed = True
        return pdom

    def control_deps(self):
        """cd[b] = set of (branch block, edge) on which b is control dependent."""
        pdom = self.postdominators()
        live = self.live_blocks()
        cd = {b: set() for b in live}
        for a in live:
            es = [e for e in self.succ.get(a, []) if e.dst in live]
            if len(es) < 2:
                continue
            for e in es:
                # nodes that post-dominate e.dst but do not strictly post-dominate a
                for b in live:
                    if b in pdom[e.dst] and (b == a or b not in pdom[a]):
                        cd[b].add((a, e.key()))
        return cd


_cfg_cache = {}


def cfg_of(body, prune=True):
    k = (id(body), prune)
    c = _cfg_cache.get(k)
    if c is None:
        c = CFG(body, prune=prune)
        _cfg_cache[k] = c
    return c
