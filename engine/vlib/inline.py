"""Helper-extraction tolerance.  The rules were confirmed against the function structure of a reference tree
(engine/anchors.json).  Moving part of a function into a new private helper (an 'extract function' refactoring)
must not hide that part from a rule anchored on the original function, nor make the helper look like an
unknown actor to the who-may-call rules.

Functions of the analysed tree that the reference tree does not know ("fresh" functions: not in the anchor table
and not recognised as renames) are inlined, at the level of the extracted MIR facts, into their callers: the call
terminator is replaced by assignments of the arguments to the callee's parameter locals and a jump to a copy of
the callee's blocks, whose returns assign the call's destination and jump to the call's continuation.  A fresh
function whose every use was inlined is dropped from the fact file; its closures are re-parented to the caller.

Not inlined: recursive fresh functions, exported (pub-reachable / no_mangle / extern "C") ones, very large ones,
and uses that are not direct calls (function values) -- those stay as they are and the rules see them as new code.
"""
import copy

MAX_BLOCKS = 400
MAX_ROUNDS = 4
FN_KINDS = ("fn", "assoc_fn")


def _shift_place(p, loff):
    q = {"l": p["l"] + loff, "p": []}
    for e in p.get("p", []):
        if isinstance(e, dict) and "idx" in e:
            e = dict(e)
            e["idx"] = e["idx"] + loff
        q["p"].append(e)
    return q


def _shift(obj, loff):
    """Deep copy of a statement/operand/rvalue JSON with every local shifted."""
    if isinstance(obj, dict):
        if "l" in obj and "p" in obj and isinstance(obj.get("l"), int) and isinstance(obj.get("p"), list) and len(obj) == 2:
            return _shift_place(obj, loff)
        return {k: _shift(v, loff) for k, v in obj.items()}
    if isinstance(obj, list):
        return [_shift(v, loff) for v in obj]
    return obj


def _shift_term(t, loff, boff):
    t = _shift(t, loff)
    for k in ("t", "u", "other"):
        if isinstance(t.get(k), int):
            t[k] = t[k] + boff
    if "tgts" in t:
        t["tgts"] = [x + boff for x in t["tgts"]]
    return t


def _callee_path(term):
    f = term.get("f") or {}
    if f.get("unres"):
        return None
    if f.get("path") == "std::convert::Into::into" and term.get("rty") and term.get("argtys"):
        # `x.into()` runs the crate's `From` impl for the target type (std's blanket impl only forwards)
        k = (_lt(term["argtys"][0]), _lt(term["rty"]))
        if k in FROM_INDEX:
            return FROM_INDEX[k]
    return f.get("rpath") or f.get("path")


FROM_INDEX = {}      # (source type, target type) -> path of a fresh `From` impl (filled per run by inline_fresh)


def _lt(ty):
    import re as _r
    return _r.sub(r"'\w+", "'_", ty or "")


def _index_from_impls(paths):
    import re as _r
    FROM_INDEX.clear()
    for p in paths:
        m = _r.match(r"^<(.*) as std::convert::From<(.*)>>::from$", p)
        if m:
            FROM_INDEX[(_lt(m.group(2)), _lt(m.group(1)))] = p
            continue
        m = _r.match(r"^(?:.*::)?<impl std::convert::From<(.*)> for (.*)>::from$", p)
        if m:
            FROM_INDEX[(_lt(m.group(1)), _lt(m.group(2)))] = p


def _calls_in(body):
    out = []
    for bi, blk in enumerate(body["blocks"]):
        t = blk.get("term") or {}
        if t.get("k") == "call":
            out.append((bi, _callee_path(t)))
    return out


def _inline_site(caller, bi, callee, untuple=False):
    """Replace the call terminating block bi of `caller` by a copy of `callee`."""
    blk = caller["blocks"][bi]
    call = blk["term"]
    loff = len(caller["locals"])
    boff = len(caller["blocks"])
    caller["locals"].extend(copy.deepcopy(callee["locals"]))
    for d in callee.get("dbg", []) or []:
        dd = _shift(d, loff)
        dd["arg"] = None
        caller.setdefault("dbg", []).append(dd)
    sp = call.get("sp")
    # parameter passing
    if untuple:
        # closure call (rust-call ABI): argument 0 is the closure (environment), argument 1 the tuple of the real arguments
        args = call.get("args", [])
        if args:
            blk["stmts"].append({"k": "assign", "lhs": {"l": loff + 1, "p": []}, "rv": {"k": "use", "a": args[0]}, "sp": sp, "x": None, "inl": callee["path"]})
        if len(args) > 1:
            tup = args[1].get("m") or args[1].get("c")
            for i in range(callee["argc"] - 1):
                if tup is None:
                    break
                fld = {"l": tup["l"], "p": list(tup.get("p", [])) + [{"f": i, "n": str(i), "ty": callee["locals"][2 + i]["ty"]}]}
                blk["stmts"].append({"k": "assign", "lhs": {"l": loff + 2 + i, "p": []}, "rv": {"k": "use", "a": {"m": fld}}, "sp": sp, "x": None, "inl": callee["path"]})
    else:
        for i, a in enumerate(call.get("args", [])):
            if i + 1 > callee["argc"]:
                break
            blk["stmts"].append({"k": "assign", "lhs": {"l": loff + 1 + i, "p": []}, "rv": {"k": "use", "a": a}, "sp": sp, "x": None, "inl": callee["path"]})
    dest, tgt, unw = call.get("dest"), call.get("t"), call.get("u")
    blk["term"] = {"k": "goto", "t": boff, "sp": sp, "x": None, "inl": callee["path"]}
    ret_blocks = []
    for cb in callee["blocks"]:
        nb = {"cleanup": cb.get("cleanup", False), "stmts": [_shift(s, loff) for s in cb["stmts"]]}
        t = cb.get("term") or {"k": "none"}
        k = t.get("k")
        if k == "ret":
            if dest is not None:
                nb["stmts"].append({"k": "assign", "lhs": dest, "rv": {"k": "use", "a": {"m": {"l": loff, "p": []}}}, "sp": t.get("sp") or sp, "x": None, "inl": callee["path"]})
            nb["term"] = {"k": "goto", "t": tgt, "sp": t.get("sp"), "x": None} if tgt is not None else {"k": "unreachable", "sp": t.get("sp"), "x": None}
            if tgt is not None:
                ret_blocks.append(len(caller["blocks"]))     # index this block gets when appended below
        elif k == "resume" and unw is not None:
            nb["term"] = {"k": "goto", "t": unw, "sp": t.get("sp"), "x": None}
        else:
            nb["term"] = _shift_term(t, loff, boff)
        for extra in ("span",):
            if extra in cb:
                nb[extra] = cb[extra]
        caller["blocks"].append(nb)
    # Keep the analysis path-sensitive across the return: `helper(..)?` in the caller tests the discriminant of the value
    # a particular `return` of the helper just built.  If all returns jumped to one continuation block, that test would
    # see a merge of Ok and Err (and every fact established before an early `return Err(..)` would be lost).  Give each
    # return site its own copy of the continuation up to (and including) its first switch.
    # statement-free `goto` blocks of the copy only hide where paths merge: bypass them
    first_new = boff
    for _ in range(4):
        changed = False
        for i in range(first_new, len(caller["blocks"])):
            t = caller["blocks"][i].get("term") or {}
            slots = []
            if t.get("k") in ("goto", "call", "drop", "assert") and isinstance(t.get("t"), int):
                slots.append("t")
            if t.get("k") == "switch":
                slots += [("tgts", n) for n in range(len(t.get("tgts", [])))] + ["other"]
            for sl in slots:
                cur = t[sl[0]][sl[1]] if isinstance(sl, tuple) else t[sl]
                if not isinstance(cur, int) or cur < first_new or cur in ret_blocks:
                    continue
                tb = caller["blocks"][cur]
                tt = tb.get("term") or {}
                if not tb["stmts"] and tt.get("k") == "goto" and isinstance(tt.get("t"), int) and not tb.get("cleanup") and tt["t"] != cur:
                    _retarget(t, sl, tt["t"])
                    changed = True
        if not changed:
            break
    if tgt is not None:
        heads = list(ret_blocks)
        if len(heads) > 1:
            # several return blocks: each gets its own copy of the continuation
            chain = _switch_chain(caller, tgt)
            if chain:
                for h in heads[1:]:
                    first = _clone_chain(caller, chain)
                    caller["blocks"][h]["term"]["t"] = first
        for h in heads:
            # one return block reached from several `_0 = ..; goto ret` sites (how rustc lowers early returns), possibly
            # through statement-free trampoline blocks
            preds = _preds(caller, h)
            for _ in range(3):
                if len(preds) == 1 and preds[0][1] == "t":
                    pb = caller["blocks"][preds[0][0]]
                    if not pb["stmts"] and (pb.get("term") or {}).get("k") == "goto" and not pb.get("cleanup"):
                        h = preds[0][0]
                        preds = _preds(caller, h)
                        continue
                break
            if len(preds) > 1:
                chain = _switch_chain(caller, h)
                if chain:
                    for (pi, slot) in preds[1:]:
                        first = _clone_chain(caller, chain)
                        _retarget(caller["blocks"][pi]["term"], slot, first)


def _preds(body, target):
    """[(block index, slot)] of the normal-flow edges into `target`; slot names the terminator field holding it."""
    out = []
    for i, blk in enumerate(body["blocks"]):
        if blk.get("cleanup"):
            continue
        t = blk.get("term") or {}
        if t.get("k") in ("goto", "call", "drop", "assert") and t.get("t") == target:
            out.append((i, "t"))
        elif t.get("k") == "switch":
            for n, x in enumerate(t.get("tgts", [])):
                if x == target:
                    out.append((i, ("tgts", n)))
            if t.get("other") == target:
                out.append((i, "other"))
    return out


def _retarget(term, slot, new):
    if isinstance(slot, tuple):
        term[slot[0]][slot[1]] = new
    else:
        term[slot] = new


def _locals_in(obj, acc):
    if isinstance(obj, dict):
        if "l" in obj and "p" in obj and isinstance(obj.get("l"), int) and isinstance(obj.get("p"), list) and len(obj) == 2:
            acc.add(obj["l"])
            for e in obj["p"]:
                if isinstance(e, dict) and "idx" in e:
                    acc.add(e["idx"])
            return
        for v in obj.values():
            _locals_in(v, acc)
    elif isinstance(obj, list):
        for v in obj:
            _locals_in(v, acc)


def _rename_locals(obj, mapping):
    if isinstance(obj, dict):
        if "l" in obj and "p" in obj and isinstance(obj.get("l"), int) and isinstance(obj.get("p"), list) and len(obj) == 2:
            return {"l": mapping.get(obj["l"], obj["l"]),
                    "p": [dict(e, idx=mapping.get(e["idx"], e["idx"])) if isinstance(e, dict) and "idx" in e else e for e in obj["p"]]}
        return {k: _rename_locals(v, mapping) for k, v in obj.items()}
    if isinstance(obj, list):
        return [_rename_locals(v, mapping) for v in obj]
    return obj


def _clone_chain(body, chain):
    """Append a copy of the blocks `chain` (consecutive in control flow); returns the index of the first copy.
    Temporaries that are assigned by a statement inside the chain and mentioned nowhere outside it get fresh locals in
    the copy, so that they stay single-assignment (the analyses rely on that for `&x` / `&mut x` temporaries)."""
    inside = set()
    stmt_defs = set()
    for ci in chain:
        blk = body["blocks"][ci]
        _locals_in(blk["stmts"], inside)
        _locals_in(blk.get("term"), inside)
        for st in blk["stmts"]:
            if st.get("k") == "assign" and not st["lhs"].get("p"):
                stmt_defs.add(st["lhs"]["l"])
    outside = set()
    cs = set(chain)
    for i, blk in enumerate(body["blocks"]):
        if i in cs:
            continue
        _locals_in(blk["stmts"], outside)
        _locals_in(blk.get("term"), outside)
    mapping = {}
    for l in sorted(stmt_defs):
        if l not in outside and l > body["argc"] and l != 0:
            mapping[l] = len(body["locals"])
            body["locals"].append(copy.deepcopy(body["locals"][l]))
    first = len(body["blocks"])
    for n, ci in enumerate(chain):
        cpy = copy.deepcopy(body["blocks"][ci])
        if mapping:
            cpy["stmts"] = _rename_locals(cpy["stmts"], mapping)
            cpy["term"] = _rename_locals(cpy["term"], mapping)
        tt = cpy["term"]
        if n + 1 < len(chain) and tt.get("t") == chain[n + 1]:
            tt["t"] = first + n + 1
        body["blocks"].append(cpy)
    return first


PASS_THROUGH = ("std::ops::Try::branch", "std::convert::From::from", "std::convert::Into::into", "std::result::Result::<T, E>::is_ok",
                "std::result::Result::<T, E>::is_err", "std::option::Option::<T>::is_some", "std::option::Option::<T>::is_none")


def _switch_chain(body, start, limit=7):
    """Blocks start, next, ... ending in the first `switch`, provided every block before it has a single normal
    successor and only passes the value along (goto, or a call from PASS_THROUGH). None if there is no such chain."""
    chain = []
    cur = start
    for _ in range(limit):
        blk = body["blocks"][cur]
        if blk.get("cleanup"):
            return None
        t = blk.get("term") or {}
        chain.append(cur)
        k = t.get("k")
        if k == "switch":
            return chain
        if k == "goto" and isinstance(t.get("t"), int):
            cur = t["t"]
            continue
        if k == "call" and isinstance(t.get("t"), int) and ((t.get("f") or {}).get("path") in PASS_THROUGH):
            cur = t["t"]
            continue
        return None
    return None


def inline_fresh(j, fresh):
    """Inline the fresh functions of fact dict `j` (in place). Returns {fresh path: [callers it was inlined into]}."""
    bodies = {}
    for b in j["bodies"]:
        if b["kind"] in FN_KINDS:
            bodies.setdefault(b["path"], b)
    _index_from_impls(fresh)
    keep_body = set()
    cands = {}
    for p in fresh:
        b = bodies.get(p)
        if b is None:
            continue
        exported = bool(b.get("pub") and b.get("reachable"))
        if b.get("no_mangle") or (b.get("abi") not in (None, "Rust")) or (exported and not b.get("impl_trait")):
            continue
        if exported:
            keep_body.add(p)        # a trait impl others may call: analysed inlined where the crate calls it, but it stays
        if len(b["blocks"]) > MAX_BLOCKS:
            continue
        cands[p] = b
    # drop candidates that are (mutually) recursive among themselves
    def reaches(a, target, seen):
        for (_bi, c) in _calls_in(cands[a]):
            if c == target:
                return True
            if c in cands and c not in seen:
                seen.add(c)
                if reaches(c, target, seen):
                    return True
        return False
    for p in list(cands):
        if reaches(p, p, set()):
            del cands[p]
    done = {}
    for _round in range(MAX_ROUNDS):
        changed = False
        # innermost first: inline candidates into candidates before into the anchored callers
        for b in j["bodies"]:
            if b["kind"] not in FN_KINDS and b["kind"] != "closure":
                continue
            for (bi, c) in _calls_in(b):
                if c in cands and c != b["path"]:
                    _inline_site(b, bi, cands[c])
                    done.setdefault(c, [])
                    if b["path"] not in done[c]:
                        done[c].append(b["path"])
                    changed = True
        if not changed:
            break
    # remove fresh bodies that are no longer referenced by a call or a function value
    still = set()
    text_refs = {}
    for b in j["bodies"]:
        for (bi, c) in _calls_in(b):
            if c in done and b["path"] != c:
                still.add(c)
    import json as _json
    for p in list(done):
        if p in still or p in keep_body:
            continue
        # function-value references: the path appears as a constant "fn" somewhere else
        needle = '"fn": %s' % _json.dumps(p)
        used = False
        for b in j["bodies"]:
            if b["path"] == p or b["path"].startswith(p + "::{"):
                continue
            if needle in _json.dumps(b["blocks"]):
                used = True
                break
        if used:
            continue
        callers = done[p]
        newparent = callers[0] if callers else None
        keep = []
        for b in j["bodies"]:
            if b["path"] == p or b["path"].startswith(p + "::{promoted"):
                continue
            keep.append(b)
        j["bodies"] = keep
        if newparent:
            _reparent_closures(j, p, newparent)
    return done


def _reparent_closures(j, old_parent, new_parent):
    """Closures of an inlined-and-dropped helper become closures of the caller (fresh indices from 100 up), in the
    bodies' paths, their parent links and every reference to them (closure aggregates, types are left alone)."""
    import json as _json
    import re as _re
    used = set()
    for b in j["bodies"]:
        m = _re.match(_re.escape(new_parent) + r"::\{closure#(\d+)\}$", b["path"])
        if m:
            used.add(int(m.group(1)))
    nxt = max([99] + list(used)) + 1
    mapping = {}
    for b in j["bodies"]:
        if b["kind"] == "closure" and b.get("parent") == old_parent:
            mapping[b["path"]] = "%s::{closure#%d}" % (new_parent, nxt)
            nxt += 1
    if not mapping:
        return
    text = _json.dumps(j["bodies"])
    for old, new in sorted(mapping.items(), key=lambda kv: -len(kv[0])):
        text = text.replace(_json.dumps(old)[1:-1], _json.dumps(new)[1:-1])
    bodies = _json.loads(text)
    for b in bodies:
        if b.get("parent") == old_parent and b["path"] in mapping.values():
            b["parent"] = new_parent
            b["reparented_from"] = old_parent
    j["bodies"] = bodies


# ---------------------------------------------------------------------------------------------------------------
# Named booleans.  `let refuse = a || b; let other = c; if refuse || other { return Err(..) }` lowers to blocks that
# assign a constant to a bool local, join, evaluate something else, and only then branch on the local.  A
# path-insensitive analysis sees the join and forgets which way `a`/`b` went.  The paths are separated again by
# giving every predecessor that has just assigned a *constant* to the tested local its own copy of the blocks between
# the join and the branch, with the branch already decided.  The copied blocks may only contain side-effect free
# calls.  This is a semantics-preserving restructuring of the control-flow graph.
# ---------------------------------------------------------------------------------------------------------------
import re as _re

PURE_TAIL = _re.compile(r"::(contains|intersects|is_empty|bits|is_some|is_none|is_ok|is_err|eq|ne|as_bytes|deref|as_ref|len|is_absolute|"
                        r"is_symlink|is_dir|is_file|is_negative|is_positive|mode|as_fd|as_raw_fd|borrow|as_os_str|as_path)$")


def _bool_chain(body, start, limit=4):
    chain = []
    cur = start
    for _ in range(limit):
        blk = body["blocks"][cur]
        if blk.get("cleanup"):
            return None
        t = blk.get("term") or {}
        chain.append(cur)
        k = t.get("k")
        if k == "switch":
            return chain if t.get("dty") == "bool" else None
        if k in ("goto", "drop") and isinstance(t.get("t"), int):
            cur = t["t"]
        elif k == "call" and isinstance(t.get("t"), int) and PURE_TAIL.search((t.get("f") or {}).get("path") or ""):
            cur = t["t"]
        else:
            return None
        if cur in chain:
            return None
    return None


def _cfg_dependent(stmt):
    """A literal that comes out of `cfg!(..)` is a property of the build configuration being analysed (debug
    assertions, features), not of the code: it must not be used to decide branches."""
    return any("cfg" in str(x) for x in (stmt.get("x") or []))


def _const_bool_at_end(blk, local):
    """The constant assigned to `local` by the last assignment to it in the block (None if not a constant)."""
    for s in reversed(blk["stmts"]):
        if s.get("k") == "assign" and s["lhs"].get("l") == local and not s["lhs"].get("p"):
            rv = s["rv"]
            if rv.get("k") == "use" and "k" in rv["a"] and rv["a"]["k"].get("ty") == "bool" and not _cfg_dependent(s):
                return rv["a"]["k"].get("u")
            return None
    return None


def _assigns(blk, local):
    for s in blk["stmts"]:
        if s.get("k") in ("assign", "setdiscr") and s.get("lhs", {}).get("l") == local:
            return True
    t = blk.get("term") or {}
    return t.get("k") == "call" and (t.get("dest") or {}).get("l") == local


def split_bool_merges(body, max_new=60):
    n0 = len(body["blocks"])
    added = 0
    for j in range(n0):
        if added > max_new:
            break
        blk = body["blocks"][j]
        if blk.get("cleanup"):
            continue
        preds = _preds(body, j)
        if len(preds) < 2:
            continue
        chain = _bool_chain(body, j)
        if not chain:
            continue
        sw = body["blocks"][chain[-1]]["term"]
        d = sw.get("d") or {}
        pl = d.get("m") or d.get("c")
        if not pl or pl.get("p"):
            continue
        L = pl["l"]
        # `_t = copy _named; switch _t` (possibly several copies along the chain): the decided local is the named one
        bad = False
        for ci in reversed(chain):
            cb_ = body["blocks"][ci]
            tt_ = cb_.get("term") or {}
            if ci != chain[-1] and tt_.get("k") == "call" and (tt_.get("dest") or {}).get("l") == L:
                bad = True
                break
            for s in reversed(cb_["stmts"]):
                if s.get("k") in ("assign", "setdiscr") and s.get("lhs", {}).get("l") == L:
                    rv = s.get("rv") or {}
                    src = rv.get("a", {}) if rv.get("k") == "use" and not s["lhs"].get("p") else {}
                    sp = src.get("c") or src.get("m")
                    if sp and not sp.get("p"):
                        L = sp["l"]
                    else:
                        bad = True
                        break
            if bad:
                break
        if bad or L is None:
            continue
        # every block of the chain after the head must have the previous one as its only predecessor
        if any(len(_preds(body, c)) != 1 for c in chain[1:]):
            continue
        deciding = []
        for (pi, slot) in preds:
            pb = body["blocks"][pi]
            if (pb.get("term") or {}).get("k") != "goto":
                continue
            v = _const_bool_at_end(pb, L)
            if v is not None:
                deciding.append((pi, slot, v))
        if not deciding or len(deciding) == len(preds) == 1:
            continue
        for (pi, slot, v) in deciding:
            first = _clone_chain(body, chain)
            last = body["blocks"][first + len(chain) - 1]
            t = last["term"]
            tgt = t["other"]
            for val, tg in zip(t.get("vals", []), t.get("tgts", [])):
                if val == v:
                    tgt = tg
            last["term"] = {"k": "goto", "t": tgt, "sp": t.get("sp"), "x": None, "decided": [L, v]}
            _retarget(body["blocks"][pi]["term"], slot, first)
            added += len(chain)
    return added


FN_TRAIT_CALLS = ("std::ops::Fn::call", "std::ops::FnMut::call_mut", "std::ops::FnOnce::call_once")


def inline_local_closure_calls(j, known=(), max_blocks=120):
    """`let check = |fd| verify(root_id, fd); ... check(&next)?` -- a closure that is defined and called directly in
    the same function is a local helper: its body is analysed inlined at the call (the closure body itself stays)."""
    bodies = {b["path"]: b for b in j["bodies"]}
    done = {}
    for b in j["bodies"]:
        if b["kind"] not in FN_KINDS and b["kind"] != "closure":
            continue
        for bi in range(len(b["blocks"])):
            t = b["blocks"][bi].get("term") or {}
            if t.get("k") != "call":
                continue
            f = t.get("f") or {}
            if f.get("path") not in FN_TRAIT_CALLS or f.get("unres"):
                continue
            c = bodies.get(f.get("rpath"))
            if c is None or c["kind"] != "closure" or c.get("parent") != b["path"] or len(c["blocks"]) > max_blocks:
                continue
            if c["path"] in known:
                continue        # a closure of the reference tree: the rules know it as a closure
            if any((x.get("term") or {}).get("k") == "call" and ((x["term"].get("f") or {}).get("rpath") == c["path"]) for x in c["blocks"]):
                continue
            _inline_site(b, bi, c, untuple=True)
            done.setdefault(c["path"], []).append(b["path"])
    # a closure that is only ever called directly (never handed to another function) has no life of its own: drop its body
    for cpath, parents in list(done.items()):
        c = bodies[cpath]
        parent = bodies.get(c.get("parent"))
        if parent is None:
            continue
        # locals holding the closure value or a reference to it
        held = set()
        for blk in parent["blocks"]:
            for st in blk["stmts"]:
                if st.get("k") == "assign" and not st["lhs"].get("p"):
                    rv = st.get("rv") or {}
                    if rv.get("k") == "agg" and rv.get("closure") == cpath:
                        held.add(st["lhs"]["l"])
        for _ in range(3):
            for blk in parent["blocks"]:
                for st in blk["stmts"]:
                    if st.get("k") == "assign" and not st["lhs"].get("p"):
                        rv = st.get("rv") or {}
                        src = None
                        if rv.get("k") in ("ref", "rawptr"):
                            src = rv["p"]
                        elif rv.get("k") == "use":
                            src = rv["a"].get("c") or rv["a"].get("m")
                        if src and src.get("l") in held and all(e == "*" for e in src.get("p", [])) and not st.get("inl"):
                            held.add(st["lhs"]["l"])
        escapes = False
        for b in j["bodies"]:
            for blk in b["blocks"]:
                t = blk.get("term") or {}
                if t.get("k") == "call":
                    if (t.get("f") or {}).get("rpath") == cpath:
                        escapes = True          # a call site that was not inlined
                    if b is parent:
                        for a in t.get("args", []):
                            pl = a.get("c") or a.get("m")
                            if pl and pl.get("l") in held:
                                escapes = True  # handed to some function
        if not escapes:
            j["bodies"] = [b for b in j["bodies"] if not (b["path"] == cpath or b["path"].startswith(cpath + "::{"))]
    return done


def decide_linear_bool_switches(body, max_back=6):
    """A `switch` on a bool local whose value was assigned a constant a few blocks earlier on the only path into it
    (what remains after paths have been separated) is replaced by the jump it always takes."""
    n = 0
    predmap = {}
    for i, blk in enumerate(body["blocks"]):
        for (pi, _slot) in []:
            pass
    # predecessor lists (normal flow)
    preds = {i: [] for i in range(len(body["blocks"]))}
    for i, blk in enumerate(body["blocks"]):
        t = blk.get("term") or {}
        tg = []
        if t.get("k") in ("goto", "call", "drop", "assert") and isinstance(t.get("t"), int):
            tg.append(t["t"])
        if t.get("k") == "switch":
            tg += list(t.get("tgts", [])) + [t.get("other")]
        for x in tg:
            if isinstance(x, int):
                preds[x].append(i)
        if isinstance(t.get("u"), int):
            preds[t["u"]].append(i)
    for si, blk in enumerate(body["blocks"]):
        t = blk.get("term") or {}
        if blk.get("cleanup") or t.get("k") != "switch" or t.get("dty") != "bool":
            continue
        d = t.get("d") or {}
        pl = d.get("m") or d.get("c")
        if not pl or pl.get("p"):
            continue
        L = pl["l"]
        cur = si
        val = None
        first = True
        for _ in range(max_back):
            cb_ = body["blocks"][cur]
            tt = cb_.get("term") or {}
            if not first and tt.get("k") == "call" and (tt.get("dest") or {}).get("l") == L:
                break
            stop = False
            for st in reversed(cb_["stmts"]):
                if st.get("k") in ("assign", "setdiscr") and st.get("lhs", {}).get("l") == L:
                    rv = st.get("rv") or {}
                    if st["lhs"].get("p") or rv.get("k") != "use":
                        stop = True
                        break
                    a = rv["a"]
                    if "k" in a and a["k"].get("ty") == "bool":
                        val = None if _cfg_dependent(st) else a["k"].get("u")
                        stop = True
                        break
                    sp = a.get("c") or a.get("m")
                    if sp and not sp.get("p"):
                        L = sp["l"]
                    else:
                        stop = True
                        break
            if stop:
                break
            first = False
            ps = [p_ for p_ in preds.get(cur, []) if not body["blocks"][p_].get("cleanup")]
            if len(ps) != 1 or ps[0] == cur:
                break
            # the predecessor must reach us unconditionally or through a call return (not through another switch arm
            # that could also define L)
            cur = ps[0]
        if val is None:
            continue
        tgt = t["other"]
        for v_, tg_ in zip(t.get("vals", []), t.get("tgts", [])):
            if v_ == val:
                tgt = tg_
        blk["term"] = {"k": "goto", "t": tgt, "sp": t.get("sp"), "x": None, "decided": [L, val]}
        n += 1
    return n
