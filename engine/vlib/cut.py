"""Helpers for must-pass-through (CUT) rules: follow a call's result to the branch that consumes it."""
from .cfg import cfg_of, Edge
from .facts import Operand, Place
from .dataflow import IDENTITY

RESULT_PRESERVING = {
    "std::option::Option::<T>::map",
    "error::ErrorExt::wrap", "error::ErrorExt::with_wrap", "std::result::Result::<T, E>::map_err",
    "std::result::Result::<T, E>::map", "std::option::Option::<T>::ok_or_else", "std::option::Option::<T>::ok_or",
}


def _single_succ(cfg, bb):
    es = cfg.succ.get(bb, [])
    if len(es) == 1:
        return es[0].dst
    return None


def result_edges(body, term, max_steps=12):
    """Follow the Result/Option returned by call `term` through wrap/map_err/`?` to the SwitchInt
    that branches on it. Returns dict(kind='try'|'match', bb=switch block, ok=[Edge], err=[Edge])
    or None."""
    cfg = cfg_of(body)
    d = term.dest
    if d is None or not d.is_local:
        return None
    cur = d.local
    bb = term.target
    kind = "match"
    steps = 0
    inverted = False
    while bb is not None and steps < max_steps:
        steps += 1
        blk = body.blocks[bb]
        discr_local = None
        for s in blk.stmts:
            if s.kind != "assign":
                continue
            if s.rv["k"] == "discr" and Place(s.rv["p"]).is_local and Place(s.rv["p"]).local == cur and s.lhs.is_local:
                discr_local = s.lhs.local
            elif s.rv["k"] == "use" and s.lhs.is_local:
                op = Operand(s.rv["a"])
                if op.place is not None and op.place.is_local and op.place.local == cur:
                    cur = s.lhs.local
        t = blk.term
        if t.kind == "switch" and discr_local is not None:
            dop = Operand(t.raw["d"])
            if dop.place is not None and dop.place.is_local and dop.place.local == discr_local:
                ok, err = [], []
                alle = cfg.succ.get(bb, []) + [pe for pe in cfg.pruned_edges if pe.src == bb]
                explicit = {e.label[1] for e in alle if isinstance(e.label, tuple) and e.label[1] != "otherwise"}
                for e in alle:
                    if e.label == ("sw", 0):
                        ok.append(e)
                    elif e.label == ("sw", 1):
                        err.append(e)
                    elif e.label == ("sw", "otherwise") and body.blocks[e.dst].term.kind != "unreachable":
                        # two-variant enum matched with one explicit arm: otherwise = the other variant
                        if explicit == {1}:
                            ok.append(e)
                        elif explicit == {0}:
                            err.append(e)
                # Option: None=0 (err), Some=1 (ok) when matched directly
                rty = term.rty or ""
                if kind == "match" and rty.startswith("std::option::Option"):
                    ok, err = err, ok
                live = {e.key() for e in cfg.succ.get(bb, [])}
                return {"kind": kind, "bb": bb, "ok": [e for e in ok if e.key() in live],
                        "err": [e for e in err if e.key() in live], "all_ok": ok, "all_err": err}
            return None
        if t.kind == "call":
            args = t.args
            uses = [i for i, a in enumerate(args) if a.place is not None and a.place.is_local and a.place.local == cur]
            if uses and uses[0] == 0 and t.dest is not None and t.dest.is_local:
                if t.callee in RESULT_PRESERVING:
                    cur = t.dest.local
                    bb = t.target
                    continue
                if t.callee == "std::ops::Try::branch":
                    cur = t.dest.local
                    kind = "try"
                    bb = t.target
                    continue
                return None
            bb = t.target
            continue
        if t.kind in ("goto", "drop"):
            bb = _single_succ(cfg, bb)
            continue
        return None
    return None


def bool_edges(body, term, max_steps=8):
    """Follow the bool returned by call `term` to the SwitchInt that consumes it (through `Not`).
    Returns dict(bb, true=[Edge], false=[Edge]) in terms of the call's result, or None."""
    cfg = cfg_of(body)
    d = term.dest
    if d is None or not d.is_local:
        return None
    return bool_local_edges(body, d.local, term.target, max_steps)


def bool_local_edges(body, local, bb, max_steps=8):
    cfg = cfg_of(body)
    cur = local
    neg = False
    steps = 0
    first = True
    while bb is not None and steps < max_steps:
        steps += 1
        # a value that flows through a control-flow merge is no longer the sole input of the branch
        if len({e.src for e in cfg.pred.get(bb, [])}) > 1:
            return None
        blk = body.blocks[bb]
        for s in blk.stmts:
            if s.kind != "assign" or not s.lhs.is_local:
                continue
            k = s.rv["k"]
            if k == "use":
                op = Operand(s.rv["a"])
                if op.place is not None and op.place.is_local and op.place.local == cur:
                    cur = s.lhs.local
            elif k == "un" and s.rv["op"] == "Not":
                op = Operand(s.rv["a"])
                if op.place is not None and op.place.is_local and op.place.local == cur:
                    cur = s.lhs.local
                    neg = not neg
        t = blk.term
        if t.kind == "switch":
            dop = Operand(t.raw["d"])
            if dop.place is not None and dop.place.is_local and dop.place.local == cur:
                tr, fa = [], []
                for e in cfg.succ.get(bb, []):
                    if e.label == ("sw", 0):
                        fa.append(e)
                    else:
                        tr.append(e)
                if neg:
                    tr, fa = fa, tr
                return {"bb": bb, "true": tr, "false": fa}
            return None
        if t.kind in ("goto", "drop"):
            bb = _single_succ(cfg, bb)
            continue
        if t.kind == "call":
            # a bool passed into another call: not a branch
            if any(a.place is not None and a.place.is_local and a.place.local == cur for a in t.args):
                return None
            bb = t.target
            continue
        return None
    return None


def stmt_bool_edges(body, bb, idx):
    """Edges of the switch consuming the bool defined by statement idx of block bb."""
    s = body.blocks[bb].stmts[idx]
    if not s.lhs.is_local:
        return None
    # continue scanning in the same block after idx
    cfg = cfg_of(body)
    cur = s.lhs.local
    neg = False
    blk = body.blocks[bb]
    for s2 in blk.stmts[idx + 1:]:
        if s2.kind != "assign" or not s2.lhs.is_local:
            continue
        k = s2.rv["k"]
        if k in ("use",) or (k == "un" and s2.rv["op"] == "Not"):
            op = Operand(s2.rv["a"])
            if op.place is not None and op.place.is_local and op.place.local == cur:
                cur = s2.lhs.local
                if k == "un":
                    neg = not neg
    t = blk.term
    if t.kind == "switch":
        dop = Operand(t.raw["d"])
        if dop.place is not None and dop.place.is_local and dop.place.local == cur:
            tr, fa = [], []
            for e in cfg.succ.get(bb, []):
                if e.label == ("sw", 0):
                    fa.append(e)
                else:
                    tr.append(e)
            if neg:
                tr, fa = fa, tr
            return {"bb": bb, "true": tr, "false": fa}
        return None
    nxt = _single_succ(cfg, bb)
    r = bool_local_edges(body, cur, nxt)
    if r is not None and neg:
        r = {"bb": r["bb"], "true": r["false"], "false": r["true"]}
    return r


def blocks_of_calls(body, *pats):
    return [t.bb for t in body.calls(*pats)]


def error_only(body, edges, ok_markers=None):
    """True if, starting by taking `edges`, no block that constructs a success value
    (Result::Ok / PartialLookup::Complete aggregate assigned towards _0) is reachable... simplified:
    every return reachable from the edges is reached with _0 last assigned an Err/Break-propagation."""
    cfg = cfg_of(body)
    reach = cfg.edge_targets_reachable(edges)
    for b in reach:
        for s in body.blocks[b].stmts:
            if s.kind == "assign" and s.lhs.is_local and s.lhs.local == 0 and s.rv["k"] == "agg":
                if s.rv.get("adt") == "std::result::Result" and s.rv.get("variant") == "Ok":
                    return False
    return True


def slice_pattern_tests(body, const_bytes):
    """Blocks forming a slice-pattern match against the byte string `const_bytes` (len test followed by
    per-element tests). Returns list of (entry switch bb, matched-edge Edge) for the final element test."""
    cfg = cfg_of(body)
    out = []
    n = len(const_bytes)
    for blk in body.blocks:
        if blk.cleanup:
            continue
        t = blk.term
        if t.kind != "switch":
            continue
        # find  lenlocal = Eq(PtrMetadata(x), const n) ; switch
        islen = False
        for s in blk.stmts:
            if s.kind == "assign" and s.rv["k"] == "bin" and s.rv["op"] == "Eq":
                b = Operand(s.rv["b"])
                if b.is_const and b.int_value() == n:
                    islen = True
                else:
                    # the constant may have been assigned to a temp first
                    if b.place is not None and b.place.is_local:
                        for s0 in blk.stmts:
                            if s0.kind == "assign" and s0.lhs.is_local and s0.lhs.local == b.place.local and s0.rv["k"] == "use":
                                c0 = Operand(s0.rv["a"])
                                if c0.is_const and c0.int_value() == n:
                                    islen = True
        if not islen:
            continue
        # true edge of the len test
        tr = [e for e in cfg.succ.get(blk.idx, []) if e.label != ("sw", 0)]
        if len(tr) != 1:
            continue
        cur = tr[0]
        ok = True
        for i in range(n):
            nb = body.blocks[cur.dst]
            nt = nb.term
            if nt.kind != "switch" or any(st.kind != "assign" or st.rv["k"] != "use" for st in nb.stmts):
                ok = False
                break
            d = Operand(nt.raw["d"])
            if d.place is None or not d.place.proj:
                ok = False
                break
            last = d.place.proj[-1]
            if not (isinstance(last, dict) and last.get("ci") == i):
                ok = False
                break
            want = ord(const_bytes[i])
            m = [e for e in cfg.succ.get(cur.dst, []) if e.label == ("sw", want)]
            if len(m) != 1:
                ok = False
                break
            cur = m[0]
        if ok and n > 0:
            out.append((blk.idx, cur))
        elif ok and n == 0:
            out.append((blk.idx, tr[0]))
    return out


def const_eq_tests(body, tracer, const_bytes):
    """All tests comparing some value with the constant byte string: PartialEq::eq/ne calls with a
    constant operand, and slice patterns. Returns list of dict(bb, true=[Edge], false=[Edge],
    other=<origins of the non-constant operand or None>, kind)."""
    out = []
    cfg = cfg_of(body)
    for t in body.calls("std::cmp::PartialEq::eq", "std::cmp::PartialEq::ne"):
        args = t.args
        if len(args) != 2:
            continue
        which = None
        for i in (0, 1):
            for o in tracer.origins_of_arg(t, i):
                if o.kind == "const" and o.const_bytes() == const_bytes:
                    which = i
        if which is None:
            continue
        be = bool_edges(body, t)
        if be is None:
            continue
        tr, fa = be["true"], be["false"]
        if t.callee.endswith("::ne"):
            tr, fa = fa, tr
        out.append({"bb": be["bb"], "call_bb": t.bb, "true": tr, "false": fa, "kind": "eq-call",
                    "other": tracer.origins_of_arg(t, 1 - which), "term": t})
    for (entry, edge) in slice_pattern_tests(body, const_bytes):
        # false edges: every edge leaving the pattern blocks other than the matching chain
        chain = [entry]
        cur = [e for e in cfg.succ.get(entry, []) if e.label != ("sw", 0)]
        fa = [e for e in cfg.succ.get(entry, []) if e.label == ("sw", 0)]
        b = cur[0].dst if cur else None
        for i in range(len(const_bytes)):
            chain.append(b)
            for e in cfg.succ.get(b, []):
                if e.label != ("sw", ord(const_bytes[i])):
                    fa.append(e)
                else:
                    nb = e.dst
            b = nb
        # operand: the scrutinee place of the len test
        other = None
        for s in body.blocks[entry].stmts:
            if s.kind == "assign" and s.rv["k"] == "un" and s.rv["op"] == "PtrMetadata":
                op = Operand(s.rv["a"])
                if op.place is not None:
                    other = tracer.origins(body, entry, 0, Place({"l": op.place.local, "p": []}))
        out.append({"bb": entry, "call_bb": entry, "true": [edge], "false": fa, "kind": "slice-pattern", "other": other, "term": None})
    return out


def origin_keys(origins):
    return {o.key() for o in origins if o.kind != "mutated"}


def errno_branches(body, tracer):
    """Every branch that distinguishes a particular errno value: i32 switch arms and equality tests against
    errno constants (libc ints, rustix Errno, Option<i32>, ErrorKind::OsError(Some(n))).
    -> list of dict(errno, eq=[Edge], ne=[Edge], bb)"""
    from .common import decode_bytes, errno_of_origin
    cfg = cfg_of(body)
    out = []
    for blk in body.blocks:
        if blk.cleanup or blk.idx in cfg.dead:
            continue
        t = blk.term
        if t.kind == "switch" and t.raw["dty"] == "i32":
            es = cfg.succ.get(blk.idx, [])
            for e in es:
                if e.label[1] == "otherwise":
                    continue
                out.append({"errno": e.label[1], "eq": [e], "ne": [x for x in es if x is not e], "bb": blk.idx})
        for i, s in enumerate(blk.stmts):
            if s.kind == "assign" and s.rv["k"] == "bin" and s.rv["op"] in ("Eq", "Ne"):
                for o in s.rv_operands():
                    if o.is_const and (o.const.get("item") or "").startswith("libc::E"):
                        be = stmt_bool_edges(body, blk.idx, i)
                        if be:
                            eq, ne = (be["true"], be["false"]) if s.rv["op"] == "Eq" else (be["false"], be["true"])
                            out.append({"errno": o.int_value(True), "eq": eq, "ne": ne, "bb": be["bb"]})
    for t in body.calls("std::cmp::PartialEq::eq", "std::cmp::PartialEq::ne"):
        en = None
        for i in (0, 1):
            for o in tracer.origins_of_arg(t, i):
                if o.kind != "const":
                    continue
                ty = o.op.const.get("ty", "")
                if "Errno" in ty:
                    en = errno_of_origin(o)
                elif "ErrorKind" in ty or "Option<i32>" in ty:
                    raw = decode_bytes(o.const_bytes() or "")
                    if len(raw) >= 8 and int.from_bytes(raw[:4], "little") == 1:
                        en = int.from_bytes(raw[-4:], "little")
        if en is None:
            continue
        be = bool_edges(body, t)
        if be:
            eq, ne = (be["true"], be["false"]) if t.callee.endswith("::eq") else (be["false"], be["true"])
            out.append({"errno": en, "eq": eq, "ne": ne, "bb": be["bb"]})
    return out


def failure_edges(body, tracer, call):
    """(edges taken when `call` returned Err, edges taken when it returned Ok) -- through a match/`?` on the
    result or through an is_err()/is_ok() probe of it.  None if the result is consumed in another way."""
    r = result_edges(body, call)
    if r and r.get("err"):
        return r["err"], (r.get("all_ok") or r.get("ok") or [])
    for t in body.calls("std::result::Result::<T, E>::is_err", "std::result::Result::<T, E>::is_ok"):
        o = tracer.origins_of_arg(t, 0)
        if o and all(x.kind == "call" and x.term is call for x in o):
            be = bool_edges(body, t)
            if be:
                return (be["true"], be["false"]) if t.callee.endswith("is_err") else (be["false"], be["true"])
    return None


def counter_loop_bound(body, tracer, header, blks):
    """Termination witness for `let mut n = K; while n > 0 { n -= c; .. }` (and the ascending form): the loop is left
    on a comparison of a local with a constant, every assignment to that local inside the loop moves it towards the
    exit by a positive constant, and every cycle through the header passes such an assignment.
    -> (bound on the number of iterations or None if the start value is not a constant, description) or None."""
    cfg = cfg_of(body)
    for bb in sorted(blks):
        blk = body.blocks[bb]
        t = blk.term
        if blk.cleanup or t.kind != "switch" or t.raw.get("dty") != "bool":
            continue
        d = Operand(t.raw["d"])
        if d.place is None or not d.place.is_local:
            continue
        cmp_ = None
        for i, s_ in enumerate(blk.stmts):
            if s_.kind == "assign" and s_.lhs.is_local and s_.lhs.local == d.place.local and s_.rv["k"] == "bin" and s_.rv["op"] in ("Gt", "Ge", "Lt", "Le", "Ne"):
                cmp_ = (i, s_)
        if cmp_ is None:
            continue
        i, s_ = cmp_
        a, c = Operand(s_.rv["a"]), Operand(s_.rv["b"])
        if c.is_const and a.place is not None:
            var, k, flipped = a, c.int_value(True), False
        elif a.is_const and c.place is not None:
            var, k, flipped = c, a.int_value(True), True
        else:
            continue
        # the counter local (through the copy made for the comparison)
        L = var.place.local
        for s2 in blk.stmts[:i]:
            if s2.kind == "assign" and s2.lhs.is_local and s2.lhs.local == L and s2.rv["k"] == "use":
                o2 = Operand(s2.rv["a"])
                if o2.place is not None and o2.place.is_local:
                    L = o2.place.local
        op = s_.rv["op"]
        if flipped:
            op = {"Gt": "Lt", "Ge": "Le", "Lt": "Gt", "Le": "Ge", "Ne": "Ne"}[op]
        descending = op in ("Gt", "Ge", "Ne")      # continue while n > k / n >= k / n != k
        # which edge leaves the loop?
        exits = [e for e in cfg.succ.get(bb, []) if e.dst not in blks]
        if not exits:
            continue
        # assignments to L inside the loop
        steps = []
        ok = True
        for x in blks:
            xb = body.blocks[x]
            for j, s3 in enumerate(xb.stmts):
                if s3.kind != "assign" or s3.lhs.local != L:
                    continue
                if not s3.lhs.is_local:
                    ok = False
                    continue
                rv = s3.rv
                step = None
                if rv["k"] == "bin" and rv["op"] in ("Sub", "Add", "SubUnchecked", "AddUnchecked"):
                    step = _const_step(body, Operand(rv["a"]), Operand(rv["b"]), L, rv["op"])
                elif rv["k"] == "use":
                    o3 = Operand(rv["a"])
                    # L = move (_t.0) where _t = SubWithOverflow(copy L, const)
                    if o3.place is not None and o3.place.proj and o3.place.fields()[:1] == ["0"]:
                        for y in blks:
                            for s4 in body.blocks[y].stmts:
                                if s4.kind == "assign" and s4.lhs.is_local and s4.lhs.local == o3.place.local and s4.rv["k"] == "bin" and \
                                        s4.rv["op"] in ("SubWithOverflow", "AddWithOverflow"):
                                    step = _const_step(body, Operand(s4.rv["a"]), Operand(s4.rv["b"]), L, s4.rv["op"])
                if step is None or step == 0 or (step < 0) != descending:
                    ok = False
                else:
                    steps.append((x, abs(step)))
            tt = xb.term
            if tt.kind == "call" and tt.dest is not None and tt.dest.local == L:
                ok = False
        if not ok or not steps:
            continue
        # every cycle passes a step
        if header in cfg.reachable([e.dst for e in cfg.succ.get(header, []) if e.dst in blks], cut_nodes=[x for x, _ in steps]) and \
                any(header in cfg.reachable(e.dst, cut_nodes=[x for x, _ in steps]) for e in cfg.succ.get(header, []) if e.dst in blks):
            continue
        # start value
        init = None
        du_origins = tracer.origins(body, header, 0, Place({"l": L, "p": []}))
        consts = [o.const_int(True) for o in du_origins if o.kind == "const"]
        others = [o for o in du_origins if o.kind not in ("const", "expr")]
        if consts and not others and k is not None:
            init = max(consts) if descending else min(consts)
            bound = (abs(init - k) // min(st for _x, st in steps)) + 1
            return bound, "counter _%d from %d towards %d in steps of %d" % (L, init, k, min(st for _x, st in steps))
        return None, "counter _%d moves towards %s by a positive constant on every iteration" % (L, k)
    return None


def _const_step(body, a, b, L, op):
    """Signed step of `L op const`; None if the statement is not of that shape."""
    sign = -1 if op.startswith("Sub") else 1
    if a.place is not None and a.place.is_local and a.place.local == L and b.is_const:
        v = b.int_value(True)
        return sign * v if v is not None else None
    if op.startswith("Add") and b.place is not None and b.place.is_local and b.place.local == L and a.is_const:
        v = a.int_value(True)
        return v
    return None
