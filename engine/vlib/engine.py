"""Check driver: extraction, rule evaluation, known findings, evidence."""
import fcntl
import json
import os
import subprocess
import sys
import time
import traceback

from .facts import AnchorMissing, Facts
from .dataflow import Tracer

VERIF = "/verif"
WORK = os.path.join(VERIF, ".work")
BODY_FLOOR = 700


class Inst:
    """One rule instance (obligation)."""

    def __init__(self, rule, key, verdict, where="", msg="", detail=None):
        assert verdict in ("holds", "violated", "unproven")
        self.rule = rule
        self.key = key          # construct key without line numbers
        self.verdict = verdict
        self.where = where      # file:line (diagnostic only)
        self.msg = msg
        self.detail = detail

    @property
    def full_key(self):
        return "%s:%s" % (self.rule, self.key)

    def to_json(self):
        d = {"rule": self.rule, "key": self.key, "verdict": self.verdict, "where": self.where, "msg": self.msg}
        if self.detail is not None:
            d["detail"] = self.detail
        return d


def holds(rule, key, where="", msg="", detail=None):
    return Inst(rule, key, "holds", where, msg, detail)


def violated(rule, key, where="", msg="", detail=None):
    return Inst(rule, key, "violated", where, msg, detail)


def unproven(rule, key, where="", msg="", detail=None):
    return Inst(rule, key, "unproven", where, msg, detail)


EVID = [os.path.join(VERIF, "evidence")]


def evidence_dir(repo, facts_override=None):
    """Evidence of /repo itself goes to /verif/evidence; analyses of scratch trees (seeded changes, mutants, refactorings
    evaluated with --repo/--facts) must not overwrite it."""
    if os.path.realpath(repo) == "/repo" and not facts_override:
        EVID[0] = os.path.join(VERIF, "evidence")
    else:
        EVID[0] = os.path.join(repo, ".verif-evidence")
    return EVID[0]


def extract(config, repo="/repo"):
    os.makedirs(WORK, exist_ok=True)
    out = os.path.join(WORK, "facts-%s-%d.json" % (config, os.getpid()))
    nonce = "%d-%d" % (time.time_ns(), os.getpid())
    env = dict(os.environ)
    env["VDRV_NONCE"] = nonce
    # extract.sh serialises extractions per target directory with flock(1)
    p = subprocess.run([os.path.join(VERIF, "engine/extract.sh"), config, out, repo],
                       env=env, capture_output=True, text=True)
    if p.returncode != 0:
        raise RuntimeError("extraction failed (config %s):\n%s\n%s" % (config, p.stdout, p.stderr))
    f = Facts(out)
    try:
        os.unlink(out)
        os.unlink(out + ".log")
    except OSError:
        pass
    if f.nonce != nonce:
        raise RuntimeError("extractor nonce mismatch: driver did not re-run")
    if len(f.bodies) < BODY_FLOOR:
        raise RuntimeError("only %d MIR bodies extracted (< floor %d)" % (len(f.bodies), BODY_FLOOR))
    return f


class Ctx:
    def __init__(self, facts, config="capi", tier="quick", repo="/repo"):
        self.facts = facts
        self.config = config
        self.tier = tier
        self.repo = repo
        self.tracer = Tracer(facts)
        self.cache = {}
        from . import bits as _bits
        _bits.set_facts(facts)


def load_known():
    p = os.path.join(VERIF, "known_findings.json")
    if not os.path.exists(p):
        return []
    with open(p) as fh:
        return json.load(fh)["findings"]


def run_property(pid, module, tier="quick", replay=None, repo="/repo", facts_override=None):
    """Evaluate all rules of a property. Returns exit code."""
    t0 = time.time()
    seed = int(os.environ.get("VERIF_SEED", "0") or 0)
    configs = ["capi"] if tier == "quick" else ["capi", "default"]
    all_insts = []
    errors = []
    stats = {}
    per_rule = {}
    for cfg in configs:
        try:
            facts = facts_override.get(cfg) if facts_override else None
            if facts is None:
                facts = extract(cfg, repo)
        except Exception as e:  # extraction failure = broken tree, fail closed
            errors.append("extract[%s]: %s" % (cfg, e))
            continue
        stats[cfg] = {"bodies": len(facts.bodies),
                      "call_sites": sum(1 for b in facts.bodies for _ in b.calls(cleanup=True)),
                      "renamed_functions_resolved_by_fingerprint": dict(getattr(facts, "renames", {}) or {}),
                      "new_helper_functions_inlined_into_callers": dict(getattr(facts, "inlined", {}) or {})}
        for h_, cs_ in sorted((getattr(facts, "inlined", {}) or {}).items()):
            print("note[%s]: new helper function %s analysed inlined into %s" % (cfg, h_, ", ".join(cs_)))
        for new_, old_ in sorted((getattr(facts, "renames", {}) or {}).items()):
            print("note[%s]: function %s recognised as the renamed/moved %s (fingerprint match); rules anchored on the old path apply to it" % (cfg, new_, old_))
        ctx = Ctx(facts, cfg, tier, repo)
        for (rid, fn, floor, capi_only) in module.RULES:
            if cfg == "default" and capi_only:
                continue
            try:
                insts = fn(ctx)
            except AnchorMissing as e:
                insts = [violated(rid, "anchor", "", "anchor missing: %s" % e)]
            except Exception as e:
                tb = traceback.format_exc()
                insts = [unproven(rid, "internal", "", "checker error: %s" % e, tb[-1500:])]
            n = len(insts)
            if n < floor:
                insts.append(violated(rid, "floor", "", "rule matched %d instances, fewer than the %d confirmed by hand" % (n, floor)))
            for i in insts:
                i.config = cfg
            per_rule.setdefault(rid, {})[cfg] = n
            all_insts.extend(insts)
    # de-duplicate instances that are identical across configs
    seen = {}
    for i in all_insts:
        k = (i.full_key, i.verdict)
        if k not in seen:
            seen[k] = i
    insts = list(seen.values())
    if replay:
        try:
            with open(replay) as fh:
                want = json.load(fh)
            wk = want.get("key")
            insts = [i for i in insts if i.full_key == wk]
            print("replay of %s: %d matching instance(s) on the current tree" % (wk, len(insts)))
            for i in insts:
                print("  %s %s %s -- %s" % (i.verdict.upper(), i.full_key, i.where, i.msg))
                if i.detail:
                    print("    detail: %s" % (json.dumps(i.detail)[:2000],))
        except Exception as e:
            print("replay: cannot read %s: %s" % (replay, e))
            return 2
    known = [k for k in load_known() if k.get("property") == pid]
    known_keys = {k["key"]: k for k in known if k.get("status") == "known"}
    bad = [i for i in insts if i.verdict != "holds"]
    new_viol = []
    known_hit = []
    for i in bad:
        if i.full_key in known_keys:
            known_hit.append(i)
        else:
            new_viol.append(i)
    vdir = os.path.join(evidence_dir(repo, facts_override), "violations")
    rc = 0
    for i in known_hit:
        print("KNOWN-FINDING: property=%s %s %s (%s)" % (pid, i.full_key, known_keys[i.full_key].get("what", i.msg), i.where))
    if errors:
        os.makedirs(vdir, exist_ok=True)
        p = os.path.join(vdir, "%s-error.json" % pid)
        with open(p, "w") as fh:
            json.dump({"property": pid, "key": "extract", "errors": errors}, fh, indent=1)
        for e in errors:
            print("ERROR: %s" % e)
        print("VIOLATION property=%s replay=%s" % (pid, p))
        rc = 1
    if new_viol:
        os.makedirs(vdir, exist_ok=True)
        for n, i in enumerate(new_viol):
            p = os.path.join(vdir, "%s-%d.json" % (pid, n))
            with open(p, "w") as fh:
                json.dump({"property": pid, "key": i.full_key, "instance": i.to_json()}, fh, indent=1)
            print("%s: %s [%s] %s -- %s" % (i.verdict.upper(), i.full_key, getattr(i, "config", "?"), i.where, i.msg))
            print("VIOLATION property=%s replay=%s" % (pid, p))
        rc = 1
    wall = time.time() - t0
    write_evidence(pid, module, tier, seed, insts, per_rule, stats, wall, len(new_viol) + (1 if errors else 0), known_hit)
    nh = sum(1 for i in insts if i.verdict == "holds")
    print("%s [%s]: %d obligations, %d hold, %d known findings, %d new violations, %.1fs" % (
        pid, tier, len(insts), nh, len(known_hit), len(new_viol), wall))
    return rc


def write_evidence(pid, module, tier, seed, insts, per_rule, stats, wall, nviol, known_hit):
    os.makedirs(EVID[0], exist_ok=True)
    nh = sum(1 for i in insts if i.verdict == "holds")
    samples = []
    by_rule = {}
    for i in insts:
        by_rule.setdefault(i.rule, []).append(i)
    for r, lst in sorted(by_rule.items()):
        for i in lst[:3]:
            samples.append(i.to_json())
    distinct = len({i.full_key for i in insts})
    ev = {
        "property_id": pid,
        "tier": tier,
        "seed": seed,
        "level": "other",
        "coverage": {
            "explanation": "static analysis of type-checked MIR of /repo's working tree (vdrv extractor + vlib rule engine): "
                           "each obligation is one rule instance (call site / function / table row) decided from the source; "
                           + getattr(module, "EXPLANATION", ""),
            "obligations": len(insts),
            "discharged": nh,
            "evaluations": len(insts),
            "distinct_nontrivial": distinct,
            "rule": "one evaluation per rule instance; distinct = distinct (rule, construct) keys; every instance is non-trivial "
                    "in that it names a concrete construct of the current source",
            "samples": samples[:60],
            "per_rule_instances": per_rule,
            "analysed": stats,
            "known_findings_reported": [i.full_key for i in known_hit],
            "checker_cmd": "./check %s --tier %s" % (pid, tier),
            "trusted_base": [
                "nightly rustc MIR construction and Instance::try_resolve",
                "identity/transparent-callee table in vlib/dataflow.py",
                "external-callee tables (std, rustix, libc behaviour) listed in the rule modules",
            ],
            "exhaustive": True,
        },
        "assumptions": getattr(module, "ASSUMPTIONS", []),
        "wall_s": round(wall, 2),
        "violations": nviol,
    }
    with open(os.path.join(EVID[0], "%s.json" % pid), "w") as fh:
        json.dump(ev, fh, indent=1)


# ---------------------------------------------------------------------------------------------
# sensitivity suite (thorough tier): each patch breaks one rule instance on a scratch copy of the
# current /repo; the rule must report it.
# ---------------------------------------------------------------------------------------------
def _scratch_copy(repo):
    import tempfile
    d = tempfile.mkdtemp(prefix="verif-scratch.", dir="/var/tmp")
    subprocess.run(["rsync", "-a", "--exclude", "target", "--exclude", ".git", repo.rstrip("/") + "/", d + "/"], check=True)
    return d


def evaluate(pid, module, facts, cfg="capi", repo="/repo"):
    ctx = Ctx(facts, cfg, "quick", repo)
    insts = []
    for (rid, fn, floor, capi_only) in module.RULES:
        try:
            r = fn(ctx)
        except AnchorMissing as e:
            r = [violated(rid, "anchor", "", "anchor missing: %s" % e)]
        except Exception as e:
            r = [unproven(rid, "internal", "", "checker error: %s" % e, traceback.format_exc()[-1200:])]
        if len(r) < floor:
            r.append(violated(rid, "floor", "", "rule matched %d instances (< %d)" % (len(r), floor)))
        insts.extend(r)
    return insts


def run_sensitivity(pid, module, repo="/repo", only=None, verbose=True):
    """Returns (ran, detected, skipped, failures)."""
    import glob
    import shutil
    pdir = os.path.join(VERIF, "sensitivity", pid)
    patches = sorted(glob.glob(os.path.join(pdir, "*.diff")))
    if only:
        patches = [p for p in patches if only in os.path.basename(p)]
    ran = det = skip = 0
    failures = []
    results = []
    base_keys = None
    for p in patches:
        expect = []
        with open(p) as fh:
            for line in fh:
                if line.startswith("# expect:"):
                    expect.append(line.split(":", 1)[1].strip())
        d = _scratch_copy(repo)
        try:
            ap = subprocess.run(["patch", "-p1", "-s", "--no-backup-if-mismatch", "-i", p], cwd=d, capture_output=True, text=True)
            if ap.returncode != 0:
                skip += 1
                results.append({"patch": os.path.basename(p), "result": "skipped (does not apply)"})
                if verbose:
                    print("SENSITIVITY %s %s: skipped, patch does not apply" % (pid, os.path.basename(p)))
                continue
            try:
                facts = extract("capi", d)
            except Exception as e:
                skip += 1
                results.append({"patch": os.path.basename(p), "result": "skipped (mutant does not compile)"})
                if verbose:
                    print("SENSITIVITY %s %s: skipped, mutant does not build: %s" % (pid, os.path.basename(p), str(e)[-300:]))
                continue
            insts = evaluate(pid, module, facts, repo=d)
            known = {k["key"] for k in load_known() if k.get("property") == pid and k.get("status") == "known"}
            bad = [i for i in insts if i.verdict != "holds" and i.full_key not in known]
            ran += 1
            if expect == ["none"]:
                # negative control: behaviour-preserving edit, the check must stay silent
                if bad:
                    failures.append(os.path.basename(p))
                    results.append({"patch": os.path.basename(p), "result": "FALSE-ALARM", "by": sorted({i.full_key for i in bad})[:8]})
                    if verbose:
                        print("SELFTEST-FAIL %s %s: false alarm on a behaviour-preserving edit: %s" % (pid, os.path.basename(p), sorted({i.full_key for i in bad})[:6]))
                        for i in bad[:4]:
                            print("    %s %s -- %s" % (i.full_key, i.where, i.msg[:200]))
                else:
                    det += 1
                    results.append({"patch": os.path.basename(p), "result": "silent (negative control)"})
                    if verbose:
                        print("SENSITIVITY %s %s: silent, as expected for a behaviour-preserving edit" % (pid, os.path.basename(p)))
                continue
            hit = [i for i in bad if any(e in i.full_key for e in expect)] if expect else bad
            if hit:
                det += 1
                results.append({"patch": os.path.basename(p), "result": "detected", "by": sorted({i.full_key for i in bad})[:8]})
                if verbose:
                    print("SENSITIVITY %s %s: detected by %s" % (pid, os.path.basename(p), ", ".join(sorted({i.full_key for i in hit})[:4])))
            else:
                failures.append(os.path.basename(p))
                results.append({"patch": os.path.basename(p), "result": "MISSED", "other": sorted({i.full_key for i in bad})[:8]})
                if verbose:
                    print("SELFTEST-FAIL %s %s: mutant not detected (expected %s; reported %s)" % (
                        pid, os.path.basename(p), expect, sorted({i.full_key for i in bad})[:6]))
        finally:
            shutil.rmtree(d, ignore_errors=True)
    return ran, det, skip, failures, results
