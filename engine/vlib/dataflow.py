"""Reaching definitions, value provenance (PROV), container mutations (CONT) and the
flag-bit abstract interpretation (BITS) over vdrv bodies."""
import re

from .cfg import cfg_of, raw_edges
from .facts import FE, Operand, Place, hint_of

# ---------------------------------------------------------------------------------------
# identity table: callees that return (a view of / a wrapper around) one of their arguments
#   value: (argument index, mode) ; mode 'same' keeps the field path, 'wrap' means the
#   result wraps the argument in a one-field variant (Ok/Some), so a leading field "0" of
#   the result maps to the argument itself.
# ---------------------------------------------------------------------------------------
IDENTITY = {
    "rustix::fd::AsFd::as_fd": (0, "same"),
    "std::os::fd::AsFd::as_fd": (0, "same"),
    "std::convert::AsRef::as_ref": (0, "same"),
    "std::convert::AsMut::as_mut": (0, "same"),
    "std::ops::Deref::deref": (0, "same"),
    "std::ops::DerefMut::deref_mut": (0, "same"),
    "std::borrow::Borrow::borrow": (0, "same"),
    "std::borrow::ToOwned::to_owned": (0, "same"),
    "std::convert::Into::into": (0, "same"),
    "std::hint::must_use": (0, "same"),       # what format!() wraps its result in
    "std::convert::identity": (0, "same"),
    "std::convert::From::from": (0, "same"),
    "std::clone::Clone::clone": (0, "same"),
    "std::rc::Rc::<T>::new": (0, "same"),
    "std::boxed::Box::<T>::new": (0, "same"),
    "std::ops::Try::branch": (0, "same"),
    "std::result::Result::<T, E>::map_err": (0, "same"),
    "std::result::Result::<T, E>::as_ref": (0, "same"),
    "std::option::Option::<T>::as_ref": (0, "same"),
    "std::option::Option::<T>::as_mut": (0, "same"),
    "std::option::Option::<T>::ok_or_else": (0, "same"),
    "std::option::Option::<T>::ok_or": (0, "same"),
    "std::option::Option::<T>::take": (0, "same"),
    "error::ErrorExt::wrap": (0, "same"),
    "error::ErrorExt::with_wrap": (0, "same"),
    "syscalls::HotfixRustixFd::hotfix_rustix_fd": (0, "wrap"),
    "handle::Handle::from_fd": (0, "same"),
    "root::Root::from_fd": (0, "same"),
    "handle::HandleRef::<'_>::from_fd": (0, "same"),
    "root::RootRef::<'_>::from_fd": (0, "same"),
    "std::ffi::OsStr::to_os_string": (0, "same"),
    "std::ffi::OsString::as_os_str": (0, "same"),
    "std::ffi::OsStr::new": (0, "same"),
    "std::os::unix::ffi::OsStrExt::from_bytes": (0, "same"),
    "std::os::unix::ffi::OsStrExt::as_bytes": (0, "same"),
    "std::os::unix::ffi::OsStringExt::from_vec": (0, "same"),
    "std::path::Path::new": (0, "same"),
    "std::path::Path::as_os_str": (0, "same"),
    "std::path::Path::to_path_buf": (0, "same"),
    "std::path::PathBuf::as_path": (0, "same"),
    "std::ffi::CStr::to_bytes": (0, "same"),
    "std::os::fd::AsRawFd::as_raw_fd": (0, "same"),
    "rustix::fd::AsRawFd::as_raw_fd": (0, "same"),
    "std::fs::File::from": (0, "same"),
    "std::mem::replace": (0, "same"),
    "std::iter::IntoIterator::into_iter": (0, "same"),
    "std::option::Option::<T>::unwrap_or_default": (0, "same"),
}

# callees applying a closure (argument 1) to the payload of argument 0:  result payload = closure return
MAP_LIKE = {
    "std::option::Option::<T>::map": ("0", "0"),        # (payload field of arg0, payload field of the result)
    "std::result::Result::<T, E>::map": ("0", "0"),
    "std::option::Option::<T>::and_then": ("0", None),  # closure returns the Option itself
    "std::result::Result::<T, E>::and_then": ("0", None),
}

# variant hints across identity callees: (callee, variant of the result) -> variant of the argument
HINT_MAP = {
    ("std::ops::Try::branch", "Continue"): "Ok",
    ("std::option::Option::<T>::ok_or_else", "Ok"): "Some",
    ("std::option::Option::<T>::ok_or", "Ok"): "Some",
}
HINT_KEEP = {"std::result::Result::<T, E>::map_err", "std::result::Result::<T, E>::as_ref", "std::option::Option::<T>::as_ref",
             "std::option::Option::<T>::as_mut", "error::ErrorExt::wrap", "error::ErrorExt::with_wrap", "std::clone::Clone::clone",
             "std::option::Option::<T>::take", "std::mem::replace"}

IDENTITY_RX = [
    (re.compile(r"^<.* as std::convert::From<.*>>::from$"), (0, "same")),
    (re.compile(r"::<impl std::convert::From<.*> for .*>::from$"), (0, "same")),
]


def identity_of(term):
    for n in (term.callee, term.resolved):
        if n in IDENTITY:
            return IDENTITY[n]
    for n in term.names:
        for rx, v in IDENTITY_RX:
            if rx.search(n):
                return v
    return None


class Origin:
    __slots__ = ("kind", "body", "term", "stmt", "fpath", "detail", "op")

    def __init__(self, kind, body, term=None, stmt=None, fpath=(), detail=None, op=None):
        self.kind = kind  # const | param | call | static | agg | expr | upvar | unknown | mutated
        self.body = body
        self.term = term
        self.stmt = stmt
        self.fpath = tuple(fpath)
        self.detail = detail
        self.op = op

    def key(self):
        t = None
        if self.term is not None:
            t = (self.term.body.path, self.term.bb)
        st = None
        if self.stmt is not None:
            st = id(self.stmt)
        d = self.detail
        if self.kind == "const" and self.op is not None:
            d = repr(self.op)
        return (self.kind, self.body.path if self.body else None, t, st, self.fpath, repr(d))

    @property
    def callee(self):
        return self.term.callee if self.term is not None else None

    def is_call(self, *pats):
        return self.kind == "call" and self.term.is_call(*pats)

    def const_int(self, signed=False):
        if self.kind == "const":
            return self.op.int_value(signed)
        return None

    def const_bytes(self):
        if self.kind == "const":
            return self.op.bytes_value()
        return None

    def __repr__(self):
        fp = ("." + ".".join(self.fpath)) if self.fpath else ""
        if self.kind == "call":
            return "call(%s@%s)%s" % (self.term.callee, self.term.where(), fp)
        if self.kind == "param":
            return "param(%s#%s)%s" % (self.body.path if self.body else "?", self.detail, fp)
        if self.kind == "const":
            return "%r" % (self.op,)
        if self.kind == "static":
            return "static(%s)" % self.detail
        return "%s(%s)%s" % (self.kind, self.detail, fp)


class DefUse:
    """Reaching definitions for one body (pruned CFG, cleanup excluded)."""

    def __init__(self, body):
        self.body = body
        self.cfg = cfg_of(body)
        self._mutref_temps()
        self._reaching()

    def _mutref_temps(self):
        """temp local -> Place it mutably borrows (single-assignment temporaries only)."""
        body = self.body
        ndefs = {}
        refs = {}
        for blk in body.blocks:
            for s in blk.stmts:
                if s.kind == "assign" and s.lhs.is_local:
                    ndefs[s.lhs.local] = ndefs.get(s.lhs.local, 0) + 1
                    if s.rv["k"] in ("ref", "rawptr") and s.rv.get("mut"):
                        refs[s.lhs.local] = Place(s.rv["p"])
            t = blk.term
            if t.kind == "call" and t.dest is not None and t.dest.is_local:
                ndefs[t.dest.local] = ndefs.get(t.dest.local, 0) + 1
        self.mutref = {}
        for l, p in refs.items():
            if ndefs.get(l, 0) == 1:
                # resolve reborrows &mut (*tmp) where tmp is itself a mutref temp
                self.mutref[l] = p
        changed = True
        while changed:
            changed = False
            for l, p in list(self.mutref.items()):
                if p.proj and p.proj[0] == "*" and p.local in self.mutref and p.local != l:
                    base = self.mutref[p.local]
                    newp = Place({"l": base.local, "p": base.proj + p.proj[1:]})
                    if newp.key() != p.key():
                        self.mutref[l] = newp
                        changed = True

    def call_mut_targets(self, term):
        """[(arg index, target Place)] for arguments that are &mut borrows of local places."""
        out = []
        for i, a in enumerate(term.args):
            if a.place is not None and a.place.is_local and a.place.local in self.mutref:
                tp = self.mutref[a.place.local]
                if not (tp.proj and tp.proj[0] == "*"):
                    out.append((i, tp))
        return out

    def _block_defs(self, bb):
        """Ordered def events in a block: (idx, local, strong, site). idx = stmt index or
        len(stmts) for the terminator."""
        blk = self.body.blocks[bb]
        ev = []
        for i, s in enumerate(blk.stmts):
            if s.kind in ("assign", "setdiscr") and s.lhs is not None:
                ev.append((i, s.lhs.local, s.lhs.is_local and s.kind == "assign", ("a", bb, i)))
        t = blk.term
        n = len(blk.stmts)
        if t.kind == "call":
            for ai, tp in self.call_mut_targets(t):
                ev.append((n, tp.local, False, ("m", bb, ai)))
            if t.dest is not None:
                ev.append((n, t.dest.local, t.dest.is_local, ("c", bb)))
        return ev

    def _reaching(self):
        body = self.body
        cfg = self.cfg
        n = len(body.blocks)
        self.IN = [None] * n
        entry = {}
        for l in range(len(body.local_tys)):
            entry[l] = frozenset([("e",)])
        self.IN[0] = entry
        work = [0]
        self.block_events = [self._block_defs(b) for b in range(n)]
        while work:
            bb = work.pop()
            st = dict(self.IN[bb])
            for (_i, l, strong, site) in self.block_events[bb]:
                if strong:
                    st[l] = frozenset([site])
                else:
                    st[l] = st.get(l, frozenset()) | {site}
            for e in cfg.succ.get(bb, []):
                d = e.dst
                if self.IN[d] is None:
                    self.IN[d] = dict(st)
                    work.append(d)
                else:
                    cur = self.IN[d]
                    changed = False
                    for l, v in st.items():
                        cv = cur.get(l)
                        if cv is None:
                            cur[l] = v
                            changed = True
                        elif not v <= cv:
                            cur[l] = cv | v
                            changed = True
                    if changed:
                        work.append(d)

    def defs_at(self, local, bb, idx):
        """Def sites of `local` reaching the point just before statement idx of block bb
        (idx == len(stmts) means: before the terminator; idx == len+1: after the terminator)."""
        if self.IN[bb] is None:
            return frozenset()
        cur = self.IN[bb].get(local, frozenset())
        for (i, l, strong, site) in self.block_events[bb]:
            if i >= idx:
                break
            if l == local:
                cur = frozenset([site]) if strong else cur | {site}
        return cur

    def all_defs(self, local):
        out = []
        for bb in range(len(self.body.blocks)):
            if self.IN[bb] is None:
                continue
            for (i, l, strong, site) in self.block_events[bb]:
                if l == local:
                    out.append(site)
        return out


_du_cache = {}


def defuse(body):
    d = _du_cache.get(id(body))
    if d is None:
        d = DefUse(body)
        _du_cache[id(body)] = d
    return d


class Tracer:
    """Backward value-origin slicing (PROV)."""

    def __init__(self, facts, through_closures=True, extra_identity=None, max_nodes=20000, drop_identity=()):
        self.facts = facts
        self.through_closures = through_closures
        self.extra_identity = extra_identity or {}
        self.max_nodes = max_nodes
        self.drop_identity = set(drop_identity)

    def _identity(self, term):
        if term.callee in self.drop_identity:
            return None
        for n in (term.callee, term.resolved):
            if n in self.extra_identity:
                return self.extra_identity[n]
        return identity_of(term)

    def origins_of_operand(self, body, bb, idx, op, fpath=()):
        if op.kind == "const":
            c = op.const
            if c.get("static"):
                return [Origin("static", body, detail=c["static"], fpath=fpath, op=op)]
            return [Origin("const", body, op=op, fpath=fpath)]
        if op.place is None:
            return [Origin("unknown", body, detail="operand")]
        return self.origins(body, bb, idx, op.place, fpath)

    def origins_of_arg(self, term, i, fpath=()):
        body = term.body
        n = len(body.blocks[term.bb].stmts)
        return self.origins_of_operand(body, term.bb, n, term.args[i], fpath)

    def origins(self, body, bb, idx, place, fpath=()):
        out = {}
        seen = set()
        work = [(body, bb, idx, place.local, tuple(place.fields()) + tuple(fpath))]
        count = 0
        while work:
            count += 1
            if count > self.max_nodes:
                o = Origin("unknown", body, detail="budget")
                out[o.key()] = o
                break
            (bd, b, i, local, fp) = work.pop()
            du = defuse(bd)
            for site in du.defs_at(local, b, i):
                k = (bd.path, site, local, fp, tuple(hint_of(e) for e in fp))
                if k in seen:
                    continue
                seen.add(k)
                for res in self._step(bd, local, fp, site):
                    if isinstance(res, Origin):
                        out[res.key()] = res
                    else:
                        work.append(res)
        return list(out.values())

    def _op_next(self, bd, bb, idx, op, fp):
        if op.kind == "const":
            c = op.const
            if c.get("static"):
                return [Origin("static", bd, detail=c["static"], fpath=fp, op=op)]
            return [Origin("const", bd, op=op, fpath=fp)]
        if op.place is None:
            return [Origin("unknown", bd, detail="operand")]
        return [(bd, bb, idx, op.place.local, tuple(op.place.fields()) + tuple(fp))]

    def _step(self, bd, local, fp, site):
        if site[0] == "e":
            if 1 <= local <= bd.argc:
                if bd.kind == "closure" and local == 1 and self.through_closures:
                    return self._upvar(bd, fp)
                return [Origin("param", bd, detail=local, fpath=fp)]
            return [Origin("unknown", bd, detail="uninit _%d" % local, fpath=fp)]
        if site[0] == "a":
            _, bb, i = site
            s = bd.blocks[bb].stmts[i]
            if s.kind == "setdiscr":
                return []
            lf = tuple(s.lhs.fields())
            if lf:
                # partial definition  L.f.. = rv
                if fp[: len(lf)] == lf:
                    fp2 = fp[len(lf):]
                elif len(fp) < len(lf) and lf[: len(fp)] == fp:
                    fp2 = ()
                else:
                    return []
            else:
                fp2 = fp
            rv = s.rv
            k = rv["k"]
            if k in ("use", "repeat"):
                return self._op_next(bd, bb, i, Operand(rv["a"]), fp2)
            if k == "cast":
                return self._op_next(bd, bb, i, Operand(rv["a"]), fp2)
            if k in ("ref", "rawptr"):
                p = Place(rv["p"])
                return [(bd, bb, i, p.local, tuple(p.fields()) + tuple(fp2))]
            if k == "agg":
                ops = [Operand(o) for o in rv["ops"]]
                ak = rv.get("ak")
                if fp2:
                    f0 = fp2[0]
                    idx = None
                    if ak == "adt" and hint_of(f0) is not None and rv.get("variant") is not None and rv["variant"] != hint_of(f0):
                        return []    # a value of another variant cannot be what `(x as Variant).field` reads
                    if ak == "adt":
                        names = rv.get("fields", [])
                        if f0 in names:
                            idx = names.index(f0)
                    if idx is None and f0.isdigit():
                        idx = int(f0)
                    if idx is not None and idx < len(ops):
                        return self._op_next(bd, bb, i, ops[idx], fp2[1:])
                    return [Origin("unknown", bd, stmt=s, detail="agg field %s" % f0)]
                det = ak
                if ak == "adt":
                    det = "%s::%s" % (rv["adt"], rv["variant"])
                elif ak == "closure":
                    det = "closure %s" % rv["closure"]
                return [Origin("agg", bd, stmt=s, detail=det, fpath=fp2)]
            if k in ("bin", "un", "discr"):
                return [Origin("expr", bd, stmt=s, detail=k + ":" + str(rv.get("op", "")), fpath=fp2)]
            if k == "tls":
                return [Origin("static", bd, detail=rv["static"], fpath=fp2)]
            return [Origin("unknown", bd, stmt=s, detail=k)]
        if site[0] == "c":
            _, bb = site
            t = bd.blocks[bb].term
            n = len(bd.blocks[bb].stmts)
            df = tuple(t.dest.fields())
            if df:
                if fp[: len(df)] == df:
                    fp = fp[len(df):]
                else:
                    return []
            if t.kind == "call" and t.callee == "std::ops::FromResidual::from_residual" and fp:
                return []   # an error return carries no success payload
            ml = MAP_LIKE.get(t.callee) if t.kind == "call" else None
            if ml is not None and len(t.args) == 2:
                res = self._map_like(bd, bb, n, t, ml, fp)
                if res is not None:
                    return res
            if t.kind == "call" and t.callee in ("std::result::Result::<T, E>::or_else", "std::option::Option::<T>::or_else") and len(t.args) == 2:
                res = list(self._op_next(bd, bb, n, t.args[0], fp))
                cl = None
                for o in self.origins_of_operand(bd, bb, n, t.args[1]):
                    if o.kind == "agg" and o.detail and o.detail.startswith("closure "):
                        cl = o.detail[len("closure "):]
                if cl is not None and self.facts.has(cl):
                    res.extend(self.return_origins(self.facts.body(cl), fp))
                else:
                    res.append(Origin("call", bd, term=t, fpath=fp))
                return res
            if t.kind == "call" and t.callee in ("std::result::Result::<T, E>::or", "std::option::Option::<T>::or") and len(t.args) == 2:
                return list(self._op_next(bd, bb, n, t.args[0], fp)) + list(self._op_next(bd, bb, n, t.args[1], fp))
            if t.kind == "call" and t.callee in ("std::result::Result::<T, E>::map", "std::option::Option::<T>::map") and len(t.args) == 2:
                fnn = t.args[1].fn() if t.args[1].is_const else None
                if fnn in ("std::convert::From::from", "std::convert::Into::into"):
                    return self._op_next(bd, bb, n, t.args[0], fp)
            ident = self._identity(t) if t.kind == "call" else None
            if ident is not None and len(t.args) > ident[0]:
                ai, mode = ident
                fp2 = fp
                if fp2 and hint_of(fp2[0]) is not None:
                    h = hint_of(fp2[0])
                    nh = HINT_MAP.get((t.callee, h), h if t.callee in HINT_KEEP else None)
                    fp2 = ((FE(str(fp2[0]), nh) if nh else str(fp2[0])),) + tuple(fp2[1:])
                if mode == "wrap" and fp2 and fp2[0] == "0":
                    fp2 = fp2[1:]
                return self._op_next(bd, bb, n, t.args[ai], fp2)
            pt = self._pass_through(bd, bb, n, t, fp) if t.kind == "call" else None
            if pt is not None:
                return pt
            return [Origin("call", bd, term=t, fpath=fp)]
        if site[0] == "m":
            _, bb, ai = site
            t = bd.blocks[bb].term
            return [Origin("mutated", bd, term=t, detail=ai, fpath=fp)]
        return [Origin("unknown", bd, detail=str(site))]

    def _pass_through(self, bd, bb, n, t, fp):
        """A crate function that hands one of its own arguments back (a checking helper: `fn verified(fd) -> Result<Fd>`):
        when *every* origin of the requested part of its return value is one of its parameters, the call is
        transparent and the origin is the corresponding argument."""
        callee = t.resolved if t.resolved and self.facts.has(t.resolved) else (t.callee if t.callee and self.facts.has(t.callee) else None)
        if callee is None or not fp:
            return None
        stack = getattr(self, "_pt_stack", None)
        if stack is None:
            stack = self._pt_stack = []
        if callee in stack or len(stack) > 2:
            return None
        cb = self.facts.body(callee)
        if cb.kind not in ("fn", "assoc_fn") or cb is bd:
            return None
        key = (callee, tuple(fp), tuple(hint_of(e) for e in fp))
        cache = getattr(self, "_pt_cache", None)
        if cache is None:
            cache = self._pt_cache = {}
        if key not in cache:
            stack.append(callee)
            try:
                ro = self.return_origins(cb, fp)
            finally:
                stack.pop()
            ok = bool(ro) and all(o.kind == "param" and o.body is cb and isinstance(o.detail, int) and o.detail <= len(t.args) for o in ro)
            cache[key] = [(o.detail, tuple(o.fpath)) for o in ro] if ok else None
        summ = cache[key]
        if not summ:
            return None
        res = []
        for (pi, pfp) in summ:
            if pi - 1 >= len(t.args):
                return None
            res.extend(self._op_next(bd, bb, n, t.args[pi - 1], pfp))
        return res

    def return_origins(self, body, fp=()):
        cfg = cfg_of(body)
        out = []
        for rb in cfg.return_blocks():
            out.extend(self.origins(body, rb, len(body.blocks[rb].stmts), Place({"l": 0, "p": []}), fp))
        return out

    def _map_like(self, bd, bb, n, t, ml, fp):
        """Result of Option::map(x, closure) etc.: the closure's return value, with the closure's
        parameter mapped back to x's payload."""
        in_field, out_field = ml
        # the closure operand must be a closure aggregate of a local closure body
        cl = None
        for o in self.origins_of_operand(bd, bb, n, t.args[1]):
            if o.kind == "agg" and o.detail and o.detail.startswith("closure "):
                cl = o.detail[len("closure "):]
        if cl is None or not self.facts.has(cl):
            return None
        cb = self.facts.body(cl)
        if out_field is not None:
            if fp and fp[0] == out_field:
                fp2 = fp[1:]
            elif not fp:
                return [Origin("call", bd, term=t, fpath=fp)]
            else:
                return None
        else:
            fp2 = fp
        res = []
        for o in self.return_origins(cb, fp2):
            if o.kind == "param" and o.body is cb and o.detail == 2:
                res.extend(self._op_next(bd, bb, n, t.args[0], (in_field,) + tuple(o.fpath)))
            else:
                res.append(o)
        return res

    def _upvar(self, bd, fp):
        """Map a closure-environment access to the captured operand in the parent body."""
        if not fp or not fp[0].isdigit():
            return [Origin("upvar", bd, detail="env", fpath=fp)]
        k = int(fp[0])
        rest = fp[1:]
        parent = bd.parent
        if parent is None or not self.facts.has(parent):
            return [Origin("upvar", bd, detail=k, fpath=rest)]
        pb = self.facts.body(parent)
        res = []
        for blk in pb.blocks:
            for i, s in enumerate(blk.stmts):
                if s.kind == "assign" and s.rv["k"] == "agg" and s.rv.get("closure") == bd.path:
                    ops = [Operand(o) for o in s.rv["ops"]]
                    if k < len(ops):
                        res.extend(self._op_next(pb, blk.idx, i, ops[k], rest))
        if not res:
            return [Origin("upvar", bd, detail=k, fpath=rest)]
        return res


