"""BITS: flag-bit abstract interpretation.

Abstract value of an integer/bitflags place = bounded disjunction (Val) of BV records:
  s   bits surely set            c   bits surely clear
  nc  masks M with (v & M) != M  ("lacks M", needed for multi-bit masks such as O_TMPFILE)
  keep/src  bits surely equal to the same bit of a symbolic source (an API parameter)
Branches on contains/intersects/`x & C == 0` tests refine the tested place on each edge.
FlagIPA propagates values into callee parameters and closure captures (context-insensitive
join over all call sites; public API parameters are unconstrained)."""
import re

from .cfg import cfg_of
from .dataflow import defuse
from .facts import Operand, Place

M64 = (1 << 64) - 1
MAXALT = 12


def _single_bit(m):
    return m != 0 and (m & (m - 1)) == 0


class BV:
    __slots__ = ("s", "c", "nc", "keep", "src")

    def __init__(self, s=0, c=0, nc=frozenset(), keep=0, src=None):
        self.s, self.c, self.keep, self.src = s & M64, c & M64, keep & M64, src
        self.nc = frozenset(m for m in nc if not (self.c & m))

    def key(self):
        return (self.s, self.c, self.nc, self.keep, self.src)

    def __eq__(self, o):
        return isinstance(o, BV) and self.key() == o.key()

    def __hash__(self):
        return hash(self.key())

    def lacks(self, m):
        """(v & m) != m is certain."""
        if self.c & m:
            return True
        return any((n & ~m) == 0 for n in self.nc)

    def has(self, m):
        return (self.s & m) == m

    def join(self, o):
        keep, src = 0, None
        if self.src is not None and self.src == o.src:
            keep, src = self.keep & o.keep, self.src
        nc = {m for m in self.nc if o.lacks(m)} | {m for m in o.nc if self.lacks(m)}
        return BV(self.s & o.s, self.c & o.c, nc, keep, src)

    def or_(self, o):
        keep, src = 0, None
        if self.src is not None:
            keep, src = self.keep & o.c, self.src
        elif o.src is not None:
            keep, src = o.keep & self.c, o.src
        maybe_o = (~o.c) & M64
        maybe_s = (~self.c) & M64
        nc = {m for m in self.nc if not (m & maybe_o)} | {m for m in o.nc if not (m & maybe_s)}
        return BV(self.s | o.s, self.c & o.c, nc, keep, src)

    def and_(self, o):
        keep, src = 0, None
        if self.src is not None:
            keep, src = self.keep & o.s, self.src
        elif o.src is not None:
            keep, src = o.keep & self.s, o.src
        return BV(self.s & o.s, self.c | o.c, set(self.nc) | set(o.nc), keep, src)

    def not_(self):
        return BV(self.c, self.s)

    def xor_(self, o):
        known = (self.s | self.c) & (o.s | o.c)
        val = (self.s ^ o.s) & known
        clear = known & ~val
        keep, src = 0, None
        if self.src is not None and self.src == o.src:
            # x ^ x = 0 on the bits both operands keep from the same source (mode ^ (mode & MASK))
            same = self.keep & o.keep
            clear |= same
            keep, src = ((self.keep & o.c) | (o.keep & self.c)) & ~same, self.src
        elif self.src is not None:
            keep, src = self.keep & o.c, self.src
        elif o.src is not None:
            keep, src = o.keep & self.c, o.src
        return BV(val, clear, (), keep, src)

    def __repr__(self):
        r = "s=%#x c=%#x" % (self.s, self.c)
        if self.nc:
            r += " nc={%s}" % ",".join("%#x" % m for m in sorted(self.nc))
        if self.src is not None:
            r += " keep=%#x of %s" % (self.keep, self.src)
        return "BV(" + r + ")"


def bv_const(v):
    v &= M64
    return BV(v, (~v) & M64)


def decode_bytes_local(s_):
    out = bytearray()
    i = 0
    while i < len(s_):
        if s_[i] == "\\" and s_[i + 1:i + 2] == "x":
            out.append(int(s_[i + 2:i + 4], 16))
            i += 4
        else:
            out.append(ord(s_[i]))
            i += 1
    return bytes(out)


class Val:
    """Disjunction of BVs."""
    __slots__ = ("alts",)

    def __init__(self, alts):
        seen = []
        for a in alts:
            if a not in seen:
                seen.append(a)
        if len(seen) > MAXALT:
            j = seen[0]
            for a in seen[1:]:
                j = j.join(a)
            seen = [j]
        self.alts = tuple(sorted(seen, key=lambda b: (b.s, b.c, sorted(b.nc), b.keep, str(b.src))))

    @staticmethod
    def const(v):
        return Val([bv_const(v)])

    @staticmethod
    def top():
        return Val([BV()])

    @staticmethod
    def param(src):
        return Val([BV(0, 0, (), M64, src)])

    def __eq__(self, o):
        return isinstance(o, Val) and self.alts == o.alts

    def __hash__(self):
        return hash(self.alts)

    def join(self, o):
        if o is None:
            return self
        return Val(self.alts + o.alts)

    def map(self, f):
        return Val([f(a) for a in self.alts])

    def map2(self, o, f):
        return Val([f(a, b) for a in self.alts for b in o.alts])

    @property
    def must_set(self):
        r = M64
        for a in self.alts:
            r &= a.s
        return r

    @property
    def must_clear(self):
        r = M64
        for a in self.alts:
            r &= a.c
        return r

    def keep_of(self, src=None):
        r = M64
        for a in self.alts:
            if a.src is None or (src is not None and a.src != src):
                return 0
            r &= a.keep
        return r

    def srcs(self):
        return {a.src for a in self.alts}

    def all(self, pred):
        return all(pred(a) for a in self.alts)

    def lacks(self, m):
        return self.all(lambda a: a.lacks(m))

    def has(self, m):
        return self.all(lambda a: a.has(m))

    def is_top(self):
        return self.alts == (BV(),)

    def collapse(self):
        j = self.alts[0]
        for a in self.alts[1:]:
            j = j.join(a)
        return j

    def __repr__(self):
        return "Val[" + " | ".join(repr(a) for a in self.alts) + "]"


TOP = Val.top()
PARTS = 4
FACTS = [None]      # the fact base of the run (set by the engine): lets BITS look into closures and constants


def set_facts(f):
    FACTS[0] = f

BIT_METHODS = {
    "bitor": "or", "union": "or", "bitand": "and", "intersection": "and", "not": "not",
    "complement": "not", "bitxor": "xor", "symmetric_difference": "xor", "difference": "diff", "sub": "diff",
    "bits": "id", "from_bits_retain": "id", "from_bits_truncate": "id", "into": "id", "from": "id", "clone": "id",
    "empty": "zero", "all": "top",
    "insert": "mut_or", "remove": "mut_diff", "toggle": "mut_top", "set": "mut_set",
    "bitor_assign": "mut_or", "bitand_assign": "mut_and", "sub_assign": "mut_diff", "bitxor_assign": "mut_top",
    "as_raw_mode": "id", "from_raw_mode": "id", "from_bits": "top", "bits_mut": "top",
    "contains": "t_contains", "intersects": "t_intersects", "is_empty": "t_empty", "eq": "t_eq", "ne": "t_ne",
    "mode": "id_mode", "from_mode": "id",
}

FLAG_TY_RX = re.compile(r"(Flags|OFlags|AtFlags|rustix::fs::Mode|Permissions|OpenHow)\b|^(i32|u32|u64|i64|u16|usize|isize)$")


def method_name(term):
    n = term.callee or ""
    return n.rsplit("::", 1)[-1]


def is_flag_ty(ty):
    if ty is None:
        return False
    ty = ty.replace("&mut ", "").replace("&", "").replace("*const ", "").replace("*mut ", "")
    return bool(FLAG_TY_RX.search(ty))


def _pk(place):
    return (place.local, tuple(place.fields()))


class Bits:
    """Forward dataflow over flag-typed places of one body. State keys are (local, fieldpath);
    cond facts live under keys ('cond', local) and and-facts under ('and', local)."""

    def __init__(self, body, entry=None, param_src=True, parts=None):
        self.body = body
        self.cfg = cfg_of(body)
        self.du = defuse(body)
        self.entry = entry
        self.param_src = param_src
        self.infeasible_edges = []
        self.parts = parts or PARTS
        self._collect_refs()
        self._run()

    # ------------------------------------------------------------------ helpers
    def _collect_refs(self):
        self.refs = dict(self.du.mutref)
        ndefs = {}
        cand = {}
        for blk in self.body.blocks:
            for s in blk.stmts:
                if s.kind == "assign" and s.lhs.is_local:
                    ndefs[s.lhs.local] = ndefs.get(s.lhs.local, 0) + 1
                    if s.rv["k"] in ("ref", "rawptr"):
                        cand[s.lhs.local] = Place(s.rv["p"])
                    elif s.rv["k"] == "use" and self.body.local_tys[s.lhs.local].startswith(("&", "*const", "*mut")):
                        # a reference passed on by value (argument of an inlined helper) still points to the same place
                        op = Operand(s.rv["a"])
                        if op.place is not None and op.place.is_local:
                            cand.setdefault(("cast", s.lhs.local), op.place.local)
                    elif s.rv["k"] == "cast" and "a" in s.rv:
                        # pointer casts of references keep the target (e.g. &how as *const OpenHow)
                        op = Operand(s.rv["a"])
                        if op.place is not None and op.place.is_local:
                            cand.setdefault(("cast", s.lhs.local), op.place.local)
            t = blk.term
            if t.kind == "call" and t.dest is not None and t.dest.is_local:
                ndefs[t.dest.local] = ndefs.get(t.dest.local, 0) + 1
        for l, p in cand.items():
            if isinstance(l, tuple):
                continue
            if ndefs.get(l) == 1 and l not in self.refs:
                self.refs[l] = p
        # resolve reference-of-deref chains and pointer casts
        for _ in range(4):
            for l, p in list(self.refs.items()):
                if p.proj and p.proj[0] == "*" and p.local in self.refs and p.local != l:
                    base = self.refs[p.local]
                    self.refs[l] = Place({"l": base.local, "p": base.proj + p.proj[1:]})
            for k, src in cand.items():
                if isinstance(k, tuple) and ndefs.get(k[1]) == 1 and src in self.refs and k[1] not in self.refs:
                    self.refs[k[1]] = self.refs[src]

    def target(self, op):
        if op.place is None:
            return None
        if op.place.is_local and op.place.local in self.refs:
            return self.refs[op.place.local]
        return None

    def base_key(self, op):
        """Key of the place an operand denotes, looking through a reference temporary."""
        if op.place is None:
            return None
        t = self.target(op)
        if t is not None:
            return _pk(t)
        return _pk(op.place)

    @staticmethod
    def _resolve_alias(st, key):
        """Tuple of keys denoting the same value: the key itself and what it is a copy/view of."""
        keys = [key]
        if key[1] == () and ("alias", key[0]) in st:
            for k in st[("alias", key[0])][1]:
                if k not in keys:
                    keys.append(k)
        return tuple(keys)

    def val_place(self, st, place):
        k = _pk(place)
        v = self._lookup(st, k)
        if v is not None:
            return v
        if place.proj and place.proj[0] == "*" and place.local in self.refs:
            tp = self.refs[place.local]
            rest = Place({"l": 0, "p": place.proj[1:]}).fields()
            v = self._lookup(st, (tp.local, tuple(tp.fields()) + tuple(rest)))
            if v is not None:
                return v
        return TOP

    @staticmethod
    def _lookup(st, k):
        """Value stored for key k, or a field-derived symbolic source when a prefix of k is
        still the untouched parameter."""
        v = st.get(k)
        if v is not None:
            return v
        for cut in range(len(k[1]) - 1, -1, -1):
            pv = st.get((k[0], k[1][:cut]))
            if pv is None:
                continue
            if len(pv.alts) == 1:
                a = pv.alts[0]
                if a.src is not None and a.keep == M64 and a.s == 0 and a.c == 0 and not a.nc:
                    return Val.param(tuple(a.src) + tuple(k[1][cut:]))
            return None
        return None

    def val_op(self, st, op):
        if op.kind == "const":
            v = op.int_value()
            if v is None and (op.const.get("ty") or "").startswith("&") and is_flag_ty(op.const.get("ty")) and op.const.get("bytes") is not None:
                # reference to a promoted flag constant
                from .common import decode_bytes
                raw = decode_bytes(op.const["bytes"])
                if 0 < len(raw) <= 8:
                    v = int.from_bytes(raw, "little")
            return Val.const(v) if v is not None else TOP
        if op.place is None:
            return TOP
        return self.val_place(st, op.place)

    def val_self(self, st, op):
        """Value of a method receiver passed by value or by reference."""
        if op.kind == "const":
            return self.val_op(st, op)
        t = self.target(op)
        if t is not None and _pk(op.place) not in st:
            return self.val_place(st, t)
        return self.val_op(st, op)

    @staticmethod
    def _kill(st, key, keep_exact=False):
        for kk in [kk for kk in st if isinstance(kk[0], int) and kk[0] == key[0] and kk[1][: len(key[1])] == key[1]]:
            if keep_exact and kk == key:
                continue
            del st[kk]
        # facts that mention this key
        for kk in [kk for kk in st if kk[0] in ("cond", "and", "alias") and any(k1[0] == key[0] for k1 in st[kk][1])]:
            del st[kk]

    # ------------------------------------------------------------------ transfer
    def transfer(self, bb, st, sink=None):
        st = dict(st)
        blk = self.body.blocks[bb]
        for s in blk.stmts:
            if s.kind != "assign":
                continue
            rv = s.rv
            k = rv["k"]
            key = _pk(s.lhs)
            val = None
            fact = None
            if k == "use":
                op = Operand(rv["a"])
                val = self.val_op(st, op)
                if op.place is not None and s.lhs.is_local and op.kind in ("copy", "move"):
                    fact = ("alias", ("alias", self._resolve_alias(st, _pk(op.place))))
                if op.place is not None and op.place.is_local:
                    for tag in ("cond", "and"):
                        f = st.get((tag, op.place.local))
                        if f is not None and s.lhs.is_local:
                            fact = (tag, f)
                    # struct copy: copy sub-entries
                    src = _pk(op.place)
                    subs = [(kk, vv) for kk, vv in st.items() if isinstance(kk[0], int) and kk[0] == src[0] and kk != src and kk[1][: len(src[1])] == src[1]]
                    if subs:
                        self._kill(st, key)
                        for kk, vv in subs:
                            st[(key[0], key[1] + kk[1][len(src[1]):])] = vv
                        st[key] = val
                        continue
            elif k == "cast":
                val = self.val_op(st, Operand(rv["a"]))
                if "Ptr" in rv.get("ck", "") or "Pointer" in rv.get("ck", "") or "Transmute" in rv.get("ck", ""):
                    val = TOP
            elif k == "bin":
                oa, ob = Operand(rv["a"]), Operand(rv["b"])
                a, b = self.val_op(st, oa), self.val_op(st, ob)
                op = rv["op"]
                if op == "BitOr":
                    val = a.map2(b, BV.or_)
                elif op == "BitAnd":
                    val = a.map2(b, BV.and_)
                    # remember  l = x & C
                    cb, ca = ob.int_value() if ob.kind == "const" else None, oa.int_value() if oa.kind == "const" else None
                    if s.lhs.is_local:
                        if cb is not None and oa.place is not None:
                            fact = ("and", ("and", self._resolve_alias(st, _pk(oa.place)), cb & M64))
                        elif ca is not None and ob.place is not None:
                            fact = ("and", ("and", self._resolve_alias(st, _pk(ob.place)), ca & M64))
                        elif oa.place is not None and b.alts and len(b.alts) == 1 and (b.alts[0].s | b.alts[0].c) == M64:
                            fact = ("and", ("and", self._resolve_alias(st, _pk(oa.place)), b.alts[0].s))
                elif op == "BitXor":
                    val = a.map2(b, BV.xor_)
                elif op in ("Eq", "Ne") and s.lhs.is_local:
                    val = TOP
                    # (x & C) ==/!= 0
                    for (o1, o2) in ((oa, ob), (ob, oa)):
                        if o2.kind == "const" and o2.int_value() == 0 and o1.place is not None and o1.place.is_local:
                            f = st.get(("and", o1.place.local))
                            if f is not None:
                                fact = ("cond", ("iszero", f[1], f[2], op == "Eq"))
                else:
                    val = TOP
            elif k == "un":
                oa = Operand(rv["a"])
                a = self.val_op(st, oa)
                if rv["op"] == "Not":
                    val = a.map(BV.not_)
                    if oa.place is not None and oa.place.is_local and s.lhs.is_local:
                        f = st.get(("cond", oa.place.local))
                        if f is not None:
                            fact = ("cond", (f[0], f[1], f[2], not f[3]))
                else:
                    val = TOP
            elif k == "agg":
                ops = [Operand(o) for o in rv["ops"]]
                names = rv.get("fields") or [str(j) for j in range(len(ops))]
                self._kill(st, key)
                for nme, o in zip(names, ops):
                    st[(key[0], key[1] + (nme,))] = self.val_op(st, o)
                    # nested struct copy
                    if o.place is not None:
                        src = _pk(o.place)
                        for kk, vv in list(st.items()):
                            if isinstance(kk[0], int) and kk[0] == src[0] and kk != src and kk[1][: len(src[1])] == src[1]:
                                st[(key[0], key[1] + (nme,) + kk[1][len(src[1]):])] = vv
                continue
            elif k in ("ref", "rawptr"):
                continue
            else:
                val = TOP
            self._kill(st, key, keep_exact=False)
            st[key] = val
            if s.lhs.is_local:
                st.pop(("cond", s.lhs.local), None)
                st.pop(("and", s.lhs.local), None)
                st.pop(("alias", s.lhs.local), None)
                if fact is not None:
                    st[(fact[0], s.lhs.local)] = fact[1]
        t = blk.term
        if t.kind == "call":
            if sink is not None:
                sink(bb, t, st)
            self._call(t, st)
        return st

    def _call(self, t, st):
        m = method_name(t)
        kind = BIT_METHODS.get(m)
        args = t.args
        dest = t.dest
        selfty = (t.argtys[0] if t.argtys else "") or ""
        flaggy = is_flag_ty(selfty) or is_flag_ty(t.rty)
        val = None
        fact = None
        handled_dest = False
        if m == "clone" and flaggy and args and dest is not None and (
                args[0].place is not None) and "Flags" not in (t.rty or ""):
            kind = None
        if kind in ("zero", "top") and flaggy and not args:
            val = Val.const(0) if kind == "zero" else TOP
            kind = None
        if kind and flaggy and args:
            a = self.val_self(st, args[0])
            akey = self.base_key(args[0])
            if akey is not None:
                akey = self._resolve_alias(st, akey)
            b = self.val_self(st, args[1]) if len(args) > 1 else None
            bconst = None
            if b is not None and len(b.alts) == 1 and (b.alts[0].s | b.alts[0].c) == M64:
                bconst = b.alts[0].s
            if kind == "or":
                val = a.map2(b, BV.or_)
            elif kind == "and":
                val = a.map2(b, BV.and_)
                if bconst is not None and akey is not None:
                    fact = ("and", ("and", akey, bconst))
            elif kind == "not":
                val = a.map(BV.not_)
            elif kind == "xor":
                val = a.map2(b, BV.xor_)
            elif kind == "diff":
                val = a.map2(b.map(BV.not_), BV.and_)
            elif kind in ("id", "id_mode"):
                val = a
                if kind == "id_mode" and a.is_top():
                    # perm.mode() of a value BITS does not track (e.g. the payload of an enum): nothing is known about
                    # the bits, but what is done to them afterwards can still be followed (keep mask of a fresh source)
                    val = Val([BV(0, 0, (), M64, ("call", self.body.path, t.bb))])
                if akey is not None:
                    fact = ("alias", ("alias", akey))
                if kind == "id" and args[0].place is not None and args[0].place.is_local:
                    f = st.get(("and", args[0].place.local))
                    if f is not None:
                        fact = ("and", f)
            elif kind == "zero":
                val = Val.const(0)
            elif kind == "top":
                val = TOP
            elif kind == "t_contains":
                val = TOP
                if bconst is not None and akey is not None:
                    fact = ("cond", ("contains", akey, bconst, True))
            elif kind == "t_intersects":
                val = TOP
                if bconst is not None and akey is not None:
                    fact = ("cond", ("iszero", akey, bconst, False))
            elif kind in ("t_eq", "t_ne"):
                val = TOP
                # (x & C) == C   -> contains(C) ;  (x & C) == 0 -> iszero(C)
                for (oa, ob_val) in ((args[0], b), (args[1] if len(args) > 1 else None, a)):
                    if oa is None or ob_val is None or oa.place is None:
                        continue
                    f = None
                    loc = None
                    if oa.place.is_local:
                        loc = oa.place.local
                    tg = self.target(oa)
                    for cand in ([loc] if loc is not None else []) + ([tg.local] if tg is not None and tg.is_local else []):
                        f = f or st.get(("and", cand))
                    if f is None:
                        # x == 0 / x != 0 on the flag value itself: no bit of x is set
                        if len(ob_val.alts) == 1 and (ob_val.alts[0].s | ob_val.alts[0].c) == M64 and ob_val.alts[0].s == 0 and fact is None:
                            k0 = self.base_key(oa)
                            if k0 is not None:
                                fact = ("cond", ("iszero", self._resolve_alias(st, k0), M64, kind == "t_eq"))
                        continue
                    cst = None
                    if len(ob_val.alts) == 1 and (ob_val.alts[0].s | ob_val.alts[0].c) == M64:
                        cst = ob_val.alts[0].s
                    if cst is None:
                        continue
                    if cst == f[2] and cst != 0:
                        fact = ("cond", ("contains", f[1], f[2], kind == "t_eq"))
                    elif cst == 0:
                        fact = ("cond", ("iszero", f[1], f[2], kind == "t_eq"))
                if fact is None and a is not None and b is not None and a.alts and b.alts:
                    # comparison decided by the known bits: some bit is 1 on one side and 0 on the other -> unequal
                    if all((x.s & y.c) or (x.c & y.s) for x in a.alts for y in b.alts):
                        fact = ("cond", ("known", (), 0, kind == "t_ne"))
                    elif all((x.s | x.c) == M64 and (y.s | y.c) == M64 and x.s == y.s for x in a.alts for y in b.alts):
                        fact = ("cond", ("known", (), 0, kind == "t_eq"))
            elif kind == "t_empty":
                val = TOP
                if args[0].place is not None:
                    f = None
                    if args[0].place.is_local:
                        f = st.get(("and", args[0].place.local))
                    if f is None:
                        tg = self.target(args[0])
                        if tg is not None and tg.is_local:
                            f = st.get(("and", tg.local))
                    if f is not None:
                        fact = ("cond", ("iszero", f[1], f[2], True))
                    elif akey is not None:
                        # x.is_empty(): no bit of x is set
                        fact = ("cond", ("iszero", akey, M64, True))
            elif kind.startswith("mut_"):
                tgt = self.target(args[0])
                if tgt is not None:
                    cur = self.val_place(st, tgt)
                    if kind == "mut_or" and b is not None:
                        new = cur.map2(b, BV.or_)
                    elif kind == "mut_and" and b is not None:
                        new = cur.map2(b, BV.and_)
                    elif kind == "mut_diff" and b is not None:
                        new = cur.map2(b.map(BV.not_), BV.and_)
                    elif kind == "mut_set" and b is not None:
                        new = cur.map2(b, BV.or_).join(cur.map2(b.map(BV.not_), BV.and_))
                    else:
                        new = TOP
                    tk = _pk(tgt)
                    self._kill(st, tk)
                    st[tk] = new
                val = TOP
        else:
            # unknown callee: anything mutably borrowed into it becomes unknown
            for (_ai, tp) in self.du.call_mut_targets(t):
                kk = _pk(tp)
                for k2 in [k2 for k2 in st if isinstance(k2[0], int) and k2[0] == kk[0] and k2[1][: len(kk[1])] == kk[1]]:
                    st[k2] = TOP
                for k2 in [k2 for k2 in st if k2[0] in ("cond", "and", "alias") and any(k1[0] == kk[0] for k1 in st[k2][1])]:
                    del st[k2]
            if t.callee == "std::iter::Iterator::any" and len(args) == 2 and FACTS[0] is not None:
                af = self._any_contains(t, st)
                if af is not None:
                    fact = ("cond", af)
            if m == "default" and t.rty and t.rty.endswith("OpenHow") and dest is not None:
                dk = _pk(dest)
                self._kill(st, dk)
                for nme in ("flags", "mode", "resolve"):
                    st[(dk[0], dk[1] + (nme,))] = Val.const(0)
                handled_dest = True
            elif m == "default" and is_flag_ty(t.rty):
                val = Val.const(0)
            elif m == "clone" and args and dest is not None:
                tgt = self.target(args[0])
                srcp = tgt if tgt is not None else (args[0].place if args[0].place is not None else None)
                if srcp is not None:
                    src = _pk(srcp)
                    # clone through a reference parameter: key of the pointee is the parameter itself
                    dk = _pk(dest)
                    copied = [(kk, vv) for kk, vv in st.items() if isinstance(kk[0], int) and kk[0] == src[0] and kk[1][: len(src[1])] == src[1]]
                    self._kill(st, dk)
                    for kk, vv in copied:
                        st[(dk[0], dk[1] + kk[1][len(src[1]):])] = vv
                    handled_dest = True
        if dest is not None and not handled_dest:
            key = _pk(dest)
            self._kill(st, key)
            st[key] = val if val is not None else TOP
            if dest.is_local:
                st.pop(("cond", dest.local), None)
                st.pop(("and", dest.local), None)
                st.pop(("alias", dest.local), None)
                if fact is not None:
                    st[(fact[0], dest.local)] = fact[1]

    def _any_contains(self, t, st):
        """`CONST_FLAGS.iter().any(|&f| x.contains(f))`  ->  ("anycontains", keys of x, (f1, f2, ..), True)."""
        from .dataflow import Tracer
        facts = FACTS[0]
        T = getattr(self, "_tracer", None)
        if T is None:
            T = self._tracer = Tracer(facts)
        body = self.body
        n = len(body.blocks[t.bb].stmts)
        # the closure: one captured flag set, body = contains(captured, argument) returned as is
        cl = None
        cap = None
        for o in T.origins_of_operand(body, t.bb, n, t.args[1]):
            if o.kind == "agg" and o.detail and o.detail.startswith("closure ") and facts.has(o.detail[8:]):
                cl = facts.body(o.detail[8:])
                ops = [Operand(x) for x in o.stmt.rv["ops"]]
                if len(ops) == 1:
                    cap = (o.stmt, ops[0])
        if cl is None or cap is None:
            return None
        calls = [c for c in cl.calls() if method_name(c) in ("contains",)]
        others = [c for c in cl.calls() if c not in calls and not (c.callee or "").startswith(("std::ops::Deref", "std::clone::Clone"))]
        if len(calls) != 1 or others:
            return None
        ro = T.return_origins(cl)
        if not (ro and all(o.kind == "call" and o.term is calls[0] for o in ro)):
            return None
        recv = T.origins_of_arg(calls[0], 0)
        argo = T.origins_of_arg(calls[0], 1)
        if not (argo and all(o.kind == "param" and o.body is cl and o.detail == 2 for o in argo)):
            return None
        # the receiver must be the captured variable
        if not recv or any(o.kind == "param" and o.body is cl for o in recv):
            return None
        # the captured operand in this body -> key
        blk_idx = None
        for blk in body.blocks:
            if cap[0] in blk.stmts:
                blk_idx = blk.idx
        if blk_idx is None:
            return None
        akey = self.base_key(cap[1])
        if akey is None:
            return None
        akey = self._resolve_alias(st, akey)
        # the elements: a constant array reached through slice::iter
        masks = None
        for o in T.origins_of_operand(body, t.bb, n, t.args[0]):
            if o.kind == "call" and (o.term.callee or "").endswith("::iter"):
                for o2 in T.origins_of_arg(o.term, 0):
                    if o2.kind == "const":
                        raw = decode_bytes_local(o2.const_bytes() or "")
                        ty = (o2.op.const.get("ty") or "")
                        mm = re.search(r"; (\d+)\]", ty)
                        if raw and mm and len(raw) % int(mm.group(1)) == 0:
                            k = int(mm.group(1))
                            sz = len(raw) // k
                            masks = tuple(int.from_bytes(raw[i * sz:(i + 1) * sz], "little") for i in range(k))
        if not masks:
            return None
        return ("anycontains", akey, masks, True)

    # ------------------------------------------------------------------ refinement
    def refine(self, bb, edge, st):
        """State along an outgoing edge of a switch; None if the edge is infeasible."""
        t = self.body.blocks[bb].term
        if t.kind != "switch":
            return st
        d = Operand(t.raw["d"])
        if d.place is None or not d.place.is_local:
            return st
        f = st.get(("cond", d.place.local))
        if f is None:
            return st
        if not t.raw.get("dty", "").endswith("bool"):
            return st
        kind, key, mask, pos = f
        if edge.label == ("sw", 0):
            truth = False
        elif edge.label == ("sw", "otherwise") or edge.label == ("sw", 1):
            truth = True
        else:
            return st
        holds = (truth == pos)   # does the predicate hold on this edge?
        if kind == "known":
            return st if holds else None
        keys = key if (key and isinstance(key[0], tuple)) else (key,)
        st = dict(st)
        if kind == "anycontains":
            if holds:
                return st
            # none of the listed flag sets is contained
            for mk in mask:
                for k1 in keys:
                    cur = st.get(k1)
                    if cur is None:
                        cur = self._lookup(st, k1) or TOP
                    new = []
                    for a in cur.alts:
                        if (a.s & mk) == mk:
                            continue
                        c2 = a.c | (mk if _single_bit(mk) else 0)
                        new.append(BV(a.s, c2, set(a.nc) | {mk}, a.keep, a.src))
                    if not new:
                        return None
                    st[k1] = Val(new)
            return st
        for k1 in keys:
            cur = st.get(k1)
            if cur is None:
                cur = self._lookup(st, k1) or TOP
            new = []
            for a in cur.alts:
                if kind == "contains":
                    if holds:
                        if a.c & mask:
                            continue
                        new.append(BV(a.s | mask, a.c, a.nc, a.keep, a.src))
                    else:
                        if (a.s & mask) == mask:
                            continue
                        c2 = a.c | (mask if _single_bit(mask) else 0)
                        new.append(BV(a.s, c2, set(a.nc) | {mask}, a.keep, a.src))
                elif kind == "iszero":
                    if holds:
                        if a.s & mask:
                            continue
                        new.append(BV(a.s, a.c | mask, a.nc, a.keep, a.src))
                    else:
                        if (a.c & mask) == mask:
                            continue
                        s2 = a.s | (mask if _single_bit(mask) else 0)
                        new.append(BV(s2, a.c, a.nc, a.keep, a.src))
            if not new:
                return None
            st[k1] = Val(new)
        return st

    # ------------------------------------------------------------------ fixpoint
    def _init_state(self):
        body = self.body
        init = {}
        for l in range(1, body.argc + 1):
            if self.param_src:
                init[(l, ())] = Val.param(("param", body.path, l))
        if self.entry:
            for k, v in self.entry.items():
                init[k] = v
        return init

    @staticmethod
    def _join_states(cur, o2):
        new = {}
        for k in set(cur) | set(o2):
            a, b = cur.get(k), o2.get(k)
            if isinstance(k[0], str):
                if a == b and a is not None:
                    new[k] = a
                continue
            if a is None or b is None:
                new[k] = TOP
            else:
                new[k] = a.join(b)
        return new

    @staticmethod
    def _subsumes(p, o):
        """p ⊒ o without building the join: every value of o is among p's alternatives (a missing key is TOP)."""
        if p is o:
            return True
        for k, pv in p.items():
            ov = o.get(k)
            if isinstance(k[0], str):
                if ov != pv:
                    return False
                continue
            if ov is None:
                if pv != TOP:
                    return False
                continue
            if pv is ov or pv == TOP:
                continue
            pa = pv.alts
            for a in ov.alts:
                if a not in pa:
                    return False
        return True

    @staticmethod
    def _distance(a, b):
        return sum(1 for k in set(a) | set(b) if isinstance(k[0], int) and a.get(k) != b.get(k))

    def _run(self):
        """Forward fixpoint with bounded trace partitioning: every block keeps up to PARTS separate states (one per
        group of incoming paths) instead of one joined state, so that facts about different variables established on
        the same path stay correlated (`forced = if path { A } else { B }` together with the refinement of the tested
        variable).  self.IN[bb] is the join of the partitions (what the queries and older callers read)."""
        body = self.body
        n = len(body.blocks)
        self.PIN = [None] * n
        self.IN = [None] * n
        self.PIN[0] = [self._init_state()]
        self.IN[0] = dict(self.PIN[0][0])
        work = [0]
        it = 0
        while work:
            it += 1
            if it > 50000:
                break
            bb = work.pop()
            for st_in in list(self.PIN[bb]):
                out = self.transfer(bb, st_in)
                for e in self.cfg.succ.get(bb, []):
                    o2 = self.refine(bb, e, out)
                    if o2 is None:
                        continue
                    d = e.dst
                    parts = self.PIN[d]
                    if parts is None:
                        self.PIN[d] = [dict(o2)]
                        self.IN[d] = dict(o2)
                        work.append(d)
                        continue
                    # subsumed by an existing partition?
                    if any(self._subsumes(p_, o2) for p_ in parts):
                        continue
                    if len(parts) < self.parts:
                        parts.append(dict(o2))
                    else:
                        best = min(range(len(parts)), key=lambda i_: self._distance(parts[i_], o2))
                        parts[best] = self._join_states(parts[best], o2)
                    if d not in work:
                        work.append(d)
        # the joined view
        for d in range(n):
            parts = self.PIN[d]
            if parts:
                st = parts[0]
                for o in parts[1:]:
                    st = self._join_states(st, o)
                self.IN[d] = st

    def reachable(self, bb):
        return self.IN[bb] is not None

    def feasible_edges(self):
        """Keys of the CFG edges some partition's state can take (the rest are decided by the flag facts)."""
        ok = set()
        for bb, parts in enumerate(self.PIN):
            if not parts:
                continue
            for st_in in parts:
                out = self.transfer(bb, st_in)
                for e in self.cfg.succ.get(bb, []):
                    if e.key() not in ok and self.refine(bb, e, out) is not None:
                        ok.add(e.key())
        return ok

    def at_call(self, term):
        sts = self.at_call_parts(term)
        if not sts:
            return None
        st = sts[0]
        for o in sts[1:]:
            st = self._join_states(st, o)
        return st

    def at_call_parts(self, term):
        """The states (one per partition) in which the call terminator of its block executes."""
        parts = self.PIN[term.bb]
        if parts is None:
            return None
        res = []
        for st_in in parts:
            captured = {}

            def sink(bb, t, st):
                captured["st"] = dict(st)

            self.transfer(term.bb, st_in, sink)
            if "st" in captured:
                res.append(captured["st"])
        return res

    def at_stmt(self, bb, idx):
        """State before statement idx of block bb."""
        st_in = self.IN[bb]
        if st_in is None:
            return None
        blk = self.body.blocks[bb]
        # re-run the transfer on a truncated copy
        saved = blk.stmts
        try:
            blk.stmts = saved[:idx]
            saved_term = blk.term
            class _T:  # terminator placeholder without effects
                kind = "none"
            blk.term = _T()
            st = self.transfer(bb, st_in)
        finally:
            blk.stmts = saved
            blk.term = saved_term
        return st

    def arg_value(self, term, i, fields=()):
        sts = self.at_call_parts(term)
        if not sts:
            return None
        op = term.args[i]
        if op.kind == "const":
            v = op.int_value()
            return Val.const(v) if v is not None else TOP
        res = None
        for st in sts:
            if fields:
                base = self.base_key(op)
                v = self._lookup(st, (base[0], base[1] + tuple(fields)))
                v = v if v is not None else TOP
            else:
                v = self.val_self(st, op)
            res = v if res is None else res.join(v)
        return res

    def arg_struct(self, term, i):
        """{field path: Val} for a struct argument passed by value or reference."""
        st = self.at_call(term)
        if st is None:
            return None
        op = term.args[i]
        if op.place is None:
            return {}
        base = self.base_key(op)
        out = {}
        for kk, vv in st.items():
            if isinstance(kk[0], int) and kk[0] == base[0] and kk[1][: len(base[1])] == base[1]:
                out[kk[1][len(base[1]):]] = vv
        return out


class FlagIPA:
    """Whole-crate propagation of flag values into parameters and closure captures."""

    def __init__(self, facts, skip=None):
        self.facts = facts
        self.skip = skip or (lambda b: False)
        self.entry = {}
        self.bits = {}
        self.fast = {}
        self.public = set()
        self._run()

    def _is_public(self, b):
        if b.kind == "closure":
            return False
        if b.no_mangle:
            return True
        return bool(b.raw.get("pub") and b.raw.get("reachable"))

    def _run(self):
        facts = self.facts
        bodies = [b for b in facts.fn_bodies() if not self.skip(b)]
        by_path = {b.path: b for b in bodies}
        called = set()
        # which bodies have at least one resolved direct caller / are constructed as closures
        for b in bodies:
            for t in b.calls():
                r = t.resolved
                if r in by_path:
                    called.add(r)
            for blk in b.blocks:
                for s in blk.stmts:
                    if s.kind == "assign" and s.rv["k"] == "agg" and s.rv.get("closure") in by_path:
                        called.add(s.rv["closure"])
        # bodies referenced as function values (e.g. Self::try_from_fd passed to and_then) are
        # treated as public: their parameters are unconstrained
        fnvals = set()
        for b in bodies:
            for blk in b.blocks:
                ops = []
                for s in blk.stmts:
                    ops.extend(s.rv_operands())
                if blk.term.kind == "call":
                    ops.extend(blk.term.args)
                for o in ops:
                    if o.kind == "const" and o.const.get("fn"):
                        for k in ("fn", "fnd"):
                            if o.const.get(k) in by_path:
                                fnvals.add(o.const[k])
        self.public = {b.path for b in bodies if self._is_public(b) or b.path in fnvals or b.path not in called}
        for b in bodies:
            if b.path in self.public:
                self.entry[b.path] = None   # default parameter sources
            else:
                self.entry[b.path] = "bottom"
        work = [b for b in bodies if b.path in self.public]
        pending = set(b.path for b in work)
        rounds = 0
        while work:
            rounds += 1
            if rounds > 5000:
                break
            b = work.pop(0)
            pending.discard(b.path)
            ent = self.entry[b.path]
            if ent == "bottom":
                continue
            bits = Bits(b, entry=ent, param_src=(b.path in self.public), parts=1)   # fast, unpartitioned rounds
            self.fast[b.path] = bits
            contrib = {}   # callee -> {key: Val}
            for blk in b.blocks:
                if blk.cleanup or not bits.reachable(blk.idx):
                    continue
                # closure aggregates
                st_blk = None
                for i, s in enumerate(blk.stmts):
                    if s.kind == "assign" and s.rv["k"] == "agg" and s.rv.get("closure") in by_path:
                        st = bits.at_stmt(blk.idx, i)
                        cpath = s.rv["closure"]
                        cm = contrib.setdefault(cpath, {})
                        for k, o in enumerate(Operand(x) for x in s.rv["ops"]):
                            self._contribute(bits, st, o, (1, (str(k),)), cm)
                t = blk.term
                if t.kind == "call":
                    r = t.resolved
                    if r in by_path and r not in self.public:
                        st = bits.at_call(t)
                        cm = contrib.setdefault(r, {})
                        callee = by_path[r]
                        for i, o in enumerate(t.args):
                            if i + 1 > callee.argc:
                                break
                            self._contribute(bits, st, o, (i + 1, ()), cm)
                        cm.setdefault("__called__", True)
            for cpath, cm in contrib.items():
                cm.pop("__called__", None)
                old = self.entry.get(cpath)
                if cpath in self.public:
                    # closures of public functions are not public themselves
                    continue
                if old == "bottom":
                    new = dict(cm)
                else:
                    new = {}
                    for k in set(old) | set(cm):
                        a, bb_ = old.get(k), cm.get(k)
                        if a is None or bb_ is None:
                            new[k] = TOP
                        else:
                            new[k] = a.join(bb_)
                if new != old:
                    self.entry[cpath] = new
                    if cpath not in pending:
                        pending.add(cpath)
                        work.append(by_path[cpath])

    def _contribute(self, bits, st, op, pkey, cm):
        """Join the abstract value of operand `op` (and its sub-fields) into callee key pkey."""
        if st is None:
            return
        def put(k, v):
            if k in cm:
                cm[k] = cm[k].join(v)
            else:
                cm[k] = v
        if op.kind == "const":
            v = op.int_value()
            put(pkey, Val.const(v) if v is not None else TOP)
            return
        if op.place is None:
            put(pkey, TOP)
            return
        base = bits.base_key(op)
        put(pkey, bits.val_self(st, op))
        for kk, vv in st.items():
            if isinstance(kk[0], int) and kk[0] == base[0] and kk != base and kk[1][: len(base[1])] == base[1]:
                put((pkey[0], pkey[1] + kk[1][len(base[1]):]), vv)

    def bits_of(self, path):
        """Partitioned analysis of one function under the entry state the whole-crate propagation converged to."""
        b = self.bits.get(path)
        if b is None:
            body = self.facts.body(path)
            ent = self.entry.get(path)
            if ent == "bottom":
                return None
            b = Bits(body, entry=ent, param_src=(path in self.public))
            self.bits[path] = b
        return b


def compose(v, w, src):
    """Value of a sink inside a callee given the caller's argument value `v` (Val) and the
    callee-local transformation `w` (Val computed with the parameter as symbolic source `src`)."""
    out = []
    for a in v.alts:
        for b in w.alts:
            if b.src != src:
                # the callee overwrote the value entirely
                out.append(BV(b.s, b.c, b.nc))
                continue
            k = b.keep
            # facts the callee established about the parameter itself (via branch refinement)
            if (b.s & k & a.c) or (b.c & k & a.s):
                continue
            s = (b.s & ~k) | ((a.s | b.s) & k)
            c = (b.c & ~k) | ((a.c | b.c) & k)
            nc = set(b.nc)
            for m in a.nc:
                if (m & ~k) == 0 or not (m & ~b.c & ~k):
                    # all bits of m are kept, or the changed ones are surely clear
                    if (m & ~k) == 0:
                        nc.add(m)
            keep, s2 = 0, None
            if a.src is not None:
                keep, s2 = a.keep & k, a.src
            out.append(BV(s, c, nc, keep, s2))
    if not out:
        return None
    return Val(out)
