"""Which variant of an Option/enum does a place hold?  A small backwards walk over reaching
definitions that follows copies, borrows, variant-preserving Option adaptors and closure captures.

Tokens:  ("variant", name, index)   the value is definitely that variant
         ("param", fn path, arg idx) the value is (a variant-preserving view of) a parameter
         ("unknown", why)
"""
from .dataflow import defuse
from .facts import Operand, Place

VARIANT_PRESERVING = {
    "std::option::Option::<T>::as_ref", "std::option::Option::<T>::as_mut", "std::option::Option::<T>::map",
    "std::option::Option::<T>::copied", "std::option::Option::<T>::cloned", "std::option::Option::<T>::as_deref",
    "std::option::Option::<T>::as_deref_mut", "std::option::Option::<T>::inspect", "std::clone::Clone::clone",
    "std::option::Option::<&T>::copied", "std::option::Option::<&T>::cloned",
}


class Variants:
    def __init__(self, facts):
        self.facts = facts

    def of_operand(self, body, bb, idx, op, depth=0):
        if op.place is not None:
            return self.of_place(body, bb, idx, op.place, depth)
        return {("unknown", "constant operand")}

    def of_place(self, body, bb, idx, place, depth=0):
        if depth > 12:
            return {("unknown", "depth")}
        proj = [p for p in place.proj if p != "*"]
        if not proj:
            return self._of_local(body, bb, idx, place.local, depth)
        # closure environment field
        if place.local == 1 and body.kind == "closure" and len(proj) == 1 and isinstance(proj[0], dict) and "f" in proj[0]:
            return self._upvar(body, proj[0]["f"], depth)
        return {("unknown", "projection")}

    def _of_local(self, body, bb, idx, local, depth):
        du = defuse(body)
        out = set()
        defs = du.defs_at(local, bb, idx)
        if not defs:
            return {("unknown", "no reaching definition")}
        for d in defs:
            if d[0] == "e":
                if 1 <= local <= body.argc and body.kind != "closure":
                    out.add(("param", body.path, local - 1))
                elif 2 <= local <= body.argc and body.kind == "closure":
                    out.add(("unknown", "closure argument"))
                else:
                    out.add(("unknown", "uninitialised"))
            elif d[0] == "a":
                s = body.blocks[d[1]].stmts[d[2]]
                if s.kind != "assign" or not s.lhs.is_local:
                    out.add(("unknown", "partial assignment"))
                    continue
                rv = s.rv
                if rv["k"] == "use":
                    out |= self.of_operand(body, d[1], d[2], Operand(rv["a"]), depth + 1)
                elif rv["k"] in ("ref", "rawptr"):
                    out |= self.of_place(body, d[1], d[2], Place(rv["p"]), depth + 1)
                elif rv["k"] == "agg" and rv.get("variant") is not None and rv.get("adt"):
                    out.add(("variant", rv["variant"], rv.get("vi")))
                elif rv["k"] == "cast":
                    out |= self.of_operand(body, d[1], d[2], Operand(rv["a"]), depth + 1) if "a" in rv else {("unknown", "cast")}
                else:
                    out.add(("unknown", rv["k"]))
            elif d[0] == "c":
                t = body.blocks[d[1]].term
                if t.callee in VARIANT_PRESERVING or t.resolved in VARIANT_PRESERVING:
                    out |= self.of_operand(body, d[1], len(body.blocks[d[1]].stmts), t.args[0], depth + 1)
                else:
                    out.add(("unknown", "result of %s" % t.callee))
            else:
                out.add(("unknown", "mutated through a reference"))
        return out

    def _upvar(self, body, k, depth):
        parent = body.parent
        if parent is None or not self.facts.has(parent):
            return {("unknown", "closure environment")}
        pb = self.facts.body(parent)
        out = set()
        for blk in pb.blocks:
            for i, s in enumerate(blk.stmts):
                if s.kind == "assign" and s.rv["k"] == "agg" and s.rv.get("closure") == body.path:
                    ops = [Operand(o) for o in s.rv["ops"]]
                    if k < len(ops):
                        out |= self.of_operand(pb, blk.idx, i, ops[k], depth + 1)
        return out or {("unknown", "closure environment")}

    # ------------------------------------------------------------------
    def guarded_switch_cuts(self, body, token, keep_variant_index):
        """Edges of `body` that cannot be taken when the value described by `token` holds the variant
        with index keep_variant_index: the arms for the other variants of every switch on a discriminant
        read of a place whose only source is `token`."""
        cuts = []
        for blk in body.blocks:
            t = blk.term
            if t.kind != "switch":
                continue
            d = t.raw.get("d") or {}
            pl = d.get("m") or d.get("c")
            if not pl:
                continue
            dl = Place(pl)
            if not dl.is_local:
                continue
            # the discriminant local must be defined by `discriminant(place)` in this block
            src = None
            for s in blk.stmts:
                if s.kind == "assign" and s.lhs.is_local and s.lhs.local == dl.local and s.rv["k"] == "discr":
                    src = (blk.stmts.index(s), Place(s.rv["p"]))
            if src is None:
                continue
            toks = self.of_place(body, blk.idx, src[0], src[1])
            if toks != {token}:
                continue
            for v, tg in zip(t.raw["vals"], t.raw["tgts"]):
                if v != keep_variant_index:
                    cuts.append((blk.idx, tg, ("sw", v)))
            if keep_variant_index in t.raw["vals"]:
                cuts.append((blk.idx, t.raw["other"], ("sw", "otherwise")))
        return cuts
