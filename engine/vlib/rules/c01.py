"""C01 — in-root lookups match kernel RESOLVE_IN_ROOT semantics (structural clauses)."""
import re

from ..cfg import cfg_of
from ..common import *
from ..cut import bool_edges, const_eq_tests, origin_keys, result_edges, stmt_bool_edges
from ..engine import holds, unproven, violated
from ..facts import Operand, Place
from . import c05
from .c03 import excl
from .c05 import shared, _cls
from .c02 import _is_root_clone

EXPLANATION = ("C01: CUT/PROV rules on the emulated walk: '..' at the root clamps (no open, dirfd reset to the root clone); an "
               "absolute link target restarts at the root clone with the lexical position reset; every queue growth lies "
               "behind the counter increment and the budget test whose exhaustion returns ELOOP (ranking argument); the empty "
               "component is opened as '.'; both trailing-symlink modes and NO_SYMLINKS are honoured by both backends, and the "
               "no-follow exit for a final symlink precedes the NO_SYMLINKS refusal (the kernel refuses links only when it follows "
               "them); kernel lookups carry RESOLVE_IN_ROOT|NO_MAGICLINKS and the emulated walk refuses absolute link bodies read on "
               "procfs with ELOOP before they reach the queue; the budget constant is compared with the kernel's.")
ASSUMPTIONS = ["kernel reference: RESOLVE_IN_ROOT clamps '..' and absolute links at the root; MAXSYMLINKS = 40; openat2 returns ENOENT for an empty path",
               "equality of outcomes with the kernel for concrete trees is not decided (it is a differential, value-level statement)"]

DR = "resolvers::opath::imp::do_resolve"
KERNEL_MAXSYMLINKS = 40


def _walk(ctx, fn=DR):
    F = ctx.facts
    b = F.body(fn)
    cfg = cfg_of(b)
    opens = list(b.calls("syscalls::openat"))
    loops = cfg.natural_loops()
    return b, cfg, opens, loops


def r1_root_clamp(ctx):
    T = ctx.tracer
    out = []
    b, cfg, opens, loops = _walk(ctx)
    if len(opens) != 1 or not loops:
        return [violated("C01.R1", "do_resolve:shape", b.where(), "expected one component open inside the walk loop")]
    op = opens[0]
    hdr = [h for h, blks in loops.items() if op.bb in blks][0]
    name_keys = origin_keys(T.origins_of_arg(op, 1))
    # the '..' recognition that precedes the open (in the same iteration)
    pre = [t for t in const_eq_tests(b, T, "..") if op.bb in cfg.edge_targets_reachable(t["true"], cut_nodes=[hdr]) or True]
    pre = [t for t in pre if t["other"] is not None and origin_keys(t["other"]) & name_keys and
           t["bb"] in cfg.reachable(hdr, cut_nodes=[op.bb])]
    if not pre:
        return [violated("C01.R1", "do_resolve:dotdot-arm", b.where(), "no '..' case found before the component open")]
    true_edges = [e for t in pre for e in t["true"]]
    # pop() of the lexical position on that arm
    pops = []
    for t in b.calls("std::path::PathBuf::pop"):
        if t.bb in cfg.edge_targets_reachable(true_edges, cut_nodes=[hdr, op.bb]):
            be = bool_edges(b, t)
            if be:
                pops.append((t, be))
    if not pops:
        return [violated("C01.R1", "do_resolve:pop", b.where(), "the '..' arm does not test PathBuf::pop() of the lexical position")]
    cut = [e.key() for (_t, be) in pops for e in be["true"]]
    reach = cfg.edge_targets_reachable(true_edges, cut_nodes=[hdr], cut_edges=cut)
    if op.bb in reach:
        out.append(violated("C01.R1", "do_resolve:clamp", op.where(), "'..' can be opened although the lexical position is already the root (pop() returned false)"))
    else:
        out.append(holds("C01.R1", "do_resolve:clamp", op.where(), "'..' reaches the open only when pop() succeeded (not at the root)"))
    # on the at-root edge: dirfd := clone of the root, then next iteration
    false_edges = [e for (_t, be) in pops for e in be["false"]]
    # every other component is opened: the next iteration is reached without the open only from the at-root edge
    # ('file/..', 'file/.', 'file/' must fail with ENOTDIR like the kernel: the open of the component is what notices)
    body_starts = [e for e in cfg.succ.get(hdr, []) if e.dst in loops[hdr]]
    skip = hdr in cfg.edge_targets_reachable(body_starts, cut_nodes=[op.bb], cut_edges=[e.key() for e in false_edges])
    if skip:
        pth = cfg.path(body_starts[0].dst, hdr, cut_nodes=[op.bb], cut_edges=[e.key() for e in false_edges]) if body_starts else None
        out.append(violated("C01.R1", "do_resolve:every-component-opened", op.where(),
                            "a component can be consumed without being opened although the walk is not at the root (blocks %s): "
                            "a non-directory followed by '..'/'.' is then accepted where the kernel returns ENOTDIR" % (pth,)))
    else:
        out.append(holds("C01.R1", "do_resolve:every-component-opened", op.where(), "only '..' at the root skips the component open"))
    fr = cfg.edge_targets_reachable(false_edges, cut_nodes=[hdr])
    resets = [t for t in b.calls("std::clone::Clone::clone") if t.bb in fr and "Rc<" in (t.rty or "") and _is_root_clone(ctx, T.origins_of_arg(t, 0))]
    # must pass through a reset before the header
    if resets and hdr not in cfg.edge_targets_reachable(false_edges, cut_nodes=[t.bb for t in resets]) - set() or not resets:
        pass
    through = bool(resets) and hdr not in cfg.edge_targets_reachable(false_edges, cut_nodes=[t.bb for t in resets] + [x for x in cfg.return_blocks()])
    # error exits (symlink-stack bookkeeping failure) are allowed; what matters: the header is not re-entered without the reset
    if through:
        out.append(holds("C01.R1", "do_resolve:clamp-resets-dirfd", resets[0].where(), "at the root, '..' resets the dirfd to the root clone and continues"))
    else:
        out.append(violated("C01.R1", "do_resolve:clamp-resets-dirfd", b.where(), "at the root, '..' does not reset the walk's dirfd to the root before continuing"))
    return out


def r2_absolute_restart(ctx):
    T = ctx.tracer
    out = []
    b, cfg, opens, loops = _walk(ctx)
    op = opens[0]
    hdr = [h for h, blks in loops.items() if op.bb in blks][0]
    pre = list(b.calls("utils::path::RawComponents::<'_>::prepend"))
    rl = list(b.calls("syscalls::readlinkat"))
    if not pre:
        return [violated("C01.R2", "do_resolve:prepend", b.where(), "no link splice found")]
    # the spliced body is the readlink result itself (trailing slashes and empty components included)
    for p_ in pre:
        o = T.origins_of_arg(p_, 0)
        okb = bool(o) and all(x.kind == "call" and (x.term in rl or x.term.callee == "utils::path::PathIterExt::raw_components") for x in o)
        if okb:
            for x in o:
                if x.term.callee == "utils::path::PathIterExt::raw_components":
                    o2 = T.origins_of_arg(x.term, 0)
                    okb = okb and bool(o2) and all(y.kind == "call" and y.term in rl for y in o2)
        (out.append(holds("C01.R2", "do_resolve:link-body-unmodified", p_.where(), "the components spliced into the walk are those of the readlinkat result")) if okb else
         out.append(violated("C01.R2", "do_resolve:link-body-unmodified", p_.where(),
                             "the link body is transformed before it is spliced into the walk (%s): e.g. dropping a trailing '/' makes 'link -> file/' resolve where the kernel returns ENOTDIR" % (o,))))
    tests = []
    for t in b.calls("std::path::Path::is_absolute"):
        o = T.origins_of_arg(t, 0)

        def from_readlink(os_, depth=0):
            for x in os_:
                if x.kind == "call" and x.term in rl:
                    return True
                if x.kind == "call" and depth < 2 and x.term.args and from_readlink(T.origins_of_arg(x.term, 0), depth + 1):
                    return True
            return False
        if from_readlink(o) and t.bb in cfg.reachable(pre[0].target, cut_nodes=[hdr]):
            be = bool_edges(b, t)
            if be:
                tests.append(be)
    if not tests:
        return [violated("C01.R2", "do_resolve:absolute-test", pre[0].where(), "after splicing a link body there is no is_absolute() test: absolute targets would continue from the link's directory")]
    te = [e for be in tests for e in be["true"]]
    tr = cfg.edge_targets_reachable(te, cut_nodes=[hdr])
    resets = [t for t in b.calls("std::clone::Clone::clone") if t.bb in tr and "Rc<" in (t.rty or "") and _is_root_clone(ctx, T.origins_of_arg(t, 0))]
    lex = [t for t in b.calls("std::convert::From::from", "std::path::PathBuf::from") if t.bb in tr and t.args and t.args[0].is_const and t.args[0].bytes_value() == "/"]
    ok1 = bool(resets) and hdr not in cfg.edge_targets_reachable(te, cut_nodes=[t.bb for t in resets])
    ok2 = bool(lex) and hdr not in cfg.edge_targets_reachable(te, cut_nodes=[t.bb for t in lex])
    (out.append(holds("C01.R2", "do_resolve:restart-dirfd", resets[0].where(), "absolute link target: walk continues from the root clone")) if ok1 else
     out.append(violated("C01.R2", "do_resolve:restart-dirfd", pre[0].where(), "absolute link target does not restart the walk at the root")))
    (out.append(holds("C01.R2", "do_resolve:restart-lexical", lex[0].where(), "absolute link target: lexical position reset to '/'")) if ok2 else
     out.append(violated("C01.R2", "do_resolve:restart-lexical", pre[0].where(), "absolute link target does not reset the lexical position used by check_current")))
    return out


def budget(ctx, fn):
    """(instances, allowed traversals) for one walk function."""
    T = ctx.tracer
    F = ctx.facts
    out = []
    b, cfg, opens, loops = _walk(ctx, fn)
    short = fn.split("::")[-1]
    pre = list(b.calls("utils::path::RawComponents::<'_>::prepend"))
    if not pre:
        return [violated("C01.R3", "%s:prepend" % short, b.where(), "no queue growth site found")], None
    hdrs = list(loops)
    # compare of the counter with the budget constant
    cmpi = None
    for blk in b.blocks:
        if blk.cleanup:
            continue
        for i, s in enumerate(blk.stmts):
            if s.kind == "assign" and s.rv["k"] == "bin" and s.rv["op"] in ("Ge", "Gt", "Eq", "Lt", "Le"):
                ops = s.rv_operands()
                consts = [o for o in ops if o.is_const and o.const.get("item") == "resolvers::MAX_SYMLINK_TRAVERSALS"]
                if consts:
                    cmpi = (blk.idx, i, s, consts[0].int_value())
    if cmpi is None:
        return [violated("C01.R3", "%s:budget-test" % short, b.where(), "no comparison with MAX_SYMLINK_TRAVERSALS found")], None
    bb, i, s, maxv = cmpi
    be = stmt_bool_edges(b, bb, i)
    if be is None:
        return [unproven("C01.R3", "%s:budget-test" % short, b.where(), "cannot follow the budget comparison to its branch")], None
    op = s.rv["op"]
    a_const = Operand(s.rv["a"]).is_const
    # edges taken when the budget is exhausted
    if op in ("Ge", "Gt", "Eq"):
        exh, cont = (be["true"], be["false"]) if not a_const else (be["false"], be["true"])
    else:
        exh, cont = (be["false"], be["true"]) if not a_const else (be["true"], be["false"])
    for n, p in enumerate(pre):
        key = "%s:growth:%d" % (short, n)
        if p.bb in cfg.reachable(cfg.entry, cut_edges=[e.key() for e in cont]):
            out.append(violated("C01.R3", key, p.where(), "link bodies can be spliced into the queue without passing the link-budget test"))
        else:
            out.append(holds("C01.R3", key, p.where(), "queue growth only behind the budget test"))
    # increment dominates the test within the iteration
    inc = None
    for blk in b.blocks:
        for j, st in enumerate(blk.stmts):
            if st.kind == "assign" and st.rv["k"] == "bin" and st.rv["op"] in ("AddWithOverflow", "Add", "AddUnchecked"):
                ops = st.rv_operands()
                if any(o.is_const and o.int_value() == 1 for o in ops):
                    var = [o for o in ops if not o.is_const]
                    cv = [o for o in s.rv_operands() if not o.is_const]
                    if var and cv and var[0].place is not None:
                        # the compared value derives from this counter local
                        co = T.origins_of_operand(b, bb, i, cv[0])
                        inc = (blk.idx, var[0].place.local)
    okinc = inc is not None and bb not in cfg.reachable(cfg.entry, cut_nodes=[inc[0]]) if inc else False
    (out.append(holds("C01.R3", "%s:increment" % short, b.where(), "counter += 1 precedes every budget test")) if okinc else
     out.append(violated("C01.R3", "%s:increment" % short, b.where(), "the traversal counter is not incremented before the budget test")))
    # exhaustion returns ELOOP and never grows the queue
    er = cfg.edge_targets_reachable(exh, cut_nodes=hdrs)
    errs = {o.const_int(True) for c in b.calls("std::io::Error::from_raw_os_error") if c.bb in er for o in T.origins_of_arg(c, 0)}
    grows = [p for p in pre if p.bb in er]
    if errs == {ELOOP} and not grows:
        out.append(holds("C01.R3", "%s:exhaustion" % short, b.where(), "budget exhausted -> ELOOP"))
    else:
        out.append(violated("C01.R3", "%s:exhaustion" % short, b.where(), "budget exhaustion yields errno %s (growth after it: %s)" % (sorted(errs), bool(grows))))
    # every other iteration consumes one element: the loop is driven by pop_front
    drv = [t for t in b.calls() if (t.callee or "").endswith("::pop_front") and any(t.bb in blks for blks in loops.values())]
    (out.append(holds("C01.R3", "%s:consumes" % short, b.where(), "each iteration pops one component (ranking: 127*|body| + |queue|)")) if drv else
     out.append(violated("C01.R3", "%s:consumes" % short, b.where(), "walk loop is not driven by popping the component queue")))
    allowed = None
    if maxv is not None:
        allowed = maxv - 1 if op == "Ge" else (maxv if op == "Gt" else None)
    return out, allowed


def r3_link_budget(ctx):
    out, allowed = budget(ctx, DR)
    ctx.cache["c01_allowed"] = allowed
    return out


def r4_empty_component(ctx):
    """'' must flow to the open as '.', for both walks (trailing '/' and '//' semantics)."""
    T = ctx.tracer
    X = excl(ctx)
    out = []
    for fn in (DR, "resolvers::procfs::opath_resolve"):
        b, cfg, opens, loops = _walk(ctx, fn)
        short = fn.split("::")[-1]
        for n, t in enumerate(opens[:1]):
            srcs, filters = X._container_chain_for_arg(t, 1) if hasattr(X, "_container_chain_for_arg") else ([], [])
            rejecting = [cl.path for cl in filters if X._closure_rejects(cl, "")]
            origins = T.origins_of_arg(t, 1)
            has_dot = any(o.kind == "const" and o.const_bytes() == "." for o in origins)
            key = "%s:empty-as-dot" % short
            if rejecting:
                out.append(violated("C01.R4", key, t.where(), "empty components are filtered out of the walk (%s): 'a/' and 'a//b' lose their trailing-slash semantics" % rejecting))
            elif not has_dot:
                out.append(violated("C01.R4", key, t.where(), "the empty component is not mapped to '.' before the open"))
            else:
                out.append(holds("C01.R4", key, t.where(), "'' is kept in the queue and opened as '.'"))
    # whole path empty -> ENOENT before the walk (kernel: ENOENT)
    b, cfg, opens, loops = _walk(ctx)
    op = opens[0]
    tests = []
    for t in b.calls("std::ffi::OsStr::is_empty", "std::path::Path::is_empty", "std::ffi::OsString::is_empty"):
        o = T.origins_of_arg(t, 0)
        if o and all(x.kind == "param" and x.detail == 2 for x in o):
            be = bool_edges(b, t)
            if be:
                tests.append(be)
    ok = False
    if tests:
        cut = [e.key() for be in tests for e in be["false"]]
        tr = cfg.edge_targets_reachable([e for be in tests for e in be["true"]])
        errs = {o.const_int(True) for c in b.calls("std::io::Error::from_raw_os_error") if c.bb in tr for o in T.origins_of_arg(c, 0)}
        ok = op.bb not in cfg.reachable(cfg.entry, cut_edges=cut) and op.bb not in tr and errs == {ENOENT}
    (out.append(holds("C01.R4", "do_resolve:empty-path", b.where(), "empty path -> ENOENT before the walk, like openat2")) if ok else
     out.append(violated("C01.R4", "do_resolve:empty-path", b.where(), "an empty path is resolved (to the root) by the emulated backend while openat2 returns ENOENT")))
    return out


def r5_modes_honoured(ctx):
    F = ctx.facts
    T = ctx.tracer
    ipa, pp = shared(ctx)
    out = []
    b, cfg, opens, loops = _walk(ctx)
    # emulated: no_follow_trailing (param 4) is branched on inside the loop
    used = False
    nft_sw, len_sw = [], []
    for blk in b.blocks:
        if blk.cleanup or blk.term.kind != "switch":
            continue
        d = Operand(blk.term.raw["d"])
        if d.place is None:
            continue
        for o in T.origins(b, blk.idx, len(blk.stmts), d.place):
            if o.kind == "param" and o.detail == 4:
                used = True
                nft_sw.append(blk.idx)
            elif o.kind == "call" and (o.callee or "").startswith("std::collections::VecDeque") and (o.callee or "").rsplit("::", 1)[-1] in ("is_empty", "len"):
                len_sw.append(blk.idx)
    (out.append(holds("C01.R5", "do_resolve:no_follow_trailing", b.where(), "emulated walk branches on no_follow_trailing")) if used else
     out.append(violated("C01.R5", "do_resolve:no_follow_trailing", b.where(), "emulated walk ignores no_follow_trailing")))
    # ... and the trailing-symlink exit is taken BEFORE the NO_SYMLINKS refusal: the kernel refuses a link only when it
    # is about to follow it (pick_link), so O_PATH|O_NOFOLLOW on a final symlink succeeds under RESOLVE_NO_SYMLINKS.
    # Gate = the no_follow_trailing switch and the queue-emptiness switch next to it; with the gate's fall-through
    # (false) edges cut, the NO_SYMLINKS test must be unreachable.
    if used:
        def straight(frm, to, n=4):
            while n and frm is not None:
                if frm == to:
                    return True
                es = [e for e in cfg.succ.get(frm, []) if e.label not in ("unwind",)]
                frm = es[0].dst if len(es) == 1 else None
                n -= 1
            return False
        gate = set(nft_sw)
        for q in set(len_sw):
            for g in nft_sw:
                if any(straight(e.dst, g) for e in cfg.succ.get(q, [])) or any(straight(e.dst, q) for e in cfg.succ.get(g, [])):
                    gate.add(q)
        cut = [e.key() for g in gate for e in cfg.succ.get(g, []) if e.label == ("sw", 0)]
        nosym = []
        for t in b.calls():
            if t.callee and t.callee.endswith("ResolverFlags>::contains") and [o.const_int() for o in T.origins_of_arg(t, 1)] == [RESOLVE_NO_SYMLINKS]:
                nosym.append(t)
        if nosym:
            reach = cfg.reachable(cfg.entry, cut_edges=cut)
            bad = [t for t in nosym if t.bb in reach]
            (out.append(violated("C01.R5", "do_resolve:nofollow-exit-before-no-symlinks", bad[0].where(),
                                 "NO_SYMLINKS refuses a trailing symlink that no_follow_trailing asked to be returned unfollowed (the kernel refuses links only when following them)")) if bad else
             out.append(holds("C01.R5", "do_resolve:nofollow-exit-before-no-symlinks", nosym[0].where(),
                              "the no_follow_trailing exit precedes the NO_SYMLINKS refusal (gate switches: %d)" % len(gate))))
    # the emulated one-shot open derives the lookup mode from O_NOFOLLOW alone and applies the caller's flags
    from .c04 import r5_oneshot_emulation, r6_component_queue
    out.extend(r5_oneshot_emulation(ctx, "C01.R5"))
    # every raw component reaches the walk
    out.extend(r6_component_queue(ctx, "C01.R5"))
    # the backend is chosen by a probe that says "kernel" only where the kernel call works
    from .c04 import r8_backend_probe
    out.extend(r8_backend_probe(ctx, "C01.R5"))
    # the emulated one-shot open reopens the resolved handle by descriptor, in the calling thread's table
    from .c09 import reopen_by_descriptor
    out.extend(reopen_by_descriptor(ctx, "C01.R5"))
    # NO_SYMLINKS honoured (shared rule shape with C07)
    from .c07 import walk_rules
    for i in walk_rules(ctx, DR, "C01.R5"):
        out.append(i)
    # kernel backend: both modes and the resolver flags reach openat2
    kb = F.body("resolvers::openat2::resolve")
    bits = ipa.bits_of(kb.path)
    for t in kb.calls("syscalls::openat2"):
        v = bits.arg_value(t, 2, ("flags",)) if bits else None
        if v is not None and any(a.has(O_NOFOLLOW) for a in v.alts) and any(bool(a.c & O_NOFOLLOW) for a in v.alts) and v.has(O_PATH):
            out.append(holds("C01.R5", "openat2::resolve:nofollow-modes", t.where(), "O_PATH with and without O_NOFOLLOW depending on no_follow_trailing"))
        else:
            out.append(violated("C01.R5", "openat2::resolve:nofollow-modes", t.where(), "kernel backend does not distinguish the two trailing-symlink modes: %r" % v))
        lb = c05._local_bits(ctx, kb.path)
        r = lb.arg_value(t, 2, ("resolve",))
        okr = r is not None and bool(r.keep_of(("param", kb.path, 3)) & RESOLVE_NO_SYMLINKS)
        (out.append(holds("C01.R5", "openat2::resolve:resolver-flags", t.where(), "caller's resolver flags (NO_SYMLINKS) are OR-ed into how.resolve")) if okr else
         out.append(violated("C01.R5", "openat2::resolve:resolver-flags", t.where(), "resolver flags do not reach how.resolve: %r" % r)))
    return out


PROC_SUPER_MAGIC = 0x9fa0


def _words(raw):
    """integers stored in an escaped constant blob, read as native 8- and 4-byte little-endian words"""
    import codecs
    try:
        bs = codecs.decode(raw, "unicode_escape").encode("latin1")
    except Exception:
        return set()
    out = set()
    for w in (8, 4):
        if len(bs) % w == 0:
            out |= {int.from_bytes(bs[i:i + w], "little") for i in range(0, len(bs), w)}
    return out


def emulated_no_magiclinks(ctx, rid="C01.R6"):
    """The kernel lookups carry RESOLVE_NO_MAGICLINKS; the emulated walk has to refuse the same links itself: an
    absolute link body read on a magic-link filesystem (procfs) ends in ELOOP and is never spliced into the queue."""
    F = ctx.facts
    T = ctx.tracer
    out = []
    b, cfg, opens, loops = _walk(ctx)
    pre = list(b.calls("utils::path::RawComponents::<'_>::prepend"))
    rl = list(b.calls("syscalls::readlinkat"))
    probes = [t for t in b.calls() if (t.callee or "").endswith("::is_magiclink_filesystem")]
    key = "do_resolve:emulated-no-magiclinks"
    if not probes or not pre or not rl:
        return [violated(rid, key, b.where(), "the emulated walk never asks whether a link lives on a magic-link filesystem before following it")]
    on_next = [t for t in probes if any(o.kind == "call" and o.term in opens for o in T.origins_of_arg(t, 0))]
    if not on_next:
        return [violated(rid, key, probes[0].where(), "the magic-link filesystem probe is not made on the component that was just opened")]
    # switches on the probe's boolean payload
    msw = []
    for blk in b.blocks:
        if blk.cleanup or blk.term.kind != "switch":
            continue
        d = Operand(blk.term.raw["d"])
        if d.place is None:
            continue
        if any(o.kind == "call" and o.term in on_next and o.fpath for o in T.origins(b, blk.idx, len(blk.stmts), d.place)):
            msw.append(blk.idx)
    abs_tests = []
    for t in b.calls("std::path::Path::is_absolute"):
        if any(x.kind == "call" and x.term in rl for x in T.origins_of_arg(t, 0)):
            be = bool_edges(b, t)
            if be:
                abs_tests.append(be)
    if not msw or not abs_tests:
        return [violated(rid, key, on_next[0].where(), "the result of the magic-link probe (or the absolute-body test) is not branched on")]
    cut = [e.key() for be in abs_tests for e in be["false"]]
    cut += [e.key() for g in msw for e in cfg.succ.get(g, []) if e.label == ("sw", 0)]
    reach = cfg.reachable(cfg.entry, cut_edges=cut)
    # spliced = the queue grows and the walk goes on with it (a growth that can only be followed by the error return is harmless)
    spliced = [p for p in pre if p.bb in reach and any(h in cfg.reachable(p.bb, cut_edges=cut) for h in loops)]
    refusal = cfg.edge_targets_reachable([e for g in msw for e in cfg.succ.get(g, []) if e.label != ("sw", 0)], cut_nodes=list(loops))
    errs = {o.const_int(True) for c in b.calls("std::io::Error::from_raw_os_error") if c.bb in refusal for o in T.origins_of_arg(c, 0)}
    # first absolute test on the body must be the one guarding the probe: the probe is reached only on its true edge
    guarded = all(t.bb not in cfg.reachable(cfg.entry, cut_edges=[e.key() for be in abs_tests[:1] for e in be["true"]]) for t in on_next)
    if spliced:
        out.append(violated(rid, key, spliced[0].where(), "an absolute link body read on a magic-link filesystem can be spliced into the walk (RESOLVE_NO_MAGICLINKS not emulated)"))
    elif errs != {ELOOP}:
        out.append(violated(rid, key, on_next[0].where(), "the magic-link refusal does not end in ELOOP (errnos %s)" % sorted(x for x in errs if x is not None)))
    else:
        out.append(holds(rid, key, on_next[0].where(), "absolute body on a magic-link filesystem -> ELOOP before the queue grows%s" % ("" if guarded else " (probe also made for relative bodies)")))
    # the filesystem table names procfs
    vals = set()
    impls = [x for x in F.bodies if "is_magiclink_filesystem" in x.path or x.path.endswith("::DANGEROUS_FILESYSTEMS")]
    for ib in impls:
        for blk in ib.blocks:
            for s in blk.stmts:
                if s.kind != "assign":
                    continue
                for o in s.rv_operands():
                    if o.is_const:
                        raw = o.const.get("bytes")
                        if raw is not None:
                            vals |= _words(raw)
                        elif o.int_value() is not None:
                            vals.add(o.int_value())
            if blk.term.kind == "switch":
                vals |= {v for v in blk.term.raw.get("vals", []) if isinstance(v, int)}
    k2 = "is_magiclink_filesystem:procfs"
    where = impls[0].where() if impls else b.where()
    (out.append(holds(rid, k2, where, "the magic-link filesystem table contains PROC_SUPER_MAGIC")) if PROC_SUPER_MAGIC in vals else
     out.append(violated(rid, k2, where, "procfs (0x9fa0) is not among the filesystems whose absolute links the emulated walk refuses")))
    return out


def r6_kernel_mask(ctx):
    out = []
    for i in c05.r4_resolve_masks(ctx):
        if "resolvers::openat2::" in i.key:
            i.rule = "C01.R6"
            out.append(i)
    out.extend(emulated_no_magiclinks(ctx))
    return out


def r7_budget_vs_kernel(ctx):
    out = []
    allowed = ctx.cache.get("c01_allowed")
    if allowed is None:
        _o, allowed = budget(ctx, DR)
    b = ctx.facts.body(DR)
    if allowed is None:
        out.append(unproven("C01.R7", "MAX_SYMLINK_TRAVERSALS", b.where(), "cannot evaluate the number of traversals the emulated walk allows"))
    elif allowed == KERNEL_MAXSYMLINKS:
        out.append(holds("C01.R7", "MAX_SYMLINK_TRAVERSALS", b.where(), "emulated walk allows %d link traversals, like the kernel" % allowed))
    else:
        # keyed by the budget: a different disagreement with the kernel is a different finding
        out.append(violated("C01.R7", "MAX_SYMLINK_TRAVERSALS:allows-%d" % allowed, b.where(),
                            "the emulated walk follows up to %d links, the kernel (and thus the openat2 backend) %d: chains of %d..%d links resolve on one backend and fail with ELOOP on the other"
                            % (allowed, KERNEL_MAXSYMLINKS, min(allowed, KERNEL_MAXSYMLINKS) + 1, max(allowed, KERNEL_MAXSYMLINKS))))
    return out


NORMALISING = re.compile(r"^std::path::(Path::(components|iter|parent|file_name|ancestors|canonicalize|strip_prefix|file_stem|extension))$|^std::fs::canonicalize$")
LOOKUP_FILES = ("src/procfs.rs", "src/root.rs", "src/handle.rs", "src/utils/path.rs", "src/utils/dir.rs", "src/utils/fd.rs")


def no_lexical_normalisation(ctx, rule, files=None):
    """Lookup paths are taken apart only by the crate's own byte-exact splitter (RawComponents / path_split): std's
    `Path::components()` & co. silently drop `.` and repeated `/` and treat a trailing `/` as absent, which is exactly
    what RESOLVE_IN_ROOT semantics (and the procfs rules about magic-links as non-final components) depend on.
    Expected count: zero; the matcher is exercised on a synthetic list every run."""
    F = ctx.facts
    out = []
    hits = []
    for b in F.fn_bodies():
        if is_bitflags_generated(b):
            continue
        if not (b.file in LOOKUP_FILES or b.file.startswith("src/resolvers/")):
            continue
        if files is not None and not any(b.file == f or b.file.startswith(f) for f in files):
            continue
        for t in b.calls():
            if NORMALISING.search(t.callee or "") and not t.raw.get("x"):
                hits.append((b, t))
    for n, (b, t) in enumerate(hits):
        out.append(violated(rule, "%s:%s:%d" % (fn_key(b), (t.callee or "").rsplit("::", 1)[-1], n), t.where(),
                            "%s normalises the path lexically ('.' and repeated '/' disappear, a trailing '/' is ignored) in lookup code: what is then resolved is not the path the caller gave" % t.callee))
    ctrl = ["std::path::Path::components", "std::path::Path::parent", "std::path::Path::file_name", "std::fs::canonicalize", "std::path::Path::iter"]
    miss = [c for c in ctrl if not NORMALISING.search(c)]
    if miss:
        out.append(violated(rule, "normalising:matcher", "", "the matcher no longer recognises %s" % miss))
    elif not hits:
        out.append(holds(rule, "normalising:none", "", "no std path-normalising call in the lookup code (matcher exercised on %d synthetic callees)" % len(ctrl)))
    return out


def r8_paths_are_taken_apart_byte_exactly(ctx):
    return no_lexical_normalisation(ctx, "C01.R8")


RULES = [
    ("C01.R1", r1_root_clamp, 2, False),
    ("C01.R2", r2_absolute_restart, 2, False),
    ("C01.R3", r3_link_budget, 4, False),
    ("C01.R4", r4_empty_component, 3, False),
    ("C01.R5", r5_modes_honoured, 4, False),
    ("C01.R6", r6_kernel_mask, 2, False),
    ("C01.R7", r7_budget_vs_kernel, 1, False),
    ("C01.R8", r8_paths_are_taken_apart_byte_exactly, 1, False),
]
