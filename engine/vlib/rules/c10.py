"""C10 — a failing system call anywhere inside an operation yields a clean error."""
import re

from ..cfg import cfg_of
from ..common import *
from ..cut import bool_edges, result_edges
from ..dataflow import defuse
from ..engine import holds, unproven, violated
from ..facts import Operand, Place
from .c08 import cg

EXPLANATION = ("C10: every `?`/Err edge is an ordinary CFG edge, so rules over all paths hold for every fault placement: "
               "PANIC (unwrap/expect/panic!/unreachable!/Assert sites classified PURE / SYSCALL-DATA / SYSCALL-CONTROL by "
               "backward slices and transitive control dependence), RES (how every Result from a fallible crate/OS call is "
               "consumed: propagated, matched, probed, dropped -- the non-propagated uses must equal a reasoned table), LOOP "
               "(every natural loop in syscall-reaching code has a finite driver or is tabled), the mount-id degradation "
               "set, and acyclicity of lazy-static initialisation.")
ASSUMPTIONS = ["external crates: rand::thread_rng may panic if the OS RNG fails (listed as a known finding); std/rustix wrappers return errors rather than panic",
               "kernel link bodies are C strings and contain no NUL"]

# ------------------------------------------------------------------------------------------ R1 PANIC
PANIC_CALLS = re.compile(r"^(std::option::Option::<T>::(expect|unwrap)|std::result::Result::<T, E>::(expect|unwrap|expect_err|unwrap_err))$")
PANIC_FNS = re.compile(r"^(core|std)::(panicking::\w+|rt::begin_panic\w*|rt::panic_fmt|panic::panic_any|process::abort|process::exit)$|::unwrap_failed$|^core::option::expect_failed$|^core::result::unwrap_failed$")

# audited sites whose operand does come from the OS but cannot take the panicking value
PANIC_OK = {
    ("capi::utils::copy_path_into_buffer", "expect"): "link bodies returned by readlinkat are C strings: they cannot contain a NUL byte",
    ("syscalls::openat2", "expect"): "errno is always set after a failing syscall, so raw_os_error() is Some",
}


def _may(ctx):
    if "may" not in ctx.cache:
        g = cg(ctx)
        ms, direct = g.may_syscall()
        ctx.cache["may"] = (ms, direct)
    return ctx.cache["may"]


def _is_syscall_origin(ctx, o, depth=0):
    """Does this origin carry data produced by (a function that may perform) a system call?"""
    ms, _ = _may(ctx)
    if o.kind == "call":
        t = o.term
        if os_entry_class(t):
            return "result of OS call %s" % t.callee
        for n in (t.resolved, t.callee):
            if n in ms:
                return "result of %s (may perform system calls)" % n
        # closure arguments that may perform system calls (find(|x| syscall(x).is_ok()))
        for i, a in enumerate(t.args):
            for ao in ctx.tracer.origins_of_arg(t, i):
                if ao.kind == "agg" and ao.detail and ao.detail.startswith("closure "):
                    cp = ao.detail[len("closure "):]
                    if cp in ms:
                        return "result of %s driven by closure %s (may perform system calls)" % (t.callee, cp)
        # value computed by an external/pure function from its arguments: look through (bounded)
        if depth < 3 and t.args:
            for i in range(len(t.args)):
                for ao in ctx.tracer.origins_of_arg(t, i):
                    r = _is_syscall_origin(ctx, ao, depth + 1)
                    if r:
                        return r
        return None
    if o.kind == "static":
        if o.detail in ("procfs::GLOBAL_PROCFS_HANDLE", "resolvers::opath::imp::PROTECTED_SYMLINKS_SYSCTL", "syscalls::OPENAT2_IS_SUPPORTED",
                        "syscalls::RENAME_FLAGS_SUPPORTED", "resolvers::DEFAULT_RESOLVER_TYPE"):
            return None  # using an initialised lazy value is not itself a failing call
    return None


def _panic_sites(ctx):
    """[(body, kind, term, what)]"""
    F = ctx.facts
    out = []
    for b in F.bodies:
        if b.kind not in ("fn", "assoc_fn", "closure") or is_bitflags_generated(b):
            continue
        if ".cargo" in b.file or b.file.startswith("/"):
            continue
        for blk in b.blocks:
            if blk.cleanup:
                continue
            t = blk.term
            if t.kind == "call" and t.callee:
                m = PANIC_CALLS.match(t.callee)
                if m:
                    out.append((b, "unwrap", t, t.callee.rsplit("::", 1)[-1]))
                elif PANIC_FNS.search(t.callee):
                    macros = [x for x in (t.x + t.fx) if isinstance(x, str) and x.startswith("macro:")]
                    nm = macros[0][6:] if macros else t.callee.rsplit("::", 1)[-1]
                    out.append((b, "panic", t, nm))
            elif t.kind == "assert":
                out.append((b, "assert", t, t.raw.get("msg", "assert")))
    return out


def r1_panics(ctx):
    F = ctx.facts
    T = ctx.tracer
    ms, _ = _may(ctx)
    out = []
    cnt = {}
    for (b, kind, t, what) in _panic_sites(ctx):
        fk = fn_key(b)
        base = "%s:%s" % (fk, what)
        i = cnt.get(base, 0)
        cnt[base] = i + 1
        key = base + (":%d" % i if i else "")
        why = None
        if kind == "unwrap":
            for o in T.origins_of_arg(t, 0):
                r = _is_syscall_origin(ctx, o)
                if r:
                    why = "SYSCALL-DATA: the unwrapped value is the %s" % r
                    break
        elif kind == "assert":
            cond = Operand(t.raw["cond"])
            if cond.place is not None:
                for o in T.origins_of_operand(b, t.bb, len(b.blocks[t.bb].stmts), cond):
                    srcs = [o]
                    if o.kind == "expr" and o.stmt is not None:
                        srcs = []
                        for blk in b.blocks:
                            for si, s in enumerate(blk.stmts):
                                if s is o.stmt:
                                    for op in s.rv_operands():
                                        srcs.extend(T.origins_of_operand(b, blk.idx, si, op))
                    for so in srcs:
                        r = _is_syscall_origin(ctx, so)
                        if r:
                            why = "SYSCALL-DATA: the asserted condition depends on the %s" % r
        else:
            macro = what
            if macro in ("assert", "assert_eq", "assert_ne", "debug_assert", "debug_assert_eq", "debug_assert_ne"):
                # conditional: data dependence of the guarding branch
                why = _control_dep(ctx, b, t.bb, direct_only=True)
            else:
                why = _control_dep(ctx, b, t.bb, direct_only=False)
        reason = PANIC_OK.get((fk, what))
        if why and reason:
            out.append(holds("C10.R1", key, t.where(), "audited: %s" % reason))
        elif why:
            out.append(violated("C10.R1", key, t.where(), "a failing system call can make this %s panic -- %s" % (what, why)))
        else:
            out.append(holds("C10.R1", key, t.where(), "PURE: operand/reachability does not depend on a system-call result"))
    # external panics
    for b in F.fn_bodies():
        for t in b.calls("rand::thread_rng"):
            out.append(violated("C10.R1", "%s:rand::thread_rng" % fn_key(b), t.where(),
                                "rand::thread_rng() panics when the OS random source fails (getrandom error while seeding)"))
    return out


def _control_dep(ctx, b, bb, direct_only):
    """SYSCALL-CONTROL: some branch in the transitive control-dependence closure of block bb has a
    condition that is data dependent on a (may-)syscall result."""
    T = ctx.tracer
    cfg = cfg_of(b)
    cd = cfg.control_deps()
    seen = set()
    work = [bb]
    depth = {bb: 0}
    while work:
        x = work.pop()
        for (a, ek) in cd.get(x, ()):
            if a in seen:
                continue
            seen.add(a)
            depth[a] = depth[x] + 1
            term = b.blocks[a].term
            if term.kind == "switch":
                d = Operand(term.raw["d"])
                if d.place is not None:
                    os_ = T.origins_of_operand(b, a, len(b.blocks[a].stmts), d)
                    flat = []
                    for o in os_:
                        if o.kind == "expr" and o.stmt is not None and o.stmt.rv["k"] == "discr":
                            # discriminant of a Result/Option: what produced it?
                            pl = o.stmt.rv_place()
                            for blk in b.blocks:
                                for si, s in enumerate(blk.stmts):
                                    if s is o.stmt:
                                        flat.extend(T.origins(b, blk.idx, si, pl))
                        else:
                            flat.append(o)
                    for o in flat:
                        r = _is_syscall_origin(ctx, o)
                        if r:
                            return "SYSCALL-CONTROL: reaching it depends on a branch (block %d) on the %s" % (a, r)
            if not direct_only or depth[a] < 1:
                work.append(a)
    return None


# ------------------------------------------------------------------------------------------ R2 RES
ERR_TYPES = re.compile(r"std::result::Result<.*, (syscalls::Error|error::Error|error::ErrorImpl|std::io::Error|rustix::io::Errno)>$")
PRESERVE = {"error::ErrorExt::wrap", "error::ErrorExt::with_wrap", "std::result::Result::<T, E>::map_err", "std::result::Result::<T, E>::map",
            "std::result::Result::<T, E>::and_then", "std::result::Result::<T, E>::or_else", "std::result::Result::<T, E>::or",
            "std::result::Result::<T, E>::as_ref", "std::result::Result::<T, E>::as_mut", "utils::dir::RmdirResultExt::ignore_enoent",
            "std::convert::Into::into", "std::convert::From::from", "std::result::Result::<T, E>::inspect_err"}
PROBES = {"std::result::Result::<T, E>::is_ok": "is_ok", "std::result::Result::<T, E>::is_err": "is_err", "std::result::Result::<T, E>::ok": "ok",
          "std::result::Result::<T, E>::err": "err", "std::result::Result::<T, E>::unwrap_or": "unwrap_or",
          "std::result::Result::<T, E>::unwrap_or_default": "unwrap_or_default", "std::result::Result::<T, E>::unwrap_or_else": "unwrap_or_else",
          "std::result::Result::<T, E>::is_ok_and": "is_ok_and", "std::result::Result::<T, E>::is_err_and": "is_err_and"}

# (function, callee, use) -> reason
RES_TABLE = {
    ("procfs::ProcfsHandle::new_fsopen", "syscalls::fsconfig_set_string", "dropped"): "best effort: hidepid=/subset= are optional hardening of the private procfs",
    ("syscalls::OPENAT2_IS_SUPPORTED::{closure#0}", "syscalls::openat2", "is_ok"): "feature probe",
    ("procfs::ProcfsBase::into_path::{closure#0}", "syscalls::fstatat", "is_ok"): "existence probe of thread-self candidates",
    ("procfs::ProcfsHandle::try_from_fd::{closure#0}", "rustix::fs::accessat", "is_err"): "masking probe (subset=pid / hidepid)",
    ("procfs::ProcfsBase::into_path::{closure#0}", "rustix::fs::statat", "is_ok"): "existence probe of thread-self candidates (bare call: used while describing a failed wrapper)",
    ("<syscalls::FrozenFd as std::convert::From<Fd>>::from", "utils::fd::FdExt::as_unsafe_path_unchecked", "ok"): "diagnostics only (path shown in error messages)",
    ("utils::dir::remove_all", "utils::dir::remove_inode", "is_ok"): "fast path; on failure the slow path redoes the removal and reports its own error",
    ("procfs::ProcfsHandle::new::{closure#0}", "*", "fallback"): "constructor fallback chain",
    ("procfs::ProcfsHandle::new", "procfs::ProcfsHandle::new_fsopen", "swallowed"): "constructor fallback chain: the next way of getting a /proc handle is tried, the last one's error is returned (order checked by C06.R6)",
    ("procfs::ProcfsHandle::new", "procfs::ProcfsHandle::new_open_tree", "swallowed"): "constructor fallback chain (C06.R6)",
    ("procfs::ProcfsHandle::new_unmasked", "procfs::ProcfsHandle::new_fsopen", "swallowed"): "constructor fallback chain (C06.R6)",
    ("procfs::ProcfsHandle::new_unmasked", "procfs::ProcfsHandle::new_open_tree", "swallowed"): "constructor fallback chain (C06.R6)",
    ("procfs::ProcfsHandle::open", "procfs::ProcfsHandle::new_unmasked", "swallowed"): "no unmasked handle available: the original lookup error is returned instead (direction checked by C08.R3)",
    ("syscalls::RENAME_FLAGS_SUPPORTED::{closure#0}", "syscalls::renameat2", "matched"): "feature probe",
}


def _strip_closure(fk):
    return re.sub(r"(::\{closure#\d+\})+$", "", fk)


# the tables are keyed by the enclosing function: a closure rewritten as straight-line code (or the reverse) is the same site
RES_TABLE_N = {(_strip_closure(f), c, k): v for (f, c, k), v in RES_TABLE.items()}
# a probe is a probe whichever way round it is asked
for (_f, _c, _k), _v in list(RES_TABLE_N.items()):
    if _k in ("is_ok", "is_err"):
        RES_TABLE_N.setdefault((_f, _c, "is_err" if _k == "is_ok" else "is_ok"), _v)


def _err_option_inspected(b, local, bb):
    """Is the Option<E> in `local` (result of Result::err at the end of block bb) looked at -- matched on, or handed
    to a combinator that receives the payload?"""
    cfg = cfg_of(b)
    work = [e.dst for e in cfg.succ.get(bb, [])]
    seen = set()
    aliases = {local}
    while work:
        x = work.pop()
        if x in seen:
            continue
        seen.add(x)
        blk = b.blocks[x]
        for s_ in blk.stmts:
            if s_.kind != "assign":
                continue
            rp = s_.rv_place()
            if s_.rv["k"] == "discr" and rp is not None and rp.local in aliases:
                return True
            if s_.rv["k"] in ("use", "ref") and rp is not None and rp.local in aliases and rp.is_local and s_.lhs.is_local:
                aliases.add(s_.lhs.local)
        t = blk.term
        if t.kind == "call" and any(a.place is not None and a.place.local in aliases for a in t.args):
            m = (t.callee or "").rsplit("::", 1)[-1]
            if m in ("map_or", "map_or_else", "map", "and_then", "is_some_and", "is_none_or", "filter", "unwrap", "expect", "into_iter", "iter"):
                return True
            return False
        for e in cfg.succ.get(x, []):
            work.append(e.dst)
    return False


def _consume(ctx, b, local, bb, depth=0, seen=None):
    """How is the Result in `local` (defined at the end of block bb) consumed? -> set of (kind, detail)."""
    cfg = cfg_of(b)
    seen = seen if seen is not None else set()
    res = set()
    if depth > 8:
        return {("unknown", "depth")}
    # scan forward over all blocks reachable from the definition until the local is redefined
    start = [e.dst for e in cfg.succ.get(bb, [])]
    visited = set()
    work = list(start)
    aliases = {local}
    direct_match = False
    while work:
        x = work.pop()
        if x in visited:
            continue
        visited.add(x)
        blk = b.blocks[x]
        stop = False
        for i, s in enumerate(blk.stmts):
            if s.kind != "assign":
                continue
            rv = s.rv
            ops = s.rv_operands()
            used = [o for o in ops if o.place is not None and o.place.local in aliases]
            rp = s.rv_place()
            if rv["k"] == "discr" and rp is not None and rp.local in aliases and rp.is_local:
                res.add(("matched", ""))
                direct_match = True
            elif rv["k"] in ("ref", "rawptr") and rp is not None and rp.local in aliases and rp.is_local and s.lhs.is_local:
                aliases.add(s.lhs.local)
            elif used:
                if s.lhs.local == 0:
                    res.add(("returned", ""))
                elif rv["k"] == "use" and s.lhs.is_local and all(o.place.is_local for o in used):
                    aliases.add(s.lhs.local)
                elif rv["k"] == "use" and not all(o.place.is_local for o in used):
                    # payload moved out after a match
                    res.add(("matched", ""))
                    direct_match = True
                elif rv["k"] == "agg":
                    res.add(("stored", rv.get("adt") or rv.get("ak")))
            if s.lhs.is_local and s.lhs.local in aliases and not used and s.lhs.local == local:
                stop = True
        t = blk.term
        if t.kind == "call":
            hit = [i for i, a in enumerate(t.args) if a.place is not None and a.place.local in aliases]
            if hit:
                c = t.callee or ""
                key = (b.path, t.bb)
                if c == "std::ops::Try::branch":
                    res.add(("propagated", ""))
                elif c == "std::result::Result::<T, E>::err" and t.dest is not None and t.dest.is_local and _err_option_inspected(b, t.dest.local, t.bb):
                    # `.err()` keeps the error; looking at the Option it yields (match / map_or / is_some_and ..) is looking
                    # at the error, like a match on the Result
                    res.add(("matched", ""))
                elif c in PROBES:
                    res.add((PROBES[c], ""))
                elif c in ("std::result::Result::<T, E>::expect", "std::result::Result::<T, E>::unwrap"):
                    res.add(("asserted", ""))
                elif (c in PRESERVE or (t.dest is not None and ERR_TYPES.search(t.rty or "") and hit == [0])) and t.dest is not None and t.dest.local == 0:
                    res.add(("returned", ""))
                elif c in PRESERVE or (t.dest is not None and ERR_TYPES.search(t.rty or "") and hit == [0]):
                    if key not in seen and t.dest is not None and t.dest.is_local:
                        seen.add(key)
                        sub = _consume(ctx, b, t.dest.local, t.bb, depth + 1, seen)
                        if c in ("std::result::Result::<T, E>::or_else", "std::result::Result::<T, E>::or"):
                            sub = {(("fallback+" + k) if k in ("propagated", "returned", "matched") else k, d) for (k, d) in sub}
                        res |= sub
                    elif t.dest is not None and t.dest.local == 0:
                        res.add(("returned", ""))
                else:
                    res.add(("passed", c))
            if t.dest is not None and t.dest.local == local and t.dest.is_local and x != bb:
                stop = True
            if t.dest is not None and t.dest.local == 0 and hit:
                res.add(("returned", ""))
        elif t.kind == "drop":
            pass
        if not stop:
            for e in cfg.succ.get(x, []):
                work.append(e.dst)
    if ("matched", "") in res and direct_match:
        # a match that never looks at the error payload swallows the error
        err_read = False
        for blk in b.blocks:
            if blk.cleanup:
                continue
            places = []
            for s in blk.stmts:
                places.extend(o.place for o in s.rv_operands() if o.place is not None)
                rp = s.rv_place()
                if rp is not None:
                    places.append(rp)
            if blk.term.kind == "call":
                places.extend(a.place for a in blk.term.args if a.place is not None)
            for pl in places:
                if pl.local in aliases and any(isinstance(pr, dict) and pr.get("dc") in ("Err", "Break") for pr in pl.proj):
                    err_read = True
        if not err_read and not ({k for (k, _d) in res} & {"returned", "stored", "propagated"}):
            res.discard(("matched", ""))
            res.add(("swallowed", ""))
    if not res:
        res.add(("dropped", ""))
    return res


def r2_error_discipline(ctx):
    F = ctx.facts
    ms, _ = _may(ctx)
    out = []
    n = 0
    for b in F.fn_bodies():
        if is_bitflags_generated(b):
            continue
        cnt = {}
        for t in b.calls():
            if not ERR_TYPES.search(t.rty or ""):
                continue
            c = t.callee or ""
            fallible_src = os_entry_class(t) or t.resolved in ms or c in ms or c.startswith("syscalls::")
            if not fallible_src:
                continue
            if c in PRESERVE or c in PROBES or c == "std::ops::Try::branch":
                continue
            if t.dest is None or not t.dest.is_local:
                continue
            n += 1
            fk = fn_key(b)
            i = cnt.get(c, 0)
            cnt[c] = i + 1
            uses = _consume(ctx, b, t.dest.local, t.bb)
            kinds = {k for (k, _d) in uses}
            good = {"propagated", "matched", "returned", "stored"}
            key = "%s:%s:%d" % (fk, c, i)
            if t.dest.local == 0:
                out.append(holds("C10.R2", key, t.where(), "tail call: result returned"))
                continue
            if kinds & good and not (kinds - good - {"passed", "asserted"}):
                out.append(holds("C10.R2", key, t.where(), "result %s" % "/".join(sorted(kinds))))
                continue
            bad = sorted(kinds - good - {"passed"})
            tolerated = []
            fkn = _strip_closure(fk)
            for k in bad:
                kk = k.replace("fallback+", "")
                if (fkn, c, k) in RES_TABLE_N or (fkn, c, kk) in RES_TABLE_N or (k.startswith("fallback") and _fallback_ok(fk)) or k == "asserted":
                    tolerated.append(k)
            if bad and set(bad) == set(tolerated):
                why = "; ".join(RES_TABLE_N.get((fkn, c, k), RES_TABLE_N.get((fkn, c, k.replace("fallback+", "")), "constructor fallback chain / asserted (see C10.R1)")) for k in bad)
                out.append(holds("C10.R2", key, t.where(), "tolerated non-propagating use (%s): %s" % ("/".join(bad), why)))
            elif not bad and "passed" in kinds:
                out.append(holds("C10.R2", key, t.where(), "result handed to %s" % sorted(d for (k, d) in uses if k == "passed")))
            else:
                out.append(violated("C10.R2", key, t.where(),
                                    "the error of %s is not propagated: result is %s (not in the table of tolerated uses)" % (c, "/".join(sorted(kinds)))))
    # Results yielded by iterators (directory scans): Option<Result<_, E>> from Iterator::next
    item_rx = re.compile(r"^std::option::Option<std::result::Result<.*, (rustix::io::Errno|std::io::Error|error::Error|syscalls::Error)>>$")
    for b in F.fn_bodies():
        if is_bitflags_generated(b):
            continue
        k = 0
        for t in b.calls("std::iter::Iterator::next"):
            if not item_rx.search(t.rty or "") or t.dest is None or not t.dest.is_local:
                continue
            cfg = cfg_of(b)
            d = t.dest.local
            found = None
            for x in sorted(cfg.reachable(t.target) if t.target is not None else []):
                for i, s in enumerate(b.blocks[x].stmts):
                    if s.kind == "assign" and s.rv["k"] == "use" and s.lhs.is_local:
                        op = s.rv_operands()[0]
                        if op.place is not None and op.place.local == d and any(isinstance(pr, dict) and pr.get("dc") == "Some" for pr in op.place.proj):
                            found = (x, s.lhs.local)
                            break
                if found:
                    break
            if not found:
                continue
            n += 1
            uses = _consume(ctx, b, found[1], found[0])
            # the defining statement sits in block found[0]; also scan that block itself
            kinds = {kk for (kk, _d) in uses}
            key = "%s:iterator-item:%d" % (fn_key(b), k)
            k += 1
            good = {"propagated", "matched", "returned", "stored"}
            if kinds & good and not (kinds - good - {"passed"}):
                out.append(holds("C10.R2", key, t.where(), "error yielded by the iterator is %s" % "/".join(sorted(kinds))))
            else:
                out.append(violated("C10.R2", key, t.where(), "an error yielded by the iterator (%s) is %s" % ((t.rty or "")[:90], "/".join(sorted(kinds)))))
    if n < 100:
        out.append(violated("C10.R2", "site-count", "", "only %d fallible call sites classified" % n))
    return out


def _fallback_ok(fk):
    fk = re.sub(r"(::\{closure#\d+\})+$", "", fk)
    return fk in ("procfs::ProcfsHandle::new", "procfs::ProcfsHandle::new_unmasked", "procfs::ProcfsHandle::open", "utils::dir::remove_inode",
                  "procfs::ProcfsHandle::open::{closure#0}", "utils::dir::remove_inode::{closure#0}")


# ------------------------------------------------------------------------------------------ R3 LOOP
# Iterators over in-memory data are finite.  Listed: the crate's own splitters, the directory scan (audited:
# C13) and every std/core/alloc iterator except the unbounded generators and the I/O-driven ones.
UNBOUNDED_ITER = re.compile(r"std::iter::(Repeat|RepeatWith|FromFn|Successors|Cycle)\b|std::ops::RangeFrom<|std::io::|std::fs::ReadDir|std::sync::mpsc|std::net::|std::process::")
FINITE_HEAD = re.compile(r"^(&mut |&)?(std|core|alloc)::|^(&mut |&)?(utils::path::(Ancestors|RawComponents)|rustix::fs::Dir)\b")


class _FiniteIter:
    """FINITE_ITER.search(ty): is this iterator type known to terminate?"""

    @staticmethod
    def search(ty):
        ty = ty or ""
        if UNBOUNDED_ITER.search(ty):
            return None
        if FINITE_HEAD.search(ty):
            return True
        # adaptor shells over the crate's finite sources
        if "utils::path::RawComponents" in ty or "utils::path::Ancestors" in ty or "rustix::fs::Dir" in ty:
            return True
        return None


FINITE_ITER = _FiniteIter()

LOOP_TABLE = {
    ("utils::dir::remove_all", "rescan"): "outer rescan loop: leaves when a fresh directory scan is empty; every failing call inside leaves through `?`",
    ("capi::error::store_error", "search"): "random id search: leaves at the first vacant id (table far smaller than the id space)",
}


def r3_loops(ctx):
    F = ctx.facts
    T = ctx.tracer
    ms, _ = _may(ctx)
    out = []
    for b in F.fn_bodies():
        if is_bitflags_generated(b):
            continue
        cfg = cfg_of(b)
        loops = cfg.natural_loops()
        if not loops:
            continue
        fk = fn_key(b)
        for n, (h, blks) in enumerate(sorted(loops.items())):
            key = "%s:loop:%d" % (fk, n)
            where = "%s:%d" % (b.file, b.blocks[h].term.line or b.line)
            drivers = []
            for t in b.calls():
                if t.bb not in blks:
                    continue
                m = (t.callee or "").rsplit("::", 1)[-1]
                if t.callee in ("std::iter::Iterator::next", "std::iter::DoubleEndedIterator::next_back") or \
                   (m in ("pop_front", "pop_back", "pop") and "std::collections" in (t.callee or "") or (t.callee or "").startswith("std::vec::Vec")):
                    r = result_edges(b, t)
                    if r is None:
                        continue
                    none_edges = r["err"] if t.callee.startswith("std::iter") or "pop" in m else r["err"]
                    if any(e.dst not in blks for e in none_edges) or any(not (cfg.reachable(e.dst) & blks) for e in none_edges):
                        drivers.append(t)
            if drivers:
                ok = True
                desc = []
                for d in drivers:
                    ty = d.argtys[0] if d.argtys else ""
                    desc.append(ty[:70])
                    if "pop_" in (d.callee or ""):
                        continue   # queue-driven: growth bounded by the link budget (C01.R3 / C07.R1)
                    if not FINITE_ITER.search(ty):
                        ok = False
                if ok:
                    out.append(holds("C10.R3", key, where, "loop driven by a finite iterator / queue: %s" % "; ".join(desc)))
                else:
                    out.append(violated("C10.R3", key, where, "loop driven by an iterator that is not known to be finite: %s" % "; ".join(desc)))
                continue
            # counted loop (`while n > 0 { n -= 1; .. }`)
            from ..cut import counter_loop_bound
            cl = counter_loop_bound(b, T, h, blks)
            if cl is not None:
                out.append(holds("C10.R3", key, where, "counted loop: %s%s" % (cl[1], "" if cl[0] is None else " (at most %d iterations)" % cl[0])))
                continue
            # no exhaustion-driven exit: needs a table entry
            tag = None
            if fk == "utils::dir::remove_all" and any(t.bb in blks for t in b.calls("rustix::fs::Dir::read_from")):
                tag = "rescan"
            if fk == "capi::error::store_error" and any(t.bb in blks for t in b.calls("rand::Rng::gen_range")):
                tag = "search"
            if tag and (fk, tag) in LOOP_TABLE:
                # side condition for the rescan loop: every fallible call in the loop is propagated (R2) and the loop has an exit on emptiness
                out.append(holds("C10.R3", key, where, "audited: " + LOOP_TABLE[(fk, tag)]))
            elif b.path in ms:
                out.append(violated("C10.R3", key, where,
                                    "loop without a finite driver in code that performs system calls: a persistently failing/retrying call (e.g. EAGAIN) can spin it forever"))
            else:
                out.append(holds("C10.R3", key, where, "loop in code that performs no system calls (not in scope of this property)"))
    return out


# ------------------------------------------------------------------------------------------ R5 / R6
def r5_mnt_id_degradation(ctx):
    F = ctx.facts
    out = []
    b = F.body("utils::fd::fetch_mnt_id")
    cfg = cfg_of(b)
    st = list(b.calls("syscalls::statx"))
    if len(st) != 1:
        return [violated("C10.R5", "fetch_mnt_id:statx", b.where(), "expected one statx call")]
    r = result_edges(b, st[0])
    if not r or not r["err"]:
        return [unproven("C10.R5", "fetch_mnt_id:errors", st[0].where(), "cannot find the error edge of statx")]
    after = cfg.edge_targets_reachable(r["err"])
    none_blocks = set()
    for x in after:
        for s in b.blocks[x].stmts:
            if s.kind == "assign" and s.rv["k"] == "agg" and s.rv.get("adt") == "std::option::Option" and s.rv.get("variant") == "None":
                none_blocks.add(x)
    from ..cut import errno_branches
    brs = [br for br in errno_branches(b, ctx.tracer) if br["bb"] in after]
    errnos = {br["errno"] for br in brs if cfg.edge_targets_reachable(br["eq"]) & none_blocks}
    untested = bool(none_blocks) and any(nb in cfg.edge_targets_reachable(r["err"], cut_edges=[e.key() for br in brs for e in br["eq"]]) for nb in none_blocks)
    if errnos == {ENOSYS, EINVAL} and not untested:
        out.append(holds("C10.R5", "fetch_mnt_id:degradation-set", st[0].where(), "mount id degrades to 'unknown' only for ENOSYS/EINVAL; every other errno is an error"))
    else:
        out.append(violated("C10.R5", "fetch_mnt_id:degradation-set", st[0].where(),
                            "statx failures that are silently turned into 'mount id unknown': %s%s" % (sorted(map(str, errnos)), " (and untested errors)" if untested else "")))
    # ... and a degraded ('unknown') mount id must never compare equal to a known one: the comparisons fail closed
    from .c06 import r4_fail_closed, r3_open_follow
    for i in r4_fail_closed(ctx):
        i.rule = "C10.R5"
        out.append(i)
    # ... nor may a check be skipped because its input degraded: the comparison in open_follow runs on every path
    for i in r3_open_follow(ctx):
        if "link-mount-check" in i.key:
            i.rule = "C10.R5"
            out.append(i)
    return out


def r6_lazy_reentrancy(ctx):
    F = ctx.facts
    g = cg(ctx)
    out = []
    for st in sorted(F.statics):
        if st not in g.nodes:
            continue
        reach = g.reachable_from(st) - {st}
        # which statics are referenced from the initialiser's reachable set
        refs = set()
        for p in reach:
            for (a, bb) in [(p, q) for q in g.edges[p]]:
                if bb in F.statics:
                    refs.add(bb)
        if st in refs:
            out.append(violated("C10.R6", "static:%s" % st, F.statics[st]["span"], "the initialiser of %s can reach a use of itself (Lazy would deadlock/panic)" % st))
        else:
            cyc = [r for r in refs if r in g.nodes and st in {q for p2 in g.reachable_from(r) for q in g.edges[p2] if q in F.statics}]
            if cyc:
                out.append(violated("C10.R6", "static:%s" % st, F.statics[st]["span"], "initialisation cycle between lazy statics: %s <-> %s" % (st, cyc)))
            else:
                out.append(holds("C10.R6", "static:%s" % st, F.statics[st]["span"], "initialiser reaches %d bodies and statics %s; no cycle" % (len(reach), sorted(refs))))
    return out


# ------------------------------------------------------------------------------------------ R7 tolerance table
# Every place where the library looks at *which* errno a failing call returned is a place where a failure may be
# turned into success / a retry / a fallback. The set of errno values each function distinguishes is a closed table.
TOLERANCE_TABLE = {
    "<resolvers::PartialLookup<handle::Handle> as std::convert::TryInto<(handle::Handle, std::option::Option<std::path::PathBuf>)>>::try_into": ({ENOENT}, "partial lookup: only a missing component makes the remainder creatable"),
    "<std::result::Result<(), error::Error> as utils::dir::RmdirResultExt>::ignore_enoent": ({ENOENT}, "already removed by somebody else"),
    "procfs::ProcfsHandle::open": ({ENOENT}, "masked-handle retry only for ENOENT"),
    "procfs::ProcfsHandle::open_follow": ({ENOENT, ENAMETOOLONG}, "readlink probe: ENOENT = not a link (no-follow open), ENAMETOOLONG = link with unreadable body (follow); direction checked by C09.R5"),
    "resolvers::openat2::open": ({EAGAIN}, "EAGAIN: bounded retry (C10.R8)"),
    "resolvers::procfs::openat2_resolve": ({EAGAIN}, "EAGAIN: bounded retry (C10.R8)"),
    "resolvers::openat2::resolve": ({EAGAIN, ENOSYS}, "EAGAIN: bounded retry; ENOSYS: NotSupported error"),
    "resolvers::procfs::opath_resolve": ({ENOTDIR}, "O_DIRECTORY on a trailing symlink: fall through to following it"),
    "root::RootRef::mkdir_all": ({EEXIST}, "component created concurrently / already there"),
    "utils::dir::remove_all": ({ENOENT}, "subtree already removed"),
    "utils::dir::remove_inode": ({ENOTDIR}, "prefer the unlink error if the entry is not a directory"),
    "utils::fd::fetch_mnt_id": ({ENOSYS, EINVAL}, "statx without mount-id support"),
    "syscalls::RENAME_FLAGS_SUPPORTED": ({ENOSYS}, "feature probe"),
}


def _is_flag_arithmetic(ctx, b, blk):
    """The i32 a switch tests is produced only by the flag helpers of src/flags.rs (bits(), access_mode()): it is a set
    of open-flag bits and cannot hold an errno."""
    d = Operand(blk.term.raw["d"])
    if d.place is None:
        return False
    os_ = ctx.tracer.origins(b, blk.idx, len(blk.stmts), d.place)
    if not os_:
        return False
    for o in os_:
        if o.kind != "call" or not o.callee:
            return False
        try:
            cb = ctx.facts.body(o.callee)
        except Exception:
            return False
        if cb is None or cb.file != "src/flags.rs":
            return False
    return True


def _errnos_distinguished(ctx, b):
    T = ctx.tracer
    errs = set()
    for blk in b.blocks:
        if blk.cleanup:
            continue
        t = blk.term
        if t.kind == "switch" and t.raw["dty"] == "i32":
            if _is_flag_arithmetic(ctx, b, blk):
                continue               # `match flags.access_mode() { Some(O_RDONLY | O_RDWR) => .. }`: open-flag bits, not an errno
            for v in t.raw["vals"]:
                if 0 < v < 4096:       # errno values; other i32 matches (AT_FDCWD = -100, descriptor numbers) are not errnos
                    errs.add(v)
        for s in blk.stmts:
            if s.kind == "assign" and s.rv["k"] == "bin" and s.rv["op"] in ("Eq", "Ne"):
                for o in s.rv_operands():
                    if o.is_const and (o.const.get("item") or "").startswith("libc::E"):
                        errs.add(o.int_value(True))
    for t in b.calls("std::cmp::PartialEq::eq", "std::cmp::PartialEq::ne"):
        for i in (0, 1):
            for o in T.origins_of_arg(t, i):
                if o.kind != "const":
                    continue
                ty = o.op.const.get("ty", "")
                if "Errno" in ty:
                    e = errno_of_origin(o)
                    if e is not None:
                        errs.add(e)
                elif "ErrorKind" in ty or "Option<i32>" in ty:
                    raw = decode_bytes(o.const_bytes() or "")
                    if len(raw) >= 8:
                        errs.add(int.from_bytes(raw[-4:], "little"))
    return errs


def r7_tolerance_table(ctx):
    F = ctx.facts
    out = []
    agg = {}
    where = {}
    for b in F.fn_bodies():
        if is_bitflags_generated(b) or b.file.startswith("src/capi"):
            continue
        if b.file == "src/syscalls.rs" and b.kind != "closure":
            continue
        if fn_key(b).startswith(("error::", "<error::", "<syscalls::")):
            continue
        errs = _errnos_distinguished(ctx, b)
        if not errs:
            continue
        fk = re.sub(r"(::\{closure#\d+\})+$", "", fn_key(b))   # closures are keyed by their function
        agg.setdefault(fk, set()).update(errs)
        where.setdefault(fk, b.where())
    for fk, errs in sorted(agg.items()):
        key = "%s:errnos" % fk
        want = TOLERANCE_TABLE.get(fk)
        if want is None:
            out.append(violated("C10.R7", key, where[fk], "%s distinguishes errno values %s of a failing call but has no row in the table of tolerated/special-cased failures" % (fk, sorted(errs))))
        elif errs != want[0]:
            out.append(violated("C10.R7", key, where[fk], "failures special-cased in %s: %s, audited set %s (%s): an additional tolerated errno reports success for work that was not done" % (fk, sorted(errs), sorted(want[0]), want[1])))
        else:
            out.append(holds("C10.R7", key, where[fk], "special-cases exactly %s: %s" % (sorted(errs), want[1])))
    return out


# ------------------------------------------------------------------------------------------ R8 / R9
def r8_openat2_eagain(ctx):
    """openat2 reporting EAGAIN is retried a bounded number of times and then surfaces as a safety violation."""
    from ..cut import errno_branches
    F = ctx.facts
    T = ctx.tracer
    out = []
    n = 0
    for b in F.fn_bodies():
        if b.file == "src/syscalls.rs" or is_bitflags_generated(b):
            continue
        sites = list(b.calls("syscalls::openat2"))
        if not sites:
            continue
        cfg = cfg_of(b)
        loops = cfg.natural_loops()
        brs = [br for br in errno_branches(b, T) if br["errno"] == EAGAIN]
        for i, t in enumerate(sites):
            n += 1
            key = "%s:openat2:%d" % (fn_key(b), i)
            inl = [(h, blks) for h, blks in loops.items() if t.bb in blks]
            if not inl:
                out.append(violated("C10.R8", key, t.where(), "openat2 is attempted once: EAGAIN (a rename or mount anywhere on the system during the walk) is returned raw instead of being retried"))
                continue
            h, blks = min(inl, key=lambda x: len(x[1]))
            r = result_edges(b, t)
            if not r or not r["err"]:
                out.append(unproven("C10.R8", key, t.where(), "cannot find the error edge of openat2"))
                continue
            after = cfg.edge_targets_reachable(r["err"], cut_nodes=[h])
            mine = [br for br in brs if br["bb"] in after]
            if not mine:
                out.append(violated("C10.R8", key, t.where(), "the error path of openat2 does not distinguish EAGAIN"))
                continue
            ok = True
            why = []
            for br in mine:
                # the EAGAIN arm goes back to the loop header and nowhere else
                tg = cfg.edge_targets_reachable(br["eq"], cut_nodes=[h])
                back = any(e.dst == h or h in cfg.reachable(e.dst) & blks or e.dst in blks for e in br["eq"])
                leaves = [x for x in tg if x not in blks and not b.blocks[x].cleanup]
                if leaves or not back:
                    ok = False
                    why.append("the EAGAIN arm leaves the retry loop")
            # the loop is driven by a finite iterator and its exhaustion produces SafetyViolation, never Ok
            drv = [d for d in b.calls("std::iter::Iterator::next") if d.bb in blks and FINITE_ITER.search((d.argtys or [""])[0])]
            from ..cut import counter_loop_bound
            cl = counter_loop_bound(b, T, h, blks) if not drv else None
            if not drv and (cl is None or cl[0] is None or cl[0] > 1024):
                ok = False
                why.append("retry loop is not driven by a finite iterator or a constant counter")
            else:
                if drv:
                    dr = result_edges(b, drv[0])
                    none_edges = [e for e in (dr["err"] if dr else []) if True]
                    drvdesc = drv[0].argtys[0][:50]
                else:
                    # exhaustion = leaving the loop at the counter test
                    none_edges = [e for x in blks for e in cfg.succ.get(x, []) if e.dst not in blks and b.blocks[x].term.kind == "switch"
                                  and b.blocks[x].term.raw.get("dty") == "bool" and x == h]
                    if not none_edges:
                        none_edges = [e for e in cfg.succ.get(h, []) if e.dst not in blks]
                    drvdesc = cl[1]
                ex = cfg.precise_reach(none_edges, cut_nodes=[h]) if none_edges else set()
                sv = any(s.kind == "assign" and s.rv["k"] == "agg" and s.rv.get("adt") == "error::ErrorImpl" and s.rv.get("variant") == "SafetyViolation"
                         for x in ex for s in b.blocks[x].stmts)
                okret = any(s.kind == "assign" and s.lhs.local == 0 and s.rv["k"] == "agg" and s.rv.get("variant") == "Ok" for x in ex for s in b.blocks[x].stmts)
                if not sv or okret:
                    ok = False
                    why.append("exhausting the retries does not produce a SafetyViolation error")
            if ok:
                out.append(holds("C10.R8", key, t.where(), "EAGAIN -> continue in a loop over %s; exhaustion -> SafetyViolation" % drvdesc))
            else:
                out.append(violated("C10.R8", key, t.where(), "; ".join(why)))
    if n == 0:
        out.append(violated("C10.R8", "openat2:sites", "", "no openat2 call sites found outside the syscall layer (anchor drift)"))
    return out


def r9_no_unbounded_recursion(ctx):
    """Describing or handling a failed system call must not recurse without bound: every call-graph cycle
    (including call-backs through conversions/formatting) carries a termination witness."""
    from .c08 import r1_recursion_witness
    out = []
    for i in r1_recursion_witness(ctx):
        i.rule = "C10.R9"
        out.append(i)
    return out


RULES = [
    ("C10.R8", r8_openat2_eagain, 2, False),
    ("C10.R9", r9_no_unbounded_recursion, 5, False),
    ("C10.R7", r7_tolerance_table, 9, False),
    ("C10.R1", r1_panics, 20, False),
    ("C10.R2", r2_error_discipline, 100, False),
    ("C10.R3", r3_loops, 8, False),
    ("C10.R5", r5_mnt_id_degradation, 1, False),
    ("C10.R6", r6_lazy_reentrancy, 5, False),
]
