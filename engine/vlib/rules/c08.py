"""C08 — procfs lookups use bounded resources: recursion and handle creation are bounded."""
import re

from ..callgraph import CallGraph
from ..cfg import cfg_of
from ..common import *
from ..cut import bool_edges, result_edges
from ..engine import holds, unproven, violated
from .c05 import shared

EXPLANATION = ("C08: every cycle of the whole-crate call graph carries a recognised termination witness; no procfs-handle "
               "constructor call sits in a CFG loop or on a call-graph cycle; per public procfs entry point the number of "
               "constructor call sites reachable is bounded; the masked-handle retry is taken only for ENOENT on a masked "
               "handle, at most once, and falls back to the original error.")
ASSUMPTIONS = ["'ENOENT is reported for a path that does not exist' on each kind of /proc depends on the mount options of the running system and is not decided"]

PH = "procfs::ProcfsHandle"
CTORS = re.compile(r"^procfs::ProcfsHandle::(new|new_unmasked|new_fsopen|new_open_tree|new_unsafe_open|try_from_fd)$")


def cg(ctx):
    if "cg" not in ctx.cache:
        ctx.cache["cg"] = CallGraph(ctx.facts)
    return ctx.cache["cg"]


def witness(ctx, g, comp):
    """Termination witness for a call-graph cycle, or (None, reason)."""
    F = ctx.facts
    T = ctx.tracer
    cset = set(comp)
    rec_edges = [(a, b) for a in comp for b in g.edges[a] if b in cset]
    kinds = []
    for (a, b) in rec_edges:
        infos = g.edge_info[(a, b)]
        for kind, site in infos:
            if kind == "closure":
                kinds.append(("structural-closure", None))
                continue
            if kind == "unresolved-trait":
                # w3: trait call on a bare type parameter of a generic impl -> strictly smaller type
                st = site.f.get("self_ty", "")
                if re.fullmatch(r"[A-Z][A-Za-z0-9]*", st):
                    kinds.append(("w3 type-structural descent on parameter %s" % st, site))
                    continue
                return None, "unresolved trait call on %s closes a cycle" % st
            if kind == "call":
                body = site.body
                # w4: receiver is a field of the function's own receiver (data-structural descent)
                if site.args:
                    o = T.origins_of_arg(site, 0)
                    if o and all(x.kind == "param" and x.detail == 1 and x.fpath for x in o):
                        kinds.append(("w4 data-structural descent (%s)" % ".".join(o[0].fpath), site))
                        continue
                    # w1: descending recursion by a freshly opened descriptor of the caller's dirfd
                    if o and all(x.kind == "call" and x.term.callee in ("syscalls::openat",) and x.term.body is body for x in o):
                        op = o[0].term
                        d = T.origins_of_arg(op, 0)
                        if d and all(x.kind == "param" and x.detail == 1 for x in d):
                            kinds.append(("w1 descending recursion by opened subdirectory fd", site))
                            continue
                # w5: flag flip -- the call is control dependent on self.F and the receiver is proven !F
                return None, "recursive call %s in %s without a recognised descent" % (site.callee, fn_key(body))
            if kind == "fnvalue":
                # `V::method` passed as a function value where V is a bare type parameter: the same type-structural descent as w3
                ty = (site.const.get("ty") or "") if hasattr(site, "const") and site.const else ""
                m = re.search(r"\{<([A-Z][A-Za-z0-9]*) as [^>]+>::\w+\}", ty) or re.search(r"<([A-Z][A-Za-z0-9]*) as [^>]+>::\w+", ty)
                if m:
                    kinds.append(("w3 type-structural descent on parameter %s (function value)" % m.group(1), site))
                    continue
                return None, "cycle through a function value"
            if kind == "static":
                return None, "cycle through a %s reference" % kind
    return "; ".join(sorted({k for k, _ in kinds if not k.startswith("structural-closure")})) or "closure of a witnessed function", None


def guard_witness(ctx, g, comp):
    """w6: the cycle is infeasible because a member M is entered, on the cycle, only with a constant
    enum variant for one parameter, and the edge that would close the cycle sits behind a match arm of M
    (or of one of its closures) for another variant of that same parameter."""
    from ..variants import Variants
    F = ctx.facts
    V = Variants(F)
    cset = set(comp)
    dead = set()
    notes = []
    for M in comp:
        mb = g.nodes[M]
        if mb.kind == "closure":
            continue
        ins = [(kind, site) for a in comp for (kind, site) in g.edge_info.get((a, M), [])]
        if not ins or any(kind != "call" for kind, _ in ins):
            continue
        for k in range(mb.argc):
            toks = set()
            for _kind, site in ins:
                if k >= len(site.args):
                    toks.add(("unknown", "arity"))
                    continue
                toks |= V.of_operand(site.body, site.bb, len(site.body.blocks[site.bb].stmts), site.args[k])
            if len(toks) != 1:
                continue
            tok = next(iter(toks))
            if tok[0] != "variant" or tok[2] is None:
                continue
            ptoken = ("param", M, k)
            for A in [M] + [c.path for c in F.closures_of(M)]:
                if A not in cset:
                    continue
                ab = g.nodes[A]
                cuts = V.guarded_switch_cuts(ab, ptoken, tok[2])
                if not cuts:
                    continue
                cfg = cfg_of(ab)
                live = cfg.reachable(cfg.entry, cut_edges=cuts)
                for B in g.edges[A] & cset:
                    infos = g.edge_info[(A, B)]
                    if all(kind in ("call", "callback") and site.bb not in live for kind, site in infos):
                        dead.add((A, B))
                        notes.append("%s is entered on the cycle only with parameter %d = %s; the call %s -> %s is in a match arm for another variant"
                                     % (short(M), k, tok[1], short(A), short(B)))
    if not dead:
        return None
    # is the component still cyclic without the dead edges?
    adj = {a: {b for b in g.edges[a] if b in cset and (a, b) not in dead} for a in comp}
    color = {}

    def cyc(v):
        color[v] = 1
        for w in adj[v]:
            if color.get(w) == 1 or (w not in color and cyc(w)):
                return True
        color[v] = 2
        return False
    if any(v not in color and cyc(v) for v in comp):
        return None
    return "w6 infeasible cycle: " + "; ".join(sorted(set(notes)))


def r1_recursion_witness(ctx):
    g = cg(ctx)
    out = []
    comps = g.sccs()
    for comp in comps:
        key = "scc:" + "+".join(short(c) for c in comp)
        w, why = witness(ctx, g, comp)
        if not w:
            w = guard_witness(ctx, g, comp)
        b = ctx.facts.body(comp[0])
        if w:
            out.append(holds("C08.R1", key, b.where(), "termination witness: %s" % w))
        else:
            out.append(violated("C08.R1", key, b.where(), "call-graph cycle without a termination witness: %s" % why, {"members": comp}))
    out.append(holds("C08.R1", "callgraph", "", "%d bodies, %d edges, %d cycles analysed" % (len(g.nodes), sum(len(v) for v in g.edges.values()), len(comps))))
    return out


def r2_constructor_sites(ctx):
    F = ctx.facts
    g = cg(ctx)
    out = []
    cyc = set()
    for comp in g.sccs():
        cyc |= set(comp)
    n = 0
    for b in F.fn_bodies():
        if is_bitflags_generated(b):
            continue
        cfg = cfg_of(b)
        loops = cfg.natural_loops()
        inloop = set()
        for blks in loops.values():
            inloop |= blks
        cnt = {}
        for t in b.calls(CTORS):
            k = t.callee.split("::")[-1]
            i = cnt.get(k, 0)
            cnt[k] = i + 1
            n += 1
            key = "%s:%s:%d" % (fn_key(b), k, i)
            if t.bb in inloop:
                out.append(violated("C08.R2", key, t.where(), "procfs handle constructor inside a loop"))
            elif b.path in cyc:
                out.append(violated("C08.R2", key, t.where(), "procfs handle constructor on a call-graph cycle"))
            else:
                out.append(holds("C08.R2", key, t.where(), "constructor call outside loops and cycles"))
    # bounded number of constructor call sites reachable from each public procfs entry point
    for ep in (PH + "::open", PH + "::open_follow", PH + "::readlink"):
        reach = g.reachable_from(ep)
        sites = 0
        for p in reach:
            b = g.nodes[p]
            sites += sum(1 for _ in b.calls(re.compile(r"^procfs::ProcfsHandle::(new|new_unmasked)$")))
        # only cycles from which a handle constructor can be reached multiply the number of handles
        bad = set()
        for comp in g.sccs():
            below = g.reachable_from(comp)
            if any(True for q in below for _ in g.nodes[q].calls(CTORS)):
                bad |= set(comp)
        acyclic = not (reach & bad)
        if sites <= 3 and acyclic:
            out.append(holds("C08.R2", "%s:handle-budget" % ep, F.body(ep).where(), "%d handle-creating call sites reachable, none on a cycle" % sites))
        else:
            out.append(violated("C08.R2", "%s:handle-budget" % ep, F.body(ep).where(), "%d handle-creating call sites reachable (acyclic=%s)" % (sites, acyclic)))
    return out


def r3_retry_condition(ctx):
    F = ctx.facts
    T = ctx.tracer
    out = []
    sites = []
    for b in F.fn_bodies():
        if b.file != "src/procfs.rs":
            continue
        for t in b.calls(PH + "::new_unmasked"):
            sites.append((b, t))
    if not sites:
        return [violated("C08.R3", "retry:site", "", "no new_unmasked() retry found")]
    for n, (b, t) in enumerate(sites):
        cfg = cfg_of(b)
        key = "%s:new_unmasked:%d" % (fn_key(b), n)
        # dominated by  is_subset && kind == OsError(Some(ENOENT))  (==, != with the arms swapped, or a match arm)
        from ..cut import errno_branches
        brs = errno_branches(b, T)
        en = [br for br in brs if br["errno"] == ENOENT]
        conds = en
        okenoent = bool(en) and t.bb not in cfg.reachable(cfg.entry, cut_edges=[e.key() for br in en for e in br["eq"]])
        # and no other errno arm leads to the retry
        for br in brs:
            if br["errno"] != ENOENT and t.bb in cfg.edge_targets_reachable(br["eq"], cut_edges=[e.key() for b2 in en for e in b2["eq"]]):
                okenoent = False
        # is_subset test: a switch on self.is_subset dominating the call
        oksub = False
        for blk in b.blocks:
            if blk.cleanup or blk.term.kind != "switch":
                continue
            from ..facts import Operand
            d = Operand(blk.term.raw["d"])
            if d.place is None:
                continue
            os_ = T.origins(b, blk.idx, len(blk.stmts), d.place)
            if any(x.fpath[-1:] == ("is_subset",) for x in os_):
                tr = [e for e in cfg.succ.get(blk.idx, []) if e.label != ("sw", 0)]
                if t.bb not in cfg.reachable(cfg.entry, cut_edges=[e.key() for e in tr]):
                    oksub = True
        # ... and always: once the lookup on a masked handle said ENOENT, the only ways on are the retry or "not masked"
        # (a further condition that skips the retry reports an existing-but-masked path as missing)
        sub_false = []
        for blk in b.blocks:
            if blk.cleanup or blk.term.kind != "switch":
                continue
            d = Operand(blk.term.raw["d"])
            if d.place is None:
                continue
            if any(x.fpath[-1:] == ("is_subset",) for x in T.origins(b, blk.idx, len(blk.stmts), d.place)):
                sub_false.extend(e for e in cfg.succ.get(blk.idx, []) if e.label == ("sw", 0))
        always = True
        if en:
            eq_edges = [e for br in en for e in br["eq"]]
            region = cfg.edge_targets_reachable(eq_edges, cut_nodes=[t.bb], cut_edges=[e.key() for e in sub_false])
            if set(region) & set(cfg.return_blocks()):
                always = False
        if conds and okenoent and oksub and not always:
            out.append(violated("C08.R3", key, t.where(), "ENOENT on a masked handle does not always lead to the retry: a further condition lets the masked handle's ENOENT through, so a path hidden by the masking is reported as missing"))
        elif conds and okenoent and oksub:
            out.append(holds("C08.R3", key, t.where(), "retry only for ENOENT on a masked handle"))
        else:
            out.append(violated("C08.R3", key, t.where(), "retry condition: kind-test=%s ENOENT=%s is_subset-test=%s" % (bool(conds), okenoent, oksub)))
        # failure to build the new handle returns the original error: .or(Err(err))
        okor = False
        for c in b.calls("std::result::Result::<T, E>::or"):
            o0 = T.origins_of_arg(c, 0)
            if any(x.kind == "call" and x.term is t for x in o0):
                o1 = T.origins_of_arg(c, 1)
                if any(x.kind == "agg" and x.detail == "std::result::Result::Err" for x in o1):
                    okor = True
        if not okor:
            # explicit form: on the failure edge of new_unmasked() the function returns Err(<the lookup's own error>)
            from ..cut import failure_edges
            fe = failure_edges(b, T, t)
            if fe:
                reach = cfg.precise_reach(fe[0])
                rets = []
                for x in reach:
                    xb = b.blocks[x]
                    for i, s_ in enumerate(xb.stmts):
                        if s_.kind == "assign" and s_.rv["k"] == "agg" and s_.rv.get("variant") == "Err" and s_.rv.get("adt") == "std::result::Result":
                            ops = s_.rv_operands()
                            if ops and ops[0].place is not None:
                                rets.append(T.origins_of_operand(b, x, i, ops[0]))
                    tt = xb.term
                    if tt.kind == "call" and tt.callee == "std::ops::FromResidual::from_residual":
                        rets.append(T.origins_of_arg(tt, 0))
                def from_retry(os_):
                    return any(o.kind == "call" and o.term is t for o in os_)
                if rets and not any(from_retry(os_) for os_ in rets):
                    okor = True
        (out.append(holds("C08.R3", key + ":original-error", t.where(), "handle creation failure -> the original error")) if okor else
         out.append(violated("C08.R3", key + ":original-error", t.where(), "failure to create the unmasked handle does not fall back to the original error")))
    return out


def r4_true_errors(ctx):
    """'reports true errors': on the lookup path of ProcfsHandle (open, open_noretry, readlink and the closures that
    post-process their results) no errno is fabricated -- what the resolver/kernel reported is what the caller sees
    (ENOENT for a missing path, also after the masked-handle retry)."""
    F = ctx.facts
    out = []
    # the procfs resolver backend is chosen by the same probe: a denied openat2 must select the emulated resolver,
    # not turn every lookup (of a missing or an existing path) into that denial
    from .c04 import r8_backend_probe
    out.extend(r8_backend_probe(ctx, "C08.R4"))
    # ... and in the resolvers below them a failing system call is reported as what it was
    from .c04 import error_swaps
    out.extend(error_swaps(ctx, "C08.R4", lambda b: b.file in ("src/resolvers/procfs.rs", "src/procfs.rs")))
    # ... and the errno of the kernel resolver's raw openat2 call is read before anything else can overwrite it
    from .c16 import r8_errno_is_the_failing_calls
    for i in r8_errno_is_the_failing_calls(ctx):
        i.rule = "C08.R4"
        out.append(i)
    for fn in (PH + "::open", PH + "::open_noretry", PH + "::readlink"):
        if not F.has(fn):
            if fn.endswith("open_noretry"):
                continue
            out.append(violated("C08.R4", "%s:present" % short(fn), "", "%s not found" % fn))
            continue
        bodies = [F.body(fn)] + F.closures_of(fn)
        bad = []
        for cb in bodies:
            for t in cb.calls("std::io::Error::from_raw_os_error", "rustix::io::Errno::from_raw_os_error", "std::io::Error::from"):
                bad.append(t)
        key = "%s:no-fabricated-errno" % short(fn)
        if bad:
            out.append(violated("C08.R4", key, bad[0].where(), "the procfs lookup path fabricates an errno (%s): a missing path is no longer reported with the error the lookup produced" % bad[0].callee))
        else:
            out.append(holds("C08.R4", key, F.body(fn).where(), "errors of the lookup are passed on as produced (%d bodies)" % len(bodies)))
    return out


def r5_retry_handle_is_unmasked(ctx):
    """The ENOENT retry only tells the truth if the handle it retries on really shows everything the caller may see:
    new_unmasked asks new_fsopen for an unmasked instance (constant false), and with that argument new_fsopen sets no
    mount option at all (hidepid=/subset= are what make existing paths look missing)."""
    F = ctx.facts
    T = ctx.tracer
    out = []
    nu, nf = PH + "::new_unmasked", PH + "::new_fsopen"
    for fn in (nu, nf):
        if not F.has(fn):
            return [violated("C08.R5", "%s:present" % short(fn), "", "%s not found" % fn)]
    bodies = [F.body(nu)] + F.closures_of(nu)
    calls = [t for cb in bodies for t in cb.calls(nf)]
    if not calls:
        out.append(violated("C08.R5", "new_unmasked:fsopen-arg", F.body(nu).where(), "new_unmasked no longer tries a private procfs instance (new_fsopen)"))
    for t in calls:
        o = T.origins_of_arg(t, 0)
        if o and all(x.kind == "const" and x.const_int() == 0 for x in o):
            out.append(holds("C08.R5", "new_unmasked:fsopen-arg", t.where(), "new_fsopen(false)"))
        elif o and F.body(nf).local_tys[1] != "bool" and len({repr(x) for x in o}) == 1:
            # not a bool any more: what the constant means is decided by specialising new_fsopen on it (below)
            out.append(holds("C08.R5", "new_unmasked:fsopen-arg", t.where(), "new_fsopen(%s)" % (o[0].detail or o[0].const_int())))
        else:
            out.append(violated("C08.R5", "new_unmasked:fsopen-arg", t.where(), "new_unmasked does not ask for an unmasked instance: %r" % o))
    # the retry handle is first of all a *fresh private* instance (a clone of the host's /proc inherits the host's
    # hidepid=/subset= options): constructor preference order of new_unmasked (C06.R6)
    from .c06 import r6_constructor_order
    for i in r6_constructor_order(ctx):
        if "new_unmasked" in i.key:
            i.rule = "C08.R5"
            out.append(i)
    b = F.body(nf)
    cfg = cfg_of(b)
    # specialise new_fsopen on what new_unmasked passes: `false`, or a unit variant of an enum that replaced the bool
    assume = None
    if b.argc == 1 and b.local_tys[1] == "bool" and calls:
        o = T.origins_of_arg(calls[0], 0)
        if o and all(x.kind == "const" and x.const_int() is not None for x in o) and len({x.const_int() for x in o}) == 1:
            assume = {1: ("bool", o[0].const_int())}
    elif b.argc == 1 and calls:
        ty = b.local_tys[1]
        adt = F.adts.get(ty)
        o = T.origins_of_arg(calls[0], 0)
        vis = set()
        for x in o:
            if x.kind == "agg" and adt and (x.detail or "").startswith(ty + "::"):
                names = [v["name"] for v in adt["variants"]]
                nm = x.detail[len(ty) + 2:]
                if nm in names:
                    vis.add(names.index(nm))
            elif x.kind == "const" and x.const_int() is not None:
                vis.add(x.const_int())
        if adt and len(vis) == 1:
            assume = {1: (ty, vis.pop())}
    if assume is None:
        out.append(unproven("C08.R5", "new_fsopen:unmasked-sets-no-option", b.where(), "cannot specialise new_fsopen on the argument new_unmasked passes (parameters %s)" % b.local_tys[1:b.argc + 1]))
        return out
    live = set(cfg.reach_assuming(assume))
    allc = [t for cb in [b] + F.closures_of(nf) for t in cb.calls("syscalls::fsconfig_set_string", "syscalls::fsconfig_set_flag", "rustix::mount::fsconfig_set_string", "rustix::mount::fsconfig_set_flag")]
    masked = [t for t in allc if t.body is not b or t.bb in live]
    if masked:
        out.append(violated("C08.R5", "new_fsopen:unmasked-sets-no-option", masked[0].where(),
                            "new_fsopen(false) -- the handle the ENOENT retry runs on -- still sets a mount option (%d call(s)): paths hidden by it keep reporting ENOENT although they exist" % len(masked)))
    elif not allc:
        out.append(holds("C08.R5", "new_fsopen:unmasked-sets-no-option", b.where(), "new_fsopen sets no mount options at all"))
    else:
        out.append(holds("C08.R5", "new_fsopen:unmasked-sets-no-option", b.where(), "all %d option-setting calls are unreachable when subset == false" % len(allc)))
    return out


RULES = [
    ("C08.R1", r1_recursion_witness, 4, False),
    ("C08.R2", r2_constructor_sites, 8, False),
    ("C08.R4", r4_true_errors, 2, False),
    ("C08.R3", r3_retry_condition, 2, False),
    ("C08.R5", r5_retry_handle_is_unmasked, 2, False),
]
