"""C05 — only single, non-followed components are handed to the kernel."""
import re

from ..bits import Bits, FlagIPA, Val, compose
from ..common import *
from ..dataflow import Tracer
from ..engine import holds, unproven, violated
from ..pathprov import PathProv

EXPLANATION = ("C05: who-may-call (OS entries only in the syscall layer + exemption table), flag-bit abstract "
               "interpretation at every fd-creating sink, provenance classification of every dirfd/path argument "
               "of the 42 wrapper call sites.")
ASSUMPTIONS = [
    "rustix::fs::openat/mkdirat/... pass their flag arguments to the kernel unchanged (rustix source read)",
    "rustix::fs::Dir::read_from opens '.' relative to the given fd with O_CLOEXEC|O_NOFOLLOW-irrelevant ('.' is not a link)",
    "BorrowedFd::try_clone_to_owned uses F_DUPFD_CLOEXEC",
]


def shared(ctx):
    if "ipa" not in ctx.cache:
        ctx.cache["ipa"] = FlagIPA(ctx.facts, skip=is_bitflags_generated)
    if "pp" not in ctx.cache:
        ctx.cache["pp"] = PathProv(ctx.facts, ctx.tracer)
    return ctx.cache["ipa"], ctx.cache["pp"]


def ordinal_keys(items):
    """[(fnkey, callee, term)] -> [(key, term)] with ordinals for repeated (fn, callee)."""
    cnt = {}
    tot = {}
    for f, c, t in items:
        tot[(f, c)] = tot.get((f, c), 0) + 1
    out = []
    for f, c, t in items:
        n = cnt.get((f, c), 0)
        cnt[(f, c)] = n + 1
        k = "%s:%s" % (f, c)
        if tot[(f, c)] > 1:
            k += ":%d" % n
        out.append((k, t))
    return out


# ----------------------------------------------------------------------------------------
# R1 layering: OS entries appear only inside syscalls.rs, plus an explicit table
# ----------------------------------------------------------------------------------------
R1_ALLOWED_OUTSIDE = {
    # (function, callee) : reason
    ("procfs::ProcfsHandle::try_from_fd::{closure#0}", "rustix::fs::accessat"): "masking probe on the handle's own fd, constant names, AT_SYMLINK_NOFOLLOW",
    ("procfs::ProcfsBase::into_path::{closure#0}", "rustix::fs::statat"): "existence probe of the constant /proc/<thread-self candidate> paths, AT_SYMLINK_NOFOLLOW, result only is_ok(); must not use a wrapper (it runs while a wrapper describes its own failure)",
    ("utils::dir::remove_all", "rustix::fs::Dir::read_from"): "directory scan of the already opened subdirectory fd",
    ("<Fd as utils::fd::FdExt>::as_unsafe_path_unchecked", "std::fs::read_link"): "diagnostics only (FrozenFd Display)",
    ("handle::HandleRef::try_clone", "rustix::fd::BorrowedFd::<'_>::try_clone_to_owned"): "F_DUPFD_CLOEXEC",
    ("root::RootRef::try_clone", "rustix::fd::BorrowedFd::<'_>::try_clone_to_owned"): "F_DUPFD_CLOEXEC",
    ("resolvers::opath::imp::do_resolve", "rustix::fd::BorrowedFd::<'_>::try_clone_to_owned"): "F_DUPFD_CLOEXEC of the root",
    ("resolvers::procfs::opath_resolve", "rustix::fd::BorrowedFd::<'_>::try_clone_to_owned"): "F_DUPFD_CLOEXEC of the procfs base",
    ("utils::sysctl::sysctl_read_line", "std::io::BufRead::read_line"): "read(2) on the sysctl file opened through ProcfsHandle::open",
    ("capi::error::store_error", "rand::thread_rng"): "random error id (getrandom), no path",
}


def r1_layering(ctx):
    out = []
    items = []
    for b in ctx.facts.fn_bodies():
        if is_bitflags_generated(b):
            continue
        for t in b.calls(cleanup=True):
            cls = os_entry_class(t)
            if cls is None:
                continue
            items.append((fn_key(b), t.callee, t))
    for key, t in ordinal_keys(items):
        b = t.body
        fk = fn_key(b)
        if b.file == "src/syscalls.rs":
            out.append(holds("C05.R1", key, t.where(), "OS entry inside the syscall layer"))
            continue
        reason = R1_ALLOWED_OUTSIDE.get((fk, t.callee))
        if reason is None:
            # keyed by the enclosing function: a closure rewritten as straight-line code (or the reverse) is the same site
            fkn = re.sub(r"(::\{closure#\d+\})+$", "", fk)
            for (f2, c2), r2 in R1_ALLOWED_OUTSIDE.items():
                if c2 == t.callee and re.sub(r"(::\{closure#\d+\})+$", "", f2) == fkn:
                    reason = r2
        if reason is None:
            out.append(violated("C05.R1", key, t.where(),
                                "raw OS call %s outside the syscall layer (src/syscalls.rs) and not in the exemption table" % t.callee))
            continue
        # side conditions
        if t.callee in ("rustix::fs::accessat", "rustix::fs::statat"):
            ai = 3 if t.callee.endswith("accessat") else 2
            fl = t.args[ai].int_value() if t.args[ai].is_const else None
            if fl is None:
                ipa, _ = shared(ctx)
                bits = ipa.bits_of(b.path) or _local_bits(ctx, b.path)
                v = bits.arg_value(t, ai) if bits else None
                fl = v.must_set if v is not None else 0
            if not (fl & AT_SYMLINK_NOFOLLOW):
                out.append(violated("C05.R1", key, t.where(), "%s probe without AT_SYMLINK_NOFOLLOW" % t.callee.rsplit("::", 1)[-1]))
                continue
        out.append(holds("C05.R1", key, t.where(), "exempt: " + reason))
    return out


# ----------------------------------------------------------------------------------------
# R2 forced open flags at the raw sinks
# ----------------------------------------------------------------------------------------
def _local_bits(ctx, path):
    k = ("lb", path)
    if k not in ctx.cache:
        ctx.cache[k] = Bits(ctx.facts.body(path), param_src=True)
    return ctx.cache[k]


def r2_forced_flags(ctx, cloexec_only=False):
    F = ctx.facts
    ipa, _ = shared(ctx)
    out = []
    # (a) every rustix::fs::openat call: O_CLOEXEC|O_NOCTTY surely set
    items = []
    for b in F.fn_bodies():
        for t in b.calls("rustix::fs::openat", "rustix::fs::open", "rustix::fs::openat2"):
            items.append((fn_key(b), t.callee, t))
    for key, t in ordinal_keys(items):
        bits = _local_bits(ctx, t.body.path)
        v = bits.arg_value(t, 2)
        need = O_CLOEXEC if cloexec_only else (O_CLOEXEC | O_NOCTTY)
        if v is not None and v.has(need):
            out.append(holds("C05.R2a", key, t.where(), "open flags must-set %#x" % v.must_set))
        else:
            out.append(violated("C05.R2a", key, t.where(), "raw open without forced O_CLOEXEC|O_NOCTTY (must-set %s)" % (hex(v.must_set) if v else "?")))
    # (b) syscalls::openat forces O_NOFOLLOW and keeps the caller's other bits
    b = F.body("syscalls::openat")
    bits = _local_bits(ctx, b.path)
    n = 0
    for t in b.calls("syscalls::openat_follow"):
        n += 1
        v = bits.arg_value(t, 2)
        if v is not None and v.has(O_NOFOLLOW):
            out.append(holds("C05.R2b", "syscalls::openat:syscalls::openat_follow", t.where(), "O_NOFOLLOW forced"))
        else:
            out.append(violated("C05.R2b", "syscalls::openat:syscalls::openat_follow", t.where(), "syscalls::openat does not force O_NOFOLLOW"))
    # ... or the no-follow wrapper reaches the raw open itself: then all three forced bits must be set there
    for t in b.calls("rustix::fs::openat"):
        n += 1
        v = bits.arg_value(t, 2)
        need = O_NOFOLLOW | (O_CLOEXEC if cloexec_only else (O_CLOEXEC | O_NOCTTY))
        if v is not None and v.has(need):
            out.append(holds("C05.R2b", "syscalls::openat:syscalls::openat_follow", t.where(), "O_NOFOLLOW|O_CLOEXEC|O_NOCTTY forced at the raw open of the no-follow wrapper"))
        else:
            out.append(violated("C05.R2b", "syscalls::openat:syscalls::openat_follow", t.where(), "syscalls::openat does not force O_NOFOLLOW (must-set %s)" % (hex(v.must_set) if v else "?")))
    if n == 0:
        out.append(violated("C05.R2b", "syscalls::openat:no-tail-call", b.where(), "syscalls::openat neither calls openat_follow nor the raw open"))
    # (c) who may call the following variant
    allowed = {"syscalls::openat", "procfs::ProcfsHandle::open_follow"}
    for cb in F.fn_bodies():
        for t in cb.calls("syscalls::openat_follow"):
            fk = fn_key(cb)
            if fk in allowed:
                out.append(holds("C05.R2c", "%s:syscalls::openat_follow" % fk, t.where(), "allowed caller of the link-following open"))
            else:
                out.append(violated("C05.R2c", "%s:syscalls::openat_follow" % fk, t.where(), "new caller of the link-following open wrapper"))
    # (d) openat2: O_CLOEXEC and (O_NOCTTY or O_PATH or O_DIRECTORY or constant path ".")
    wb = F.body("syscalls::openat2")
    wbits = _local_bits(ctx, wb.path)
    raw = list(wb.calls("libc::syscall"))
    if len(raw) != 1 or raw[0].args[0].int_value() != SYS_openat2:
        out.append(violated("C05.R2d", "syscalls::openat2:libc::syscall", wb.where(), "expected exactly one libc::syscall(SYS_openat2) in syscalls::openat2"))
    else:
        w = wbits.arg_value(raw[0], 3, ("flags",))
        wres = wbits.arg_value(raw[0], 3, ("resolve",))
        src = ("param", wb.path, 3, "flags")
        # the wrapper must pass `resolve` unchanged
        if wres is None or wres.keep_of(("param", wb.path, 3, "resolve")) != (1 << 64) - 1:
            out.append(violated("C05.R2d", "syscalls::openat2:resolve-passthrough", raw[0].where(), "openat2 wrapper modifies how.resolve"))
        else:
            out.append(holds("C05.R2d", "syscalls::openat2:resolve-passthrough", raw[0].where(), "how.resolve reaches the kernel unchanged"))
        items = []
        for cb in F.fn_bodies():
            for t in cb.calls("syscalls::openat2"):
                items.append((fn_key(cb), t.callee, t))
        for key, t in ordinal_keys(items):
            cbits = ipa.bits_of(t.body.path)
            if cbits is None:
                out.append(holds("C05.R2d", key, t.where(), "caller unreachable"))
                continue
            v = cbits.arg_value(t, 2, ("flags",))
            if v is None:
                out.append(holds("C05.R2d", key, t.where(), "call site unreachable"))
                continue
            # re-base the wrapper's symbolic parameter on field `flags`
            fin = compose(v, _rebase(w, src), src)
            pathc = t.args[1].bytes_value() if t.args[1].is_const else None
            if pathc is None:
                po = ctx.tracer.origins_of_arg(t, 1)
                if len(po) == 1 and po[0].kind == "const":
                    pathc = po[0].const_bytes()
            bad = []
            for a in (fin.alts if fin else []):
                if not a.has(O_CLOEXEC):
                    bad.append("O_CLOEXEC missing (%r)" % a)
                elif not cloexec_only and not (a.has(O_NOCTTY) or a.has(O_PATH) or a.has(O_DIRECTORY) or pathc == "."):
                    bad.append("neither O_NOCTTY nor O_PATH/O_DIRECTORY (%r)" % a)
            if bad:
                out.append(violated("C05.R2d", key, t.where(), "openat2 flags at the kernel boundary: " + bad[0], bad))
            else:
                out.append(holds("C05.R2d", key, t.where(), "O_CLOEXEC and O_NOCTTY|O_PATH|O_DIRECTORY|'.' on every disjunct"))
    # (e) other fd-creating sinks
    for (wr, argi, need, nm) in (("syscalls::fsopen", 1, FSOPEN_CLOEXEC, "FSOPEN_CLOEXEC"),
                                 ("syscalls::fsmount", 1, FSMOUNT_CLOEXEC, "FSMOUNT_CLOEXEC"),
                                 ("syscalls::open_tree", 2, OPEN_TREE_CLOEXEC, "OPEN_TREE_CLOEXEC")):
        # wrapper passes flags unchanged
        wbody = F.body(wr)
        lb = _local_bits(ctx, wr)
        rawc = [t for t in wbody.calls(re.compile(r"^rustix::mount::"))]
        okpass = False
        for t in rawc:
            for i in range(len(t.args)):
                v = lb.arg_value(t, i)
                if v is not None and v.keep_of(("param", wr, argi + 1)) == (1 << 64) - 1:
                    okpass = True
        adds = 0
        for t in rawc:
            for i in range(len(t.args)):
                v = lb.arg_value(t, i)
                if v is not None and ("param", wr, argi + 1) in v.srcs():
                    adds |= v.must_set
        items = []
        for cb in F.fn_bodies():
            for t in cb.calls(wr):
                items.append((fn_key(cb), wr, t))
        for key, t in ordinal_keys(items):
            cbits = ipa.bits_of(t.body.path)
            v = cbits.arg_value(t, argi) if cbits else None
            if v is None:
                continue
            if v.has(need) or (adds & need) == need:
                out.append(holds("C05.R2e", key, t.where(), "%s set" % nm))
            else:
                out.append(violated("C05.R2e", key, t.where(), "%s not set on a descriptor-creating call (must-set %#x)" % (nm, v.must_set)))
        if not okpass and not adds:
            out.append(unproven("C05.R2e", "%s:passthrough" % wr, wbody.where(), "cannot show the wrapper passes its flags to rustix"))
    return out


def _rebase(w, src):
    return w


# ----------------------------------------------------------------------------------------
# R3 / R6 / R7: shape of every path-taking wrapper call site
# ----------------------------------------------------------------------------------------
PATHARGS = {
    "openat": [(0, 1)], "openat_follow": [(0, 1)], "openat2": [(0, 1)], "readlinkat": [(0, 1)], "mkdirat": [(0, 1)],
    "mknodat": [(0, 1)], "symlinkat": [(1, 2)], "unlinkat": [(0, 1)], "fstatat": [(0, 1)], "statx": [(0, 1)],
    "open_tree": [(0, 1)], "linkat": [(0, 1), (2, 3)], "renameat2": [(0, 1), (2, 3)], "renameat": [(0, 1), (2, 3)],
}
NOPATH = {"fstatfs", "fsopen", "fsconfig_set_string", "fsconfig_create", "fsmount", "gettid", "geteuid"}

# (function, wrapper) -> (required fd classes, required path classes, reason)
R6_EXEMPT = {
    ("root::Root::open", "openat"): ({"cwd"}, {"api-param"}, "the caller's root path, by API contract"),
    ("procfs::ProcfsHandle::new_unsafe_open", "openat"): ({"cwd"}, {"const:/proc"}, "constant /proc bootstrap"),
    ("procfs::ProcfsHandle::new_open_tree", "open_tree"): ({"cwd"}, {"const:/proc"}, "constant /proc bootstrap"),
    ("procfs::ProcfsBase::into_path::{closure#0}", "fstatat"): (None, None, "existence probe of thread-self candidates, result used only by is_ok()"),
    ("syscalls::OPENAT2_IS_SUPPORTED::{closure#0}", "openat2"): ({"cwd"}, {"const:."}, "feature probe"),
    ("syscalls::RENAME_FLAGS_SUPPORTED::{closure#0}", "renameat2"): ({"cwd"}, {"const:."}, "feature probe (EBUSY)"),
}


def _cls(s):
    return {c for (c, _p) in s}


def wrapper_sites(F, include_syscalls=True):
    items = []
    for b in F.fn_bodies():
        if is_bitflags_generated(b):
            continue
        if b.file == "src/syscalls.rs" and b.kind != "closure":
            # wrappers calling each other (openat -> openat_follow, renameat2 -> renameat) are covered by R2/R5
            continue
        for t in b.calls(RX_WRAPPER):
            items.append((fn_key(b), t.callee.split("::")[1], t))
    return ordinal_keys(items)


def r3_site_shapes(ctx):
    F = ctx.facts
    ipa, pp = shared(ctx)
    out = []
    for key, t in wrapper_sites(F):
        w = t.callee.split("::")[1]
        fk = fn_key(t.body)
        if w in NOPATH:
            if w == "fsopen":
                nm = t.args[0].bytes_value() if t.args[0].is_const else None
                if nm != "proc":
                    out.append(violated("C05.R3", key, t.where(), "fsopen of a filesystem other than the constant 'proc'"))
                    continue
            out.append(holds("C05.R3", key, t.where(), "no path argument"))
            continue
        pairs = PATHARGS.get(w)
        if pairs is None:
            out.append(unproven("C05.R3", key, t.where(), "wrapper %s not in the argument table" % w))
            continue
        ex = R6_EXEMPT.get((fk, w))
        if ex is None:
            # keyed by the enclosing function: a closure rewritten as a local fn / straight-line code is the same site
            fkn = re.sub(r"(::\{closure#\d+\})+$", "", fk)
            for (f2, w2), e2 in R6_EXEMPT.items():
                if w2 == w and re.sub(r"(::\{closure#\d+\})+$", "", f2) == fkn and f2 != fkn:
                    ex = e2
        verdicts = []
        for (di, pi) in pairs:
            fdc = pp.classify_fd_arg(t, di)
            pc = pp.classify_path_arg(t, pi)
            fcls, pcls = _cls(fdc), _cls(pc)
            if ex is not None:
                needfd, needp, why = ex
                if needfd is not None and fcls != needfd:
                    verdicts.append(("violated", "exempt site changed its dirfd: %s" % sorted(fcls)))
                elif needp is not None and not pcls <= (needp | {"api-param"} if "api-param" in needp else needp):
                    verdicts.append(("violated", "exempt site changed its path: %s" % sorted(pcls)))
                else:
                    verdicts.append(("holds", "exempt (R6): " + why))
                continue
            if "cwd" in fcls:
                verdicts.append(("violated", "AT_FDCWD used as dirfd outside the exemption table (path %s)" % sorted(pcls)))
                continue
            if w == "openat2":
                verdicts.append(("holds", "multi-component lookup confined by RESOLVE_* (R4); dirfd %s" % sorted(fcls)))
                continue
            unknown_p = [p for p in pc if p[0] in ("unknown",)]
            multi = [p for p in pc if p[0] in ("multi", "api-param") or (p[0].startswith("const:") and ("/" in p[0][6:]))]
            if multi:
                verdicts.append(("violated", "multi-component or caller-supplied path reaches %s: %s" % (w, sorted(multi))))
            elif unknown_p:
                verdicts.append(("unproven", "path origin not classified: %s" % sorted(unknown_p)))
            elif not pcls:
                verdicts.append(("unproven", "no path origin found"))
            else:
                verdicts.append(("holds", "path %s dirfd %s" % (sorted(pcls), sorted(fcls))))
        worst = "holds"
        msgs = []
        for v, m in verdicts:
            msgs.append(m)
            if v == "violated" or (v == "unproven" and worst == "holds"):
                worst = v
        mk = {"holds": holds, "violated": violated, "unproven": unproven}[worst]
        out.append(mk("C05.R3", key, t.where(), "; ".join(msgs)))
    # probes inside syscalls.rs closures are included above via wrapper_sites (closures of statics)
    return out


# ----------------------------------------------------------------------------------------
# R4 RESOLVE masks at the openat2 call sites
# ----------------------------------------------------------------------------------------
R4_MASKS = {
    "resolvers::openat2::open": RESOLVE_IN_ROOT | RESOLVE_NO_MAGICLINKS,
    "resolvers::openat2::resolve": RESOLVE_IN_ROOT | RESOLVE_NO_MAGICLINKS,
    "resolvers::procfs::openat2_resolve": RESOLVE_BENEATH | RESOLVE_NO_XDEV | RESOLVE_NO_MAGICLINKS,
}


def r4_resolve_masks(ctx):
    F = ctx.facts
    ipa, pp = shared(ctx)
    out = []
    for b in F.fn_bodies():
        for t in b.calls("syscalls::openat2"):
            fk = fn_key(b)
            key = "%s:openat2" % fk
            bits = ipa.bits_of(b.path)
            v = bits.arg_value(t, 2, ("resolve",)) if bits else None
            if fk in R4_MASKS:
                need = R4_MASKS[fk]
                if v is not None and v.has(need):
                    out.append(holds("C05.R4", key, t.where(), "how.resolve must-set %#x ⊇ %#x" % (v.must_set, need)))
                else:
                    out.append(violated("C05.R4", key, t.where(), "how.resolve must-set %s lacks %#x" % (hex(v.must_set) if v else "?", need & ~(v.must_set if v else 0))))
            elif fk == "syscalls::OPENAT2_IS_SUPPORTED::{closure#0}":
                out.append(holds("C05.R4", key, t.where(), "feature probe on '.'"))
            else:
                # any other multi-component lookup must be confined one way or the other
                a = RESOLVE_IN_ROOT | RESOLVE_NO_MAGICLINKS
                c = RESOLVE_BENEATH | RESOLVE_NO_MAGICLINKS
                if v is not None and (v.has(a) or v.has(c)):
                    out.append(holds("C05.R4", key, t.where(), "confined openat2 (new site)"))
                else:
                    out.append(violated("C05.R4", key, t.where(), "openat2 call site without a confining RESOLVE mask"))
    return out


# ----------------------------------------------------------------------------------------
# R5 stat / link / unlink flag discipline
# ----------------------------------------------------------------------------------------
def r5_at_flags(ctx):
    F = ctx.facts
    ipa, _ = shared(ctx)
    out = []
    for (fn, callee, argi) in (("syscalls::fstatat", "rustix::fs::statat", 2), ("syscalls::statx", "rustix::fs::statx", 2)):
        b = F.body(fn)
        lb = _local_bits(ctx, fn)
        n = 0
        for t in b.calls(callee):
            n += 1
            v = lb.arg_value(t, argi)
            need = AT_SYMLINK_NOFOLLOW | AT_NO_AUTOMOUNT
            if v is not None and v.has(need):
                out.append(holds("C05.R5", "%s:%s" % (fn, callee), t.where(), "AT flags must-set %#x" % v.must_set))
            else:
                out.append(violated("C05.R5", "%s:%s" % (fn, callee), t.where(), "stat wrapper without AT_SYMLINK_NOFOLLOW|AT_NO_AUTOMOUNT"))
        if n == 0:
            out.append(violated("C05.R5", "%s:%s" % (fn, callee), b.where(), "stat wrapper no longer calls %s" % callee))
    # stat-family calls anywhere else in the syscall layer must also be no-follow
    for b in F.fn_bodies():
        for t in b.calls(re.compile(r"^rustix::fs::(statat|statx|lstat|stat|accessat|chownat|chmodat|utimensat)$")):
            if fn_key(b) in ("syscalls::fstatat", "syscalls::statx") and t.callee in ("rustix::fs::statat", "rustix::fs::statx"):
                continue
            lb = _local_bits(ctx, b.path)
            ai = {"rustix::fs::accessat": 3}.get(t.callee, 2)
            v = lb.arg_value(t, ai) if ai < len(t.args) else None
            key = "%s:%s" % (fn_key(b), t.callee)
            if v is not None and v.has(AT_SYMLINK_NOFOLLOW):
                out.append(holds("C05.R5", key, t.where(), "AT_SYMLINK_NOFOLLOW set"))
            else:
                out.append(violated("C05.R5", key, t.where(), "metadata call that may follow a trailing symlink"))
    # linkat: flags must not contain AT_SYMLINK_FOLLOW ; unlinkat flags in {0, AT_REMOVEDIR}
    for key, t in wrapper_sites(F):
        w = t.callee.split("::")[1]
        if w == "linkat":
            bits = ipa.bits_of(t.body.path)
            v = bits.arg_value(t, 4) if bits else None
            if v is not None and v.all(lambda a: bool(a.c & AT_SYMLINK_FOLLOW)):
                out.append(holds("C05.R5", key, t.where(), "linkat without AT_SYMLINK_FOLLOW"))
            else:
                out.append(violated("C05.R5", key, t.where(), "linkat flags may contain AT_SYMLINK_FOLLOW"))
        if w == "unlinkat":
            bits = ipa.bits_of(t.body.path)
            v = bits.arg_value(t, 2) if bits else None
            ok = v is not None and v.all(lambda a: (a.s | a.c) == (1 << 64) - 1 and a.s in (0, AT_REMOVEDIR))
            if ok:
                out.append(holds("C05.R5", key, t.where(), "unlinkat flags ∈ {0, AT_REMOVEDIR}"))
            else:
                out.append(violated("C05.R5", key, t.where(), "unlinkat flags are not one of {0, AT_REMOVEDIR}: %r" % (v,)))
    # the wrappers pass their AT flags unchanged
    for (fn, callee, pi, ai) in (("syscalls::linkat", "rustix::fs::linkat", 5, 4), ("syscalls::unlinkat", "rustix::fs::unlinkat", 3, 2)):
        b = F.body(fn)
        lb = _local_bits(ctx, fn)
        for t in b.calls(callee):
            v = lb.arg_value(t, ai)
            if v is not None and v.keep_of(("param", fn, pi)) == (1 << 64) - 1:
                out.append(holds("C05.R5", "%s:passthrough" % fn, t.where(), "flags passed unchanged"))
            else:
                out.append(violated("C05.R5", "%s:passthrough" % fn, t.where(), "wrapper alters the AT flags: %r" % (v,)))
    return out


# ----------------------------------------------------------------------------------------
# R7 followed links: the only opens whose final flags lack O_NOFOLLOW
# ----------------------------------------------------------------------------------------
def r7_followed(ctx):
    F = ctx.facts
    ipa, pp = shared(ctx)
    out = []
    b = F.body("procfs::ProcfsHandle::open_follow")
    sinks = list(b.calls("syscalls::openat_follow"))
    if len(sinks) != 1:
        out.append(violated("C05.R7", "procfs::ProcfsHandle::open_follow:sinks", b.where(), "expected one following open, found %d" % len(sinks)))
        return out
    t = sinks[0]
    fdc = _cls(pp.classify_fd_arg(t, 0))
    pc = _cls(pp.classify_path_arg(t, 1))
    if fdc == {"resolved"} and pc == {"component"}:
        out.append(holds("C05.R7", "procfs::ProcfsHandle::open_follow:openat_follow", t.where(),
                         "followed link is a single component inside a directory obtained from ProcfsHandle::open"))
    else:
        out.append(violated("C05.R7", "procfs::ProcfsHandle::open_follow:openat_follow", t.where(),
                            "followed open: dirfd %s path %s" % (sorted(fdc), sorted(pc))))
    return out


# ----------------------------------------------------------------------------------------
# R8 path fidelity: the byte string the caller passed is the byte string the kernel sees
# ----------------------------------------------------------------------------------------
_PATHISH = re.compile(r"std::path::Path|std::ffi::CStr|std::ffi::OsStr|\*const i8|\*const u8|&str")


def _fidelity(ctx, body, origins, depth=0):
    """-> (ok, reason)"""
    T = ctx.tracer
    if depth > 6:
        return False, "conversion chain too deep"
    for o in origins:
        if o.kind == "param" and o.body is body and not o.fpath:
            continue
        if o.kind == "const":
            b = o.const_bytes()
            if b is not None and "\\x00" not in b[:-4]:
                continue
            return False, "constant path with an interior NUL"
        if o.kind == "call":
            c = o.term.callee or ""
            rty = o.term.rty or ""
            if c in ("std::ffi::CStr::as_ptr", "std::ffi::CString::as_c_str", "std::ffi::CString::as_ptr", "std::ffi::CString::as_bytes_with_nul"):
                ok, why = _fidelity(ctx, body, T.origins_of_arg(o.term, 0), depth + 1)
                if not ok:
                    return ok, why
                continue
            if rty.startswith("std::result::Result<std::ffi::CString") or c == "std::ffi::CString::new":
                # fallible conversion: fine if applied to the parameter itself
                ok, why = _fidelity(ctx, body, T.origins_of_arg(o.term, 0), depth + 1)
                if not ok:
                    return ok, why
                # a conversion helper of the crate must itself be faithful to its argument
                r = o.term.resolved
                if ctx.facts.has(r):
                    cb = ctx.facts.body(r)
                    ros = [x for x in T.return_origins(cb) if not (x.kind == "call" and x.term.callee == "std::ops::FromResidual::from_residual")]
                    ok, why = _fidelity(ctx, cb, ros, depth + 1)
                    if not ok:
                        return False, "conversion helper %s: %s" % (r, why)
                continue
            if rty == "std::ffi::CString" or rty.endswith("::CString"):
                return False, ("%s converts a path to a C string infallibly: it must truncate at (or panic on) an interior NUL byte, "
                               "so the kernel can see a different path than the one libpathrs validated" % c)
            return False, "path argument produced by %s" % c
        if o.kind == "mutated":
            continue
        return False, "path argument of unknown origin (%s)" % o.kind
    return True, "the caller's path bytes, unmodified or through a fallible conversion"


def r8_path_fidelity(ctx):
    F = ctx.facts
    T = ctx.tracer
    out = []
    items = []
    for b in F.fn_bodies():
        if b.file != "src/syscalls.rs" or b.kind == "closure":
            continue
        for t in b.calls():
            if os_entry_class(t) != "path":
                continue
            for i, ty in enumerate(t.argtys):
                if _PATHISH.search(ty) and not ty.startswith("&mut"):
                    items.append((fn_key(b), "%s:arg%d" % (t.callee, i), (t, i)))
    for key, (t, i) in ordinal_keys(items):
        ok, why = _fidelity(ctx, t.body, T.origins_of_arg(t, i))
        if ok:
            out.append(holds("C05.R8", key, t.where(), why))
        else:
            out.append(violated("C05.R8", key, t.where(), why))
    return out


def r9_no_cwd_from_c_callers(ctx):
    """'never the current directory': the library itself never passes AT_FDCWD to a lookup (R1/R3), and a C caller
    cannot make it do so either -- the one gate every descriptor argument of the C API passes through refuses negative
    numbers, AT_FDCWD (-100) included, before anything is borrowed from them."""
    from .c17 import r1_fd_params
    out = []
    for i in r1_fd_params(ctx):
        if i.key == "try_as_borrowed_fd:guard" or i.key.startswith("try_as_borrowed_fd:"):
            i.rule = "C05.R9"
            out.append(i)
    return out


RULES = [
    ("C05.R8", r8_path_fidelity, 18, False),
    ("C05.R1", r1_layering, 27, False),
    ("C05.R2", r2_forced_flags, 10, False),
    ("C05.R3", r3_site_shapes, 40, False),
    ("C05.R4", r4_resolve_masks, 4, False),
    ("C05.R5", r5_at_flags, 8, False),
    ("C05.R7", r7_followed, 1, False),
    ("C05.R9", r9_no_cwd_from_c_callers, 1, True),
]
