"""C09 — reopen yields the same inode for any descriptor number and /proc state."""
import re
from ..cfg import cfg_of
from ..common import *
from ..cut import bool_edges, origin_keys, result_edges, stmt_bool_edges
from ..engine import holds, unproven, violated
from ..facts import Operand, Place
from .c05 import shared, _cls
from .c07 import CREATION

EXPLANATION = ("C09: reopen's only open is open_follow(ProcThreadSelf, \"fd/<n>\") on the library's procfs handle with a path "
               "built from the descriptor number alone; symlink handles -> ELOOP before the open; O_NOFOLLOW stripped; "
               "descriptor-validity predicates put 0 on the valid side; at the final open the flags carry the forced bits "
               "and provably no creation flags.")
ASSUMPTIONS = ["the kernel's /proc/<tid>/fd/<n> magic-link resolves to the open file description's inode regardless of renames/unlinks"]

REOPEN = "<Fd as utils::fd::FdExt>::reopen"
SUBPATH = "utils::fd::proc_subpath"
PH = "procfs::ProcfsHandle"


def r1_by_descriptor(ctx):
    F = ctx.facts
    T = ctx.tracer
    out = []
    b = F.body(REOPEN)
    opens = [t for t in b.calls() if os_entry_class(t) or (t.callee or "").startswith(("syscalls::", "procfs::ProcfsHandle::open", "resolvers::"))]
    follow = [t for t in opens if t.callee == PH + "::open_follow"]
    others = [t for t in opens if t not in follow]
    if len(follow) != 1 or others:
        out.append(violated("C09.R1", "reopen:only-open", b.where(), "reopen must perform exactly one open_follow and nothing else: %s" % [t.callee for t in opens]))
        return out
    t = follow[0]
    # base = ProcThreadSelf ; path = proc_subpath(self fd)
    base = T.origins_of_arg(t, 1)
    adt = F.adts.get("procfs::ProcfsBase")
    vn = [v["name"] for v in adt["variants"]] if adt else []
    okb = False
    for o in base:
        if o.kind == "agg" and o.detail == "procfs::ProcfsBase::ProcThreadSelf":
            okb = True
        if o.kind == "const":
            vi = o.const_int()
            if vi is not None and vi < len(vn) and vn[vi] == "ProcThreadSelf":
                okb = True
    p = T.origins_of_arg(t, 2)
    okp = bool(p) and all(o.kind == "call" and o.term.callee == SUBPATH for o in p)
    fdsrc = False
    if okp:
        sp = p[0].term
        fo = T.origins_of_arg(sp, 0)
        fdsrc = bool(fo) and all(o.kind == "param" and o.detail == 1 for o in fo)
    hp = T.origins_of_arg(t, 0)
    okh = bool(hp) and all(o.kind == "param" and o.detail == 2 for o in hp)
    if okb and okp and fdsrc and okh:
        out.append(holds("C09.R1", "reopen:only-open", t.where(), "open_follow(procfs, ProcThreadSelf, proc_subpath(self fd), flags)"))
    else:
        out.append(violated("C09.R1", "reopen:only-open", t.where(), "reopen target: base-ok=%s subpath-ok=%s fd-is-self=%s handle-is-param=%s" % (okb, okp, fdsrc, okh)))
    # proc_subpath builds the string from the number only: no path helpers / syscalls inside
    sb = F.body(SUBPATH)
    bad = [c.callee for c in sb.calls() if os_entry_class(c) or (c.callee or "").startswith(("syscalls::", "procfs::", "utils::fd::FdExt")) or
           (c.callee or "") in ("std::fs::read_link",)]
    fmt_ok = False
    for c in sb.calls("std::fmt::Arguments::<'a>::new", "core::fmt::Arguments::<'a>::new"):
        for o in T.origins_of_arg(c, 0):
            if o.kind == "const" and (o.const_bytes() or "").find("fd/") >= 0:
                fmt_ok = True
    for c in sb.calls():
        if c.callee and c.callee.endswith("Arguments::<'a>::new_const"):
            pass
    if bad or not fmt_ok:
        out.append(violated("C09.R1", "proc_subpath:number-only", sb.where(), "proc_subpath consults more than the descriptor number (%s) or no longer formats fd/<n>" % bad))
    else:
        out.append(holds("C09.R1", "proc_subpath:number-only", sb.where(), "\"fd/{n}\" from the raw descriptor number; no name of the file is consulted"))
    # public entry points pass the global handle
    for fn in ("handle::HandleRef::<'_>::reopen", "capi::core::pathrs_reopen::{closure#0}"):
        if not F.has(fn):
            if fn.startswith("capi") and ctx.config != "capi":
                continue
            out.append(violated("C09.R1", "%s:global-handle" % fn, "", "function not found"))
            continue
        fb = F.body(fn)
        okg = False
        for c in fb.calls("utils::fd::FdExt::reopen"):
            g = T.origins_of_arg(c, 1)
            if g and all(o.kind == "static" and o.detail == "procfs::GLOBAL_PROCFS_HANDLE" for o in g):
                okg = True
        (out.append(holds("C09.R1", "%s:global-handle" % fn_key(fb), fb.where(), "uses GLOBAL_PROCFS_HANDLE")) if okg else
         out.append(violated("C09.R1", "%s:global-handle" % fn_key(fb), fb.where(), "does not reopen through the library's own procfs handle")))
        # ... and nothing else is ever returned as "the reopened file" (a duplicate of the handle shares its open
        # file description: offset, status flags, locks)
        ro = [o for o in T.return_origins(fb, OKP) if not (o.kind == "call" and o.term.callee == "std::ops::FromResidual::from_residual")]
        other = [o for o in ro if not (o.kind == "call" and o.term.callee == "utils::fd::FdExt::reopen")]
        if fn.startswith("capi"):
            continue
        if other or not ro:
            out.append(violated("C09.R1", "%s:only-source" % fn_key(fb), (other[0].term.where() if other and other[0].term is not None else fb.where()),
                                "the file handed back by reopen does not always come from the by-descriptor reopen: %s" % sorted({repr(o) for o in other})[:4]))
        else:
            out.append(holds("C09.R1", "%s:only-source" % fn_key(fb), fb.where(), "every returned file is the result of FdExt::reopen"))
    return out


def reopen_by_descriptor(ctx, rule):
    """The part of R1 that other properties rely on whenever they reopen a resolved handle (one-shot open on the
    emulated backend, mkdir_all's directory handle): the reopen goes through thread-self/fd/<own number>."""
    out = []
    for i in r1_by_descriptor(ctx):
        if i.key.startswith(("reopen:", "proc_subpath:")):
            i.rule = rule
            out.append(i)
    return out


def r1b_private_procfs_only(ctx):
    """The fd/<n> lookup happens inside the library's own procfs handle; the host's /proc is never consulted to pick
    the base directory (so mounts over the host's /proc cannot redirect the reopen)."""
    from .c06 import r7_base_through_resolver
    out = []
    for i in r7_base_through_resolver(ctx):
        if i.key.endswith(":into_path-root") or i.key.startswith("open_base:"):
            i.rule = "C09.R6"
            out.append(i)
    return out


def r2_symlink_refused(ctx):
    F = ctx.facts
    T = ctx.tracer
    ipa, pp = shared(ctx)
    out = []
    b = F.body(REOPEN)
    cfg = cfg_of(b)
    follow = list(b.calls(PH + "::open_follow"))
    tests = []
    for t in b.calls("utils::fd::Metadata::is_symlink"):
        m = T.origins_of_arg(t, 0)
        if m and all(o.kind == "call" and o.term.callee == "utils::fd::FdExt::metadata" for o in m):
            mo = T.origins_of_arg(m[0].term, 0)
            if mo and all(o.kind == "param" and o.detail == 1 for o in mo):
                be = bool_edges(b, t)
                if be:
                    tests.append((t, be))
    if not tests or not follow:
        out.append(violated("C09.R2", "reopen:symlink-test", b.where(), "no is_symlink() test on the handle's own metadata before the open"))
    else:
        cut = [e.key() for (_t, be) in tests for e in be["false"]]
        if follow[0].bb in cfg.reachable(cfg.entry, cut_edges=cut):
            out.append(violated("C09.R2", "reopen:symlink-test", follow[0].where(), "the open is reachable for symlink handles"))
        else:
            reach = cfg.edge_targets_reachable([e for (_t, be) in tests for e in be["true"]])
            errs = {o.const_int(True) for c in b.calls("std::io::Error::from_raw_os_error") if c.bb in reach for o in T.origins_of_arg(c, 0)}
            if errs == {ELOOP}:
                out.append(holds("C09.R2", "reopen:symlink-test", follow[0].where(), "symlink handle -> ELOOP, never opened"))
            else:
                out.append(violated("C09.R2", "reopen:symlink-test", follow[0].where(), "symlink handles are refused with errno %s, expected ELOOP" % sorted(errs)))
    bits = ipa.bits_of(b.path)
    for t in follow:
        v = bits.arg_value(t, 3) if bits else None
        if v is not None and v.all(lambda a: bool(a.c & O_NOFOLLOW)):
            out.append(holds("C09.R2", "reopen:nofollow-stripped", t.where(), "O_NOFOLLOW removed before following the fd link"))
        else:
            out.append(violated("C09.R2", "reopen:nofollow-stripped", t.where(), "O_NOFOLLOW may reach the magic-link open: %r" % v))
        # other caller bits preserved
        if v is not None and all((a.keep | O_NOFOLLOW) & 0xffffffff == 0xffffffff for a in v.alts if a.src is not None):
            out.append(holds("C09.R2", "reopen:flags-preserved", t.where(), "all other requested flags are passed on"))
        else:
            out.append(violated("C09.R2", "reopen:flags-preserved", t.where(), "reopen alters requested flags other than O_NOFOLLOW: %r" % v))
    return out


def _zero_side(body, edges_true, edges_false, truth_at_zero):
    return edges_true if truth_at_zero else edges_false


FD_RETURNING_SYSCALLS = {SYS_openat2}


def r3_fd_zero_valid(ctx):
    """Every predicate classifying a raw descriptor number must put 0 on the side that can succeed."""
    F = ctx.facts
    from ..dataflow import Tracer
    T = Tracer(F, drop_identity=("rustix::fd::AsRawFd::as_raw_fd", "std::os::fd::AsRawFd::as_raw_fd"))
    out = []

    def is_fd_value(body, bb, idx, op):
        if op.place is None:
            return False
        for o in T.origins_of_operand(body, bb, idx, op):
            if o.kind == "call" and (o.term.callee or "").endswith("AsRawFd::as_raw_fd"):
                return True
            # the raw return value of a descriptor-returning system call
            if o.kind == "call" and o.term.callee == "libc::syscall" and o.term.args and o.term.args[0].is_const and \
               o.term.args[0].int_value() in FD_RETURNING_SYSCALLS:
                return True
            if o.kind == "param" and o.fpath[-1:] == ("inner",) and "CBorrowedFd" in (body.local_tys[o.detail] if isinstance(o.detail, int) else ""):
                return True
        return False

    def can_succeed(body, edges):
        cfg = cfg_of(body)
        reach = cfg.edge_targets_reachable(edges)
        for x in reach:
            for s in body.blocks[x].stmts:
                # a success value is built on this side -- in the return slot or, when the test sits in a helper that was
                # inlined / whose result is post-processed (`sys_call(..).map_err(..)`), in the slot that receives it
                if s.kind == "assign" and s.rv["k"] == "agg" and s.rv.get("variant") in ("Ok", "Some") and \
                        re.match(r"^std::(result::Result|option::Option)<", body.local_tys[s.lhs.local] or ""):
                    return True
        return False

    for b in F.fn_bodies():
        if is_bitflags_generated(b) or b.kind == "closure":
            continue
        cfg = cfg_of(b)
        n = 0
        for t in b.calls("core::num::<impl i32>::is_positive", "core::num::<impl i32>::is_negative"):
            if not is_fd_value(b, t.bb, len(b.blocks[t.bb].stmts), t.args[0]):
                continue
            be = bool_edges(b, t)
            if not be:
                continue
            truth = False  # is_positive(0) == false, is_negative(0) == false
            side = be["true"] if truth else be["false"]
            key = "%s:%s:%d" % (fn_key(b), t.callee.split("::")[-1], n)
            n += 1
            if can_succeed(b, side):
                out.append(holds("C09.R3", key, t.where(), "descriptor 0 is on the valid side of %s" % t.callee.split("::")[-1]))
            else:
                out.append(violated("C09.R3", key, t.where(), "descriptor number 0 is classified as invalid by %s (fd 0 is a valid descriptor)" % t.callee.split("::")[-1]))
        for blk in b.blocks:
            if blk.cleanup:
                continue
            for i, s in enumerate(blk.stmts):
                if s.kind != "assign" or s.rv["k"] != "bin" or s.rv["op"] not in ("Lt", "Le", "Gt", "Ge"):
                    continue
                a, c = Operand(s.rv["a"]), Operand(s.rv["b"])
                if a.is_const and not c.is_const:
                    k, var, flipped = a.int_value(True), c, True
                elif c.is_const and not a.is_const:
                    k, var, flipped = c.int_value(True), a, False
                else:
                    continue
                if k is None or not is_fd_value(b, blk.idx, i, var):
                    continue
                op = s.rv["op"]
                x = 0
                l, r = (k, x) if flipped else (x, k)
                truth = {"Lt": l < r, "Le": l <= r, "Gt": l > r, "Ge": l >= r}[op]
                be = stmt_bool_edges(b, blk.idx, i)
                if not be:
                    continue
                side = be["true"] if truth else be["false"]
                key = "%s:cmp:%d" % (fn_key(b), n)
                n += 1
                if can_succeed(b, side):
                    out.append(holds("C09.R3", key, "%s:%d" % (b.file, s.line), "descriptor 0 is on the valid side of the comparison"))
                else:
                    out.append(violated("C09.R3", key, "%s:%d" % (b.file, s.line), "descriptor number 0 is classified as invalid by a range test"))
    return out


def r4_final_open(ctx):
    F = ctx.facts
    ipa, pp = shared(ctx)
    out = []
    b = F.body(PH + "::open_follow")
    bits = ipa.bits_of(b.path)
    for n, t in enumerate(b.calls("syscalls::openat_follow")):
        v = bits.arg_value(t, 2) if bits else None
        key = "open_follow:openat_follow:%d:creation-flags" % n
        bad = []
        if v is None:
            continue
        for a in v.alts:
            for nm, m in CREATION:
                if not a.lacks(m):
                    bad.append(nm)
        if bad:
            out.append(violated("C09.R4", key, t.where(), "reopen flags reach the final open without %s having been refused" % "/".join(sorted(set(bad)))))
        else:
            out.append(holds("C09.R4", key, t.where(), "creation flags proven absent at the final open"))
    # the wrapper used for the final open forces O_CLOEXEC|O_NOCTTY at its raw sink
    from .c05 import r2_forced_flags
    for i in r2_forced_flags(ctx):
        if i.rule == "C05.R2a" and i.key.startswith("syscalls::openat_follow:"):
            i.rule = "C09.R4"
            i.key = "open_follow:final-open:forced-bits"
            out.append(i)
    return out


def _probe_is_truthful(ctx):
    """The probe of R5 is ProcfsHandle::readlink; 'ENOENT' selects the no-follow open.  That is only sound if the
    probe's ENOENT is the kernel's: readlink neither makes up errnos nor edits the link body it returns."""
    from .c02 import r9_observed_path
    from .c08 import r4_true_errors
    out = []
    for i in r9_observed_path(ctx):
        if i.key.startswith("ProcfsHandle::readlink:"):
            i.rule = "C09.R5"
            i.key = "probe:" + i.key
            out.append(i)
    for i in r4_true_errors(ctx):
        if i.key.startswith("readlink:") or "ProcfsHandle::readlink" in i.key:
            i.rule = "C09.R5"
            i.key = "probe:" + i.key
            out.append(i)
    return out


def r5_probe_discipline(ctx):
    """open_follow decides between 'follow the magic-link' and 'no-follow open' by a readlink probe.  A failing
    probe may select the no-follow open (which, with O_PATH, returns the link itself: a different object) only
    when the failure means 'not a link' (ENOENT: missing, or readlinkat on a non-link); the magic-link open is
    reachable after a failed probe only when the failure still proves a link (ENAMETOOLONG)."""
    from ..cut import errno_branches, failure_edges
    F = ctx.facts
    T = ctx.tracer
    out = _probe_is_truthful(ctx)
    b = F.body(PH + "::open_follow")
    cfg = cfg_of(b)
    probes = list(b.calls(PH + "::readlink"))
    fb = list(b.calls(PH + "::open"))
    sinks = list(b.calls("syscalls::openat_follow"))
    if len(probes) != 1 or not sinks:
        return [violated("C09.R5", "open_follow:probe", b.where(), "expected one readlink probe and a final open in open_follow")]
    fe = failure_edges(b, T, probes[0])
    if not fe:
        return [unproven("C09.R5", "open_follow:probe", probes[0].where(), "cannot find how the result of the readlink probe is consumed")]
    brs = errno_branches(b, T)
    enoent_eq = [e.key() for br in brs if br["errno"] == ENOENT for e in br["eq"]]
    toolong_eq = [e.key() for br in brs if br["errno"] == ENAMETOOLONG for e in br["eq"]]
    # the no-follow fallback carries the caller's flags
    # the fallback is the no-follow open of the very path that was probed (the open of the link's parent directory,
    # which follows a successful probe, takes the directory half of the split path instead)
    pk = origin_keys(T.origins_of_arg(probes[0], 2))
    nofollow = [t for t in fb if origin_keys(T.origins_of_arg(t, 2)) & pk]
    if not nofollow:
        return [violated("C09.R5", "open_follow:probe", b.where(), "no no-follow fallback open of the probed path found (anchor drift)")]
    reach_wo_enoent = cfg.precise_reach(fe[0], cut_edges=enoent_eq)
    bad = [t for t in nofollow if t.bb in reach_wo_enoent]
    if bad:
        out.append(violated("C09.R5", "open_follow:fallback-only-enoent", bad[0].where(),
                            "a failure of the readlink probe other than ENOENT (ENAMETOOLONG for a long path, EMFILE/ENOMEM...) selects the no-follow open: "
                            "with O_PATH it returns the magic-link itself, a different object than the handle refers to"))
    else:
        out.append(holds("C09.R5", "open_follow:fallback-only-enoent", probes[0].where(), "after a failed probe the no-follow open is reachable only through the ENOENT branch"))
    # a link whose body could be read is always followed, whatever the body looks like ('pipe:[n]', 'socket:[n]', ' (deleted)')
    reach_ok = cfg.precise_reach(fe[1], cut_edges=[e.key() for e in fe[0]])
    bad = [t for t in nofollow if t.bb in reach_ok]
    if bad:
        out.append(violated("C09.R5", "open_follow:link-always-followed", bad[0].where(),
                            "after a successful readlink probe the no-follow open is still reachable: links whose body does not look like a path "
                            "(anonymous inodes: 'pipe:[n]', 'socket:[n]') are then opened as the procfs symlink itself"))
    else:
        out.append(holds("C09.R5", "open_follow:link-always-followed", probes[0].where(), "a readable link is always opened through the magic-link open"))
    reach_wo_toolong = cfg.precise_reach(fe[0], cut_edges=toolong_eq)
    if sinks[0].bb in reach_wo_toolong:
        out.append(violated("C09.R5", "open_follow:follow-needs-link", sinks[0].where(), "the magic-link open is reachable after a failed probe that does not prove the target is a link"))
    else:
        out.append(holds("C09.R5", "open_follow:follow-needs-link", sinks[0].where(), "after a failed probe the magic-link open is reachable only through the ENAMETOOLONG branch"))
    return out


RULES = [
    ("C09.R1", r1_by_descriptor, 3, False),
    ("C09.R6", r1b_private_procfs_only, 3, False),
    ("C09.R2", r2_symlink_refused, 3, False),
    ("C09.R3", r3_fd_zero_valid, 2, False),
    ("C09.R4", r4_final_open, 2, False),
    ("C09.R5", r5_probe_discipline, 3, False),
]
