"""C03 — mutating Root operations never touch anything outside the root."""
import re

from ..cfg import cfg_of
from ..common import *
from ..engine import holds, unproven, violated
from ..excl import Excl
from .c05 import shared, _cls, ordinal_keys

EXPLANATION = ("C03: every mutating sink (mkdirat/mknodat/symlinkat/linkat/unlinkat/renameat2/O_CREAT open) and every descend "
               "open takes a dirfd obtained by in-root resolution (or a previous descend open) and a single-component name; "
               "descend opens are proven never to be handed '.' or '..'; the set of mutating functions is closed.")
ASSUMPTIONS = [
    "for single-entry syscalls the kernel itself refuses '.' and '..' as final component (mkdirat/mknodat/symlinkat/linkat: EEXIST; "
    "unlinkat: EISDIR/EINVAL/ENOTEMPTY; renameat2: EBUSY/EINVAL; openat with O_CREAT: EISDIR, but only without O_PATH -- with O_PATH the "
    "kernel drops O_CREAT); an O_DIRECTORY or O_PATH open of '..' succeeds, hence rule R3 for descend opens and for creating opens that "
    "may carry O_PATH",
    "kernel d_name values never contain '/'",
]

GOOD_FD = {"inroot-parent", "opened", "resolved"}


def excl(ctx):
    if "excl" not in ctx.cache:
        ipa, pp = shared(ctx)
        ctx.cache["excl"] = Excl(ctx.facts, ctx.tracer, pp)
    return ctx.cache["excl"]


def mutating_sites(ctx):
    """[(key, term, [(dirfd idx, name idx)], kind)] — kind 'mutate' or 'descend'."""
    F = ctx.facts
    ipa, pp = shared(ctx)
    items = []
    for b in F.fn_bodies():
        if b.file == "src/syscalls.rs" or is_bitflags_generated(b):
            continue
        for t in b.calls(RX_WRAPPER):
            w = t.callee
            if w in MUTATING_WRAPPERS:
                items.append((fn_key(b), w.split("::")[1], t))
            elif w in ("syscalls::openat", "syscalls::openat_follow"):
                bits = ipa.bits_of(b.path)
                v = bits.arg_value(t, 2) if bits else None
                creat = v is not None and not v.all(lambda a: bool(a.c & O_CREAT))
                if creat and fn_key(b) not in ("root::Root::open",):
                    # may create: only if O_CREAT is possibly set by the library or the caller
                    if v.has(O_CREAT) or fn_key(b).startswith("root::"):
                        items.append((fn_key(b), "openat+O_CREAT", t))
    return ordinal_keys(items)


def descend_opens(ctx):
    """Opens whose result becomes the dirfd of a later mutating sink / recursive call."""
    F = ctx.facts
    out = []
    for fn in ("root::RootRef::<'_>::mkdir_all", "utils::dir::remove_all"):
        b = F.body(fn)
        for t in b.calls("syscalls::openat", "syscalls::openat_follow", "rustix::fs::openat", "syscalls::openat2"):
            out.append(("%s:openat" % fn_key(b), t))
    return out


def r5_descend_nofollow(ctx):
    """Descend opens go through the O_NOFOLLOW-forcing wrapper and ask for O_DIRECTORY."""
    ipa, pp = shared(ctx)
    out = []
    for key, t in descend_opens(ctx):
        bits = ipa.bits_of(t.body.path)
        v = bits.arg_value(t, 2) if bits and t.callee.startswith("syscalls::openat") and t.callee != "syscalls::openat2" else None
        if t.callee != "syscalls::openat":
            out.append(violated("C03.R5", key, t.where(), "descend open bypasses the O_NOFOLLOW-forcing wrapper (%s): a directory swapped for a symlink would be followed out of the tree" % t.callee))
        elif v is None or not v.has(O_DIRECTORY):
            out.append(violated("C03.R5", key, t.where(), "descend open without O_DIRECTORY: %r" % v))
        else:
            out.append(holds("C03.R5", key, t.where(), "O_DIRECTORY open through syscalls::openat (O_NOFOLLOW forced)"))
    # the wrapper itself: O_NOFOLLOW forced for every flag combination (C05.R2b)
    from .c05 import r2_forced_flags
    for i in r2_forced_flags(ctx):
        if i.rule == "C05.R2b":
            i.rule = "C03.R5"
            i.key = "wrapper:" + i.key
            out.append(i)
    return out


def r1_dirfd(ctx):
    ipa, pp = shared(ctx)
    out = []
    from .c05 import PATHARGS
    for key, t in mutating_sites(ctx) + descend_opens(ctx):
        w = t.callee.split("::")[1] if t.callee.startswith("syscalls::") else "openat"
        for (di, _pi) in PATHARGS[w]:
            fdc = pp.classify_fd_arg(t, di)
            cls = _cls(fdc)
            k = "%s:fd%d" % (key, di)
            if cls and cls <= GOOD_FD:
                out.append(holds("C03.R1", k, t.where(), "dirfd classes %s" % sorted(cls)))
            elif "cwd" in cls or "api-fd" in cls or "dup:api-fd" in cls or "self-fd" in cls:
                out.append(violated("C03.R1", k, t.where(), "mutation relative to a descriptor that is not the result of in-root resolution: %s" % sorted(fdc)))
            else:
                out.append(unproven("C03.R1", k, t.where(), "dirfd origin not classified: %s" % sorted(fdc)))
    return out


def r2_name(ctx):
    ipa, pp = shared(ctx)
    out = []
    from .c05 import PATHARGS
    for key, t in mutating_sites(ctx) + descend_opens(ctx):
        w = t.callee.split("::")[1] if t.callee.startswith("syscalls::") else "openat"
        for (_di, pi) in PATHARGS[w]:
            pc = pp.classify_path_arg(t, pi)
            cls = _cls(pc)
            k = "%s:name%d" % (key, pi)
            if cls and all(c == "component" or (c.startswith("const:") and "/" not in c[6:]) for c in cls):
                out.append(holds("C03.R2", k, t.where(), "name classes %s" % sorted(pc)))
            elif any(c in ("multi", "api-param") or (c.startswith("const:") and "/" in c[6:]) for c in cls):
                out.append(violated("C03.R2", k, t.where(), "mutating call given a multi-component / caller-supplied path: %s" % sorted(pc)))
            else:
                out.append(unproven("C03.R2", k, t.where(), "name origin not classified: %s" % sorted(pc)))
    return out


def r3_dot_dotdot(ctx):
    X = excl(ctx)
    out = []
    for key, t in descend_opens(ctx):
        ex, proofs = X.excluded_for_arg(t, 1)
        missing = [c for c in (".", "..") if c not in ex]
        if not missing:
            out.append(holds("C03.R3", key, t.where(), "'.' and '..' excluded: %s" % proofs))
        else:
            out.append(violated("C03.R3", key, t.where(),
                                "descend open (O_DIRECTORY) can be handed %s: no refusal dominates it in the function, in every caller, or in the producer of the name"
                                % " and ".join(repr(m) for m in missing), {"excluded": sorted(ex), "proofs": proofs}))
    # creating opens: open(O_CREAT) of '..' is refused by the kernel (EISDIR) -- unless O_PATH is set, which makes the
    # kernel drop O_CREAT and simply open the name (fs/open.c build_open_flags: flags &= O_PATH_FLAGS)
    ipa, pp = shared(ctx)
    for key, t in mutating_sites(ctx):
        if not key.split(":")[-1].startswith("openat+O_CREAT") and ":openat+O_CREAT" not in key:
            continue
        bits = ipa.bits_of(t.body.path)
        v = bits.arg_value(t, 2) if bits else None
        if v is not None and v.lacks(O_PATH):
            out.append(holds("C03.R3", key + ":dotdot", t.where(), "O_PATH cannot reach the creating open, so O_CREAT is honoured and the kernel refuses '..' (EISDIR)"))
            continue
        ex, proofs = X.excluded_for_arg(t, 1)
        if ".." in ex:
            out.append(holds("C03.R3", key + ":dotdot", t.where(), "'..' excluded: %s" % proofs))
        else:
            out.append(violated("C03.R3", key + ":dotdot", t.where(),
                                "creating open can be handed '..' together with O_PATH: the kernel ignores O_CREAT under O_PATH and opens the parent of the resolved "
                                "directory (for a bare '..' the parent of the root) instead of refusing with EISDIR; flags at the call: %r" % (v,),
                                {"excluded": sorted(ex), "proofs": proofs}))
    return out


WHO_MAY_MUTATE = {
    "root::RootRef::create", "root::RootRef::create_file", "root::RootRef::mkdir_all", "root::RootRef::remove_inode",
    "root::RootRef::rename", "utils::dir::remove_inode", "utils::dir::remove_inode::{closure#0}",
}


def r4_who_may_mutate(ctx):
    F = ctx.facts
    out = []
    seen = set()
    for key, t in mutating_sites(ctx):
        fk = fn_key(t.body)
        seen.add(fk)
        if fk in WHO_MAY_MUTATE:
            out.append(holds("C03.R4", key, t.where(), "listed mutating function"))
        else:
            out.append(violated("C03.R4", key, t.where(), "filesystem mutation in a function outside the closed set of mutating operations"))
    # rename probes inside syscalls.rs: AT_FDCWD only with constant '.'
    for b in F.fn_bodies():
        if b.file != "src/syscalls.rs":
            continue
        for t in b.calls("syscalls::renameat2", "syscalls::renameat", "syscalls::unlinkat", "syscalls::mkdirat", "syscalls::mknodat", "syscalls::symlinkat", "syscalls::linkat"):
            fk = fn_key(b)
            key = "%s:%s" % (fk, t.callee.split("::")[1])
            if fk == "syscalls::renameat2" and t.callee == "syscalls::renameat":
                # forwarding of its own parameters
                ok = all(o.kind == "param" for i in range(4) for o in ctx.tracer.origins_of_arg(t, i))
                out.append((holds if ok else violated)("C03.R4", key, t.where(), "renameat2 forwards its own arguments to renameat" if ok else "renameat2 -> renameat does not forward its parameters"))
                continue
            if fk == "syscalls::RENAME_FLAGS_SUPPORTED::{closure#0}":
                paths = [t.args[i].bytes_value() for i in (1, 3)]
                fds = [t.args[i].int_value(True) for i in (0, 2)]
                if paths == [".", "."]:
                    out.append(holds("C03.R4", key, t.where(), "feature probe renameat2(AT_FDCWD, '.', AT_FDCWD, '.') cannot change anything (EBUSY)"))
                else:
                    out.append(violated("C03.R4", key, t.where(), "rename feature probe no longer uses the constant '.' on both sides"))
                continue
            out.append(violated("C03.R4", key, t.where(), "mutating wrapper called from inside the syscall layer"))
    return out


def r6_resolution_is_contained(ctx):
    """The dirfds of R1 are only as good as the lookup that produced them: the containment rules of the resolver
    (verification after '..', before completion, fail-closed path comparison, scoped kernel lookups) and the
    byte-fidelity of every path handed to the kernel are obligations of this property too."""
    from .c02 import r1_verify_after_dotdot, r2_verify_before_complete, r3_check_current_fail_closed, r8_kernel_scoping, r9_observed_path
    from .c05 import r8_path_fidelity
    out = []
    for fn, tag in ((r1_verify_after_dotdot, "verify-after-dotdot"), (r2_verify_before_complete, "verify-before-complete"),
                    (r3_check_current_fail_closed, "check-current"), (r8_kernel_scoping, "kernel-scoping"), (r8_path_fidelity, "path-fidelity"),
                    (r9_observed_path, "observed-path")):
        for i in fn(ctx):
            i.key = "%s:%s" % (tag, i.key)
            i.rule = "C03.R6"
            out.append(i)
    from .c14 import r6_resolve_parent
    for i in r6_resolve_parent(ctx, "C03.R6"):
        out.append(i)
    # mkdir_all turns its resolved O_PATH handle into a directory descriptor by reopening it
    from .c09 import reopen_by_descriptor
    out.extend(reopen_by_descriptor(ctx, "C03.R6"))
    return out


RULES = [
    ("C03.R6", r6_resolution_is_contained, 20, False),
    ("C03.R1", r1_dirfd, 15, False),
    ("C03.R2", r2_name, 15, False),
    ("C03.R3", r3_dot_dotdot, 2, False),
    ("C03.R4", r4_who_may_mutate, 14, False),
    ("C03.R5", r5_descend_nofollow, 2, False),
]
