"""C16 — C error ids are unique, consumed exactly once, and never look like an errno."""
import re

from ..cfg import cfg_of
from ..common import *
from ..cut import bool_edges, result_edges
from ..engine import holds, unproven, violated
from ..facts import Operand, Place
from .c08 import cg

EXPLANATION = ("C16: who-may-access on the ERROR_MAP static; one Mutex::lock per function with the guard alive until the "
               "return (occupancy test and insertion are the same HashMap::entry value -> atomic under the lock); id range "
               "constant [i32::MIN, -4096]; remove-on-read; every extern \"C\" int return is the value of into_c_return "
               "(Err arm -> store_error); errno mapping table of ErrorKind::errno / CError::from.")
ASSUMPTIONS = ["std::sync::Mutex provides mutual exclusion; HashMap::entry/VacantEntry::insert never overwrite a live key"]

SE = "capi::error::store_error"
EI = "capi::error::pathrs_errorinfo"
MAP = "capi::error::ERROR_MAP"


def r1_who_touches(ctx):
    F = ctx.facts
    out = []
    users = set()
    for b in F.fn_bodies():
        for blk in b.blocks:
            ops = []
            for s in blk.stmts:
                ops.extend(s.rv_operands())
            if blk.term.kind == "call":
                ops.extend(blk.term.args)
            for o in ops:
                if o.is_const and o.static() == MAP:
                    users.add(fn_key(b))
    want = {SE, EI}
    if MAP not in F.statics:
        return [violated("C16.R1", "ERROR_MAP", "", "static capi::error::ERROR_MAP not found")]
    for u in sorted(users | want):
        if u in want and u in users:
            out.append(holds("C16.R1", "ERROR_MAP:%s" % u, F.body(u).where(), "allowed user of the error table"))
        elif u in want:
            out.append(violated("C16.R1", "ERROR_MAP:%s" % u, "", "%s no longer uses the error table" % u))
        else:
            out.append(violated("C16.R1", "ERROR_MAP:%s" % u, "", "the error table is accessed outside store_error/pathrs_errorinfo"))
    ty = F.statics[MAP]["ty"]
    if "std::sync::Mutex<std::collections::HashMap<i32, error::Error" in ty:
        out.append(holds("C16.R1", "ERROR_MAP:type", F.statics[MAP]["span"], "Lazy<Mutex<HashMap<i32, Error>>>"))
    else:
        out.append(violated("C16.R1", "ERROR_MAP:type", F.statics[MAP]["span"], "error table is not a Mutex<HashMap<i32, Error>>: %s" % ty))
    return out


def _guard_scope(ctx, b):
    """(lock call, guard drop blocks). The guard must be dropped only on the way to the return."""
    locks = list(b.calls("std::sync::Mutex::<T>::lock"))
    drops = [blk.idx for blk in b.blocks if not blk.cleanup and blk.term.kind == "drop" and "MutexGuard" in blk.term.raw.get("pty", "")]
    return locks, drops


def _id_search(ctx, b):
    """`repeat_with(|| gen_range(R)).find(|id| !map.contains_key(id))`: -> (find call, producer closure, predicate closure)
    or None."""
    F = ctx.facts
    T = ctx.tracer
    for t in b.calls("std::iter::Iterator::find"):
        pred = None
        for a in T.origins_of_arg(t, 1):
            if a.kind == "agg" and a.detail and a.detail.startswith("closure ") and F.has(a.detail[len("closure "):]):
                pred = F.body(a.detail[len("closure "):])
        prod = None
        for o in T.origins_of_arg(t, 0):
            if o.kind == "call" and (o.term.callee or "").endswith("iter::repeat_with"):
                for a in T.origins_of_arg(o.term, 0):
                    if a.kind == "agg" and a.detail and a.detail.startswith("closure ") and F.has(a.detail[len("closure "):]):
                        prod = F.body(a.detail[len("closure "):])
        if pred is not None and prod is not None:
            return t, prod, pred
    return None


def _probe_then_insert(ctx, b, lock, drops):
    """Second accepted spelling of 'insert only into a vacant id': under the one guard, ids are drawn until one is found
    for which `contains_key` is false, and that id is inserted (and returned).  None if the function is not of this
    form (the entry() form is then expected)."""
    F = ctx.facts
    T = ctx.tracer
    cfg = cfg_of(b)
    srch = _id_search(ctx, b)
    ins = list(b.calls("std::collections::HashMap::<K, V, S, A>::insert"))
    if srch is None or len(ins) != 1 or list(b.calls("std::collections::HashMap::<K, V, S, A>::entry")):
        return None
    find, prod, pred = srch
    out = []
    other = [t for cb in [b] + F.closures_of(b.path) for t in cb.calls()
             if re.search(r"HashMap::<K, V, S, A>::(get_mut|extend|retain|clear|remove|drain|try_insert)$", t.callee or "")]
    if other:
        out.append(violated("C16.R2", "store_error:overwrite", other[0].where(), "store_error modifies the table other than by inserting the vacant id: %s" % other[0].callee))
    # the predicate is `!map.contains_key(id)` on the closure's own parameter
    ck = list(pred.calls("std::collections::HashMap::<K, V, S, A>::contains_key"))
    ro = T.return_origins(pred)
    negated = bool(ro) and all(o.kind == "expr" and o.stmt is not None and o.stmt.rv.get("k") == "un" and o.stmt.rv.get("op") == "Not" for o in ro)
    okpred = len(ck) == 1 and negated and all(x.kind == "param" for x in T.origins_of_arg(ck[0], 1))
    # the key inserted (and returned) is what find() yielded
    def from_find(os_, depth=0):
        # through the unwrap/expect of the Option that an endless iterator's find() yields
        if not os_ or depth > 3:
            return False
        for o in os_:
            if o.kind == "call" and o.term is find:
                continue
            if o.kind == "call" and (o.term.callee or "").rsplit("::", 1)[-1] in ("expect", "unwrap", "unwrap_unchecked") and from_find(T.origins_of_arg(o.term, 0), depth + 1):
                continue
            return False
        return True
    ko = T.origins_of_arg(ins[0], 1)
    okkey = from_find(ko)
    okret = from_find(T.return_origins(b))
    early = [d for d in drops if ins[0].bb in cfg.reachable(d) or find.bb in cfg.reachable(d)]
    after_lock = lock.target is not None and find.bb in cfg.reachable(lock.target) and ins[0].bb in cfg.reachable(find.target if find.target is not None else find.bb)
    if okpred and okkey and okret and not early and after_lock:
        out.append(holds("C16.R2", "store_error:entry-insert", ins[0].where(), "ids are drawn until contains_key is false and that id is inserted, all under one guard; returned id = inserted key"))
        out.append(holds("C16.R2", "store_error:occupied", find.where(), "occupied id -> find() draws again"))
    else:
        out.append(violated("C16.R2", "store_error:entry-insert", ins[0].where(),
                            "vacancy-predicate=%s inserted-key-is-the-found-id=%s returned-id-is-the-found-id=%s guard-dropped-early=%s search-and-insert-after-lock=%s"
                            % (okpred, okkey, okret, bool(early), after_lock)))
    return out


def r2_one_critical_section(ctx):
    F = ctx.facts
    T = ctx.tracer
    out = []
    b = F.body(SE)
    cfg = cfg_of(b)
    locks, drops = _guard_scope(ctx, b)
    loops = cfg.natural_loops()
    inloop = set()
    for blks in loops.values():
        inloop |= blks
    if len(locks) != 1 or locks[0].bb in inloop:
        out.append(violated("C16.R2", "store_error:lock", b.where(), "store_error must take the table lock exactly once, outside the id-search loop (found %d)" % len(locks)))
        return out
    lock = locks[0]
    lo = T.origins_of_arg(lock, 0)
    if not any(o.kind == "static" and o.detail == MAP for o in lo):
        out.append(violated("C16.R2", "store_error:lock", lock.where(), "the lock taken is not the error table's"))
        return out
    # entry() and insert() lie between lock and guard drop; guard dropped only after the loop
    entry = list(b.calls("std::collections::HashMap::<K, V, S, A>::entry"))
    ins = list(b.calls("std::collections::hash_map::VacantEntry::<'a, K, V, A>::insert"))
    bad_ins = [t for t in b.calls() if re.search(r"HashMap::<K, V, S, A>::(insert|get_mut|extend|retain|clear|remove|drain|try_insert)$", t.callee or "")]
    formb = _probe_then_insert(ctx, b, lock, drops)
    if formb is not None:
        out.extend(formb)
        return out
    if bad_ins:
        out.append(violated("C16.R2", "store_error:overwrite", bad_ins[0].where(), "store_error modifies the table other than through a vacant entry: %s" % bad_ins[0].callee))
    if len(entry) != 1 or len(ins) != 1:
        out.append(violated("C16.R2", "store_error:entry-insert", b.where(), "expected one HashMap::entry and one VacantEntry::insert"))
        return out
    # the inserted slot is the Vacant payload of that very entry() value
    so = T.origins_of_arg(ins[0], 0)
    oks = bool(so) and all(o.kind == "call" and o.term is entry[0] for o in so)
    # the map operated on is the guard's
    mo = T.origins_of_arg(entry[0], 0)
    okm = any(o.kind == "call" and o.term is lock for o in mo) or any(o.kind == "call" and o.term.callee == "std::result::Result::<T, E>::unwrap" for o in mo)
    # the guard is not dropped before the insert on any path: no guard drop block can reach the insert/entry
    early = [d for d in drops if entry[0].bb in cfg.reachable(d) or ins[0].bb in cfg.reachable(d)]
    # the key inserted is the id returned
    ko = T.origins_of_arg(entry[0], 1)
    ro = T.return_origins(b)
    samekey = bool(ko) and bool(ro) and {o.key() for o in ko} == {o.key() for o in ro}
    if oks and okm and not early and samekey:
        out.append(holds("C16.R2", "store_error:entry-insert", ins[0].where(), "vacancy test and insertion are one HashMap::entry under one guard; returned id = inserted key"))
    else:
        out.append(violated("C16.R2", "store_error:entry-insert", ins[0].where(),
                            "slot-from-same-entry=%s map-is-the-guards=%s guard-dropped-early=%s returned-id-is-key=%s" % (oks, okm, bool(early), samekey)))
    # occupied -> retry loop, never insert
    r = None
    for blk in b.blocks:
        if blk.cleanup or blk.term.kind != "switch":
            continue
        for s in blk.stmts:
            if s.kind == "assign" and s.rv["k"] == "discr":
                o = T.origins(b, blk.idx, 0, Place(s.rv["p"])) if False else None
        # the switch on the Entry discriminant
        if any(s.kind == "assign" and s.rv["k"] == "discr" and "hash_map::Entry" in b.local_tys[Place(s.rv["p"]).local] for s in blk.stmts):
            r = blk
    if r is None:
        out.append(violated("C16.R2", "store_error:occupied", b.where(), "no match on the Entry found"))
    else:
        occ = [e for e in cfg.succ.get(r.idx, []) if e.label == ("sw", 0)]
        reach = cfg.edge_targets_reachable(occ, cut_nodes=[entry[0].bb])
        if ins[0].bb in reach or any(x in reach for x in cfg.return_blocks()):
            out.append(violated("C16.R2", "store_error:occupied", "%s:%d" % (b.file, b.blocks[r.idx].term.line), "an occupied id can be overwritten or returned"))
        else:
            out.append(holds("C16.R2", "store_error:occupied", "%s:%d" % (b.file, b.blocks[r.idx].term.line), "occupied id -> draw again"))
    return out


def r3_id_range(ctx):
    F = ctx.facts
    T = ctx.tracer
    out = []
    b = F.body(SE)
    gr = list(b.calls("rand::Rng::gen_range"))
    entry = list(b.calls("std::collections::HashMap::<K, V, S, A>::entry"))
    srch = _id_search(ctx, b) if not gr else None
    if srch is not None:
        gr = list(srch[1].calls("rand::Rng::gen_range"))
    if len(gr) != 1:
        return [violated("C16.R3", "store_error:gen_range", b.where(), "expected one gen_range call")]
    ro = T.origins_of_arg(gr[0], 1)
    ok = False
    why = "range operand %r" % ro
    for o in ro:
        if o.kind == "call" and o.term.callee == "std::ops::RangeInclusive::<Idx>::new":
            lo = o.term.args[0].int_value(True)
            hi = o.term.args[1].int_value(True)
            ok = lo is not None and hi is not None and hi <= -4096 and lo >= -(2 ** 31) and lo <= hi
            why = "RangeInclusive(%s, %s)" % (lo, hi)
        elif o.kind == "agg" and o.detail and o.detail.startswith("std::ops::Range"):
            ops = o.stmt.rv_operands()
            lo, hi = ops[0].int_value(True), ops[1].int_value(True)
            ok = lo is not None and hi is not None and hi <= -4095 and lo >= -(2 ** 31)
            why = "Range(%s, %s)" % (lo, hi)
        elif o.kind == "const" and "std::ops::Range" in (o.op.const.get("ty") or ""):
            # a named constant range: decode (start, end) of the evaluated value
            raw = decode_bytes(o.const_bytes() or "")
            if len(raw) >= 8:
                lo = int.from_bytes(raw[0:4], "little", signed=True)
                hi = int.from_bytes(raw[4:8], "little", signed=True)
                incl = "RangeInclusive" in o.op.const.get("ty")
                ok = lo <= hi and lo >= -(2 ** 31) and (hi <= -4096 if incl else hi <= -4095)
                why = "%s(%s, %s) [constant]" % ("RangeInclusive" if incl else "Range", lo, hi)
    # the id used as key is the gen_range value, untouched
    ko = T.origins_of_arg(entry[0], 1) if entry else []
    okk = bool(ko) and all(o.kind == "call" and o.term is gr[0] for o in ko)
    if srch is not None:
        # the producer closure returns the drawn value untouched, and the key inserted is what find() yielded (R2)
        pro = T.return_origins(srch[1])
        ins = list(b.calls("std::collections::HashMap::<K, V, S, A>::insert"))
        def found(os_, depth=0):
            return bool(os_) and depth < 4 and all(
                o.kind == "call" and (o.term is srch[0] or ((o.term.callee or "").rsplit("::", 1)[-1] in ("expect", "unwrap", "unwrap_unchecked")
                                                            and found(T.origins_of_arg(o.term, 0), depth + 1))) for o in os_)
        okk = bool(pro) and all(o.kind == "call" and o.term is gr[0] for o in pro) and len(ins) == 1 and found(T.origins_of_arg(ins[0], 1))
    if ok and okk:
        out.append(holds("C16.R3", "store_error:id-range", gr[0].where(), "%s: every id is below -4095" % why))
    else:
        out.append(violated("C16.R3", "store_error:id-range", gr[0].where(), "error ids can fall into [-4095, -1] or above (%s, key-is-range-value=%s)" % (why, okk)))
    return out


def r4_remove_on_read(ctx):
    F = ctx.facts
    T = ctx.tracer
    out = []
    b = F.body(EI)
    locks, drops = _guard_scope(ctx, b)
    rem = list(b.calls("std::collections::HashMap::<K, V, S, A>::remove"))
    others = [t for t in b.calls() if re.search(r"HashMap::<K, V, S, A>::(get|get_mut|contains_key|insert|entry|get_key_value)$", t.callee or "")]
    if len(locks) == 1 and len(rem) == 1 and not others:
        ko = T.origins_of_arg(rem[0], 1)
        okk = bool(ko) and all(o.kind == "param" and o.detail == 1 for o in ko)
        ro = T.return_origins(b)
        okr = bool(ro) and all(o.kind == "call" and (o.term is rem[0] or o.term.callee == "std::option::Option::<T>::map") for o in ro)
        # ... and the table is consulted on every call: no answer is given before the lookup (a shortcut that decides
        # "nothing pending" from other state answers NULL for an id that is in the table)
        cfg = cfg_of(b)
        bypass = set(cfg.reachable(cfg.entry, cut_nodes=[rem[0].bb])) & set(cfg.return_blocks())
        if okk and bypass:
            out.append(violated("C16.R4", "pathrs_errorinfo:remove", rem[0].where(), "pathrs_errorinfo can return without looking the id up in the table (a path from the entry to a return avoids HashMap::remove)"))
        elif okk:
            out.append(holds("C16.R4", "pathrs_errorinfo:remove", rem[0].where(), "HashMap::remove(err_id) under the lock; absent id -> None"))
        else:
            out.append(violated("C16.R4", "pathrs_errorinfo:remove", rem[0].where(), "remove() key is not the err_id parameter"))
    else:
        out.append(violated("C16.R4", "pathrs_errorinfo:remove", b.where(), "errorinfo must lock once and consume the entry with remove(): locks=%d remove=%d other-reads=%s" % (len(locks), len(rem), [t.callee for t in others])))
    return out


def r5_all_failures_via_table(ctx):
    F = ctx.facts
    T = ctx.tracer
    out = []
    n = 0
    for ex in F.externs:
        if not ex["no_mangle"]:
            continue
        ret = ex["ret"]
        if ret["class"] not in ("int",) or ret["size"] != 4:
            continue
        b = F.body(ex["path"])
        n += 1
        ro = T.return_origins(b)
        ok = bool(ro)
        for o in ro:
            if o.kind == "call" and (o.term.callee == "capi::ret::IntoCReturn::into_c_return" or
                                     (o.term.resolved or "").endswith("IntoCReturn>::into_c_return")):
                # the receiver must be a Result<_, Error> (so that Err goes through store_error)
                ty = o.term.argtys[0] if o.term.argtys else ""
                if not ty.startswith("std::result::Result<") or "error::Error>" not in ty:
                    ok = False
                continue
            if o.kind == "call" and o.term.callee in {e["path"] for e in F.externs}:
                continue
            ok = False
        key = "%s:return" % ex["symbol"]
        if ok:
            out.append(holds("C16.R5", key, b.where(), "returns Result<_, Error>::into_c_return (or another such function)"))
        else:
            out.append(violated("C16.R5", key, b.where(), "C return value does not come from Result::into_c_return: %r" % ro))
    # the Result impl: Err -> store_error ; Ok -> inner into_c_return
    rb = F.body("<std::result::Result<V, error::Error> as capi::ret::IntoCReturn>::into_c_return")
    cfg = cfg_of(rb)
    se = list(rb.calls(SE))
    sw = [blk for blk in rb.blocks if not blk.cleanup and blk.term.kind == "switch"]
    ok = False
    if len(se) == 1 and sw:
        errs = [e for e in cfg.succ.get(sw[0].idx, []) if e.label == ("sw", 1)]
        oks = [e for e in cfg.succ.get(sw[0].idx, []) if e.label == ("sw", 0)]
        ok = se[0].bb in cfg.edge_targets_reachable(errs) and se[0].bb not in cfg.edge_targets_reachable(oks)
        eo = T.origins_of_arg(se[0], 0)
        ok = ok and bool(eo) and all(o.kind == "param" and o.detail == 1 for o in eo)
    if not ok:
        # combinator form: self.map_or_else(store_error, <success conversion>)  -- the first function is applied to the Err payload
        for t in rb.calls("std::result::Result::<T, E>::map_or_else"):
            a0 = T.origins_of_arg(t, 0)
            f1 = t.args[1].fn() if len(t.args) > 1 and t.args[1].is_const else None
            if f1 == SE and a0 and all(o.kind == "param" and o.detail == 1 for o in a0):
                ro_ = T.return_origins(rb)
                if ro_ and all(o.kind == "call" and o.term is t for o in ro_):
                    ok = True
    (out.append(holds("C16.R5", "Result::into_c_return:err-arm", rb.where(), "Err(e) -> store_error(e)")) if ok else
     out.append(violated("C16.R5", "Result::into_c_return:err-arm", rb.where(), "the Err arm does not store the error in the table")))
    # non-negative producers: (), i32 passthrough (lengths), OwnedFd -> into_raw_fd
    for (p, what) in (("<() as capi::ret::IntoCReturn>::into_c_return", "const0"), ("<rustix::fd::OwnedFd as capi::ret::IntoCReturn>::into_c_return", "rawfd")):
        pb = F.body(p)
        ro = T.return_origins(pb)
        if what == "const0":
            ok = bool(ro) and all(o.kind == "const" and o.const_int(True) == 0 for o in ro)
        else:
            ok = bool(ro) and all(o.kind == "call" and o.term.callee.endswith("IntoRawFd::into_raw_fd") for o in ro)
        (out.append(holds("C16.R5", "%s:nonneg" % short(p), pb.where(), "success value is %s" % what)) if ok else
         out.append(violated("C16.R5", "%s:nonneg" % short(p), pb.where(), "success conversion changed: %r" % ro)))
    if n < 15:
        out.append(violated("C16.R5", "extern-count", "", "only %d int-returning extern \"C\" functions found" % n))
    return out


def r6_errno_table(ctx):
    F = ctx.facts
    T = ctx.tracer
    out = []
    b = F.body("error::ErrorKind::errno")
    cfg = cfg_of(b)
    adt = F.adts.get("error::ErrorKind")
    vn = [v["name"] for v in adt["variants"]]
    want = {"NotImplemented": ENOSYS, "InvalidArgument": EINVAL, "SafetyViolation": EXDEV}
    table = {}
    for blk in b.blocks:
        if blk.cleanup or blk.term.kind != "switch":
            continue
        if not any(s.kind == "assign" and s.rv["k"] == "discr" for s in blk.stmts):
            continue
        for e in cfg.succ.get(blk.idx, []):
            v = e.label[1]
            name = "otherwise" if v == "otherwise" else (vn[v] if v < len(vn) else str(v))
            tgt = b.blocks[e.dst]
            val = None
            for s in tgt.stmts:
                if s.kind == "assign" and s.lhs.local == 0 and s.rv["k"] == "agg":
                    if s.rv.get("variant") == "None":
                        val = None
                    elif s.rv.get("variant") == "Some":
                        op = s.rv_operands()[0]
                        val = op.int_value(True) if op.is_const else "payload"
                elif s.kind == "assign" and s.lhs.local == 0 and s.rv["k"] == "use":
                    val = "payload"
            table[name] = val
    exp = dict(want)
    exp["OsError"] = "payload"
    okt = all(table.get(k) == v for k, v in exp.items()) and all(v is None for k, v in table.items() if k not in exp)
    if okt:
        out.append(holds("C16.R6", "ErrorKind::errno:table", b.where(), "NotImplemented->ENOSYS, InvalidArgument->EINVAL, SafetyViolation->EXDEV, OsError(e)->e, else none"))
    else:
        out.append(violated("C16.R6", "ErrorKind::errno:table", b.where(), "errno table is %s" % table))
    # CError::from stores |errno| or 0
    cb = F.body("<capi::error::CError as std::convert::From<&error::Error>>::from")
    calls = [t.callee for t in cb.calls()]
    need = ["error::Error::kind", "error::ErrorKind::errno", "std::option::Option::<T>::unwrap_or", "core::num::<impl i32>::unsigned_abs"]
    miss = [x for x in need if x not in calls]
    dflt = [t for t in cb.calls("std::option::Option::<T>::unwrap_or")]
    ok0 = bool(dflt) and dflt[0].args[1].int_value(True) == 0
    okm = False
    if miss or not ok0:
        # explicit form: match err.kind().errno() { Some(e) => e.unsigned_abs(), None => 0 }
        for blk in cb.blocks:
            for i, st in enumerate(blk.stmts):
                if st.kind == "assign" and st.rv["k"] == "agg" and st.rv.get("adt") == "capi::error::CError":
                    names = st.rv.get("fields") or []
                    if "saved_errno" not in names:
                        continue
                    op = st.rv_operands()[names.index("saved_errno")]
                    os_ = T.origins_of_operand(cb, blk.idx, i, op)
                    seen_abs = seen_zero = False
                    other = []
                    for o in os_:
                        if o.kind == "call" and (o.term.callee or "").endswith("unsigned_abs"):
                            a = T.origins_of_arg(o.term, 0)
                            if a and all(x.kind == "call" and x.term.callee == "error::ErrorKind::errno" for x in a):
                                seen_abs = True
                            else:
                                other.append(o)
                        elif o.kind == "const" and o.const_int() == 0:
                            seen_zero = True
                        else:
                            other.append(o)
                    okm = seen_abs and seen_zero and not other
    if (not miss and ok0) or okm:
        out.append(holds("C16.R6", "CError::from:saved_errno", cb.where(), "saved_errno = |kind().errno()| or 0"))
    else:
        out.append(violated("C16.R6", "CError::from:saved_errno", cb.where(), "saved_errno derivation changed (missing %s, default-0=%s)" % (miss, ok0)))
    return out


def r7_invalid_arguments_are_einval(ctx):
    """'EINVAL for invalid arguments': every argument check of the C layer (negative descriptor, NULL path, unknown
    procfs base, invalid S_IFMT) answers with ErrorImpl::InvalidArgument, and the C layer never fabricates an errno
    of its own (an OsError built from a constant would surface as that errno instead)."""
    F = ctx.facts
    out = []
    from .c17 import r1_fd_params, r2_path_params, r4_no_rust_enums
    from .c14 import _c_mknod
    for fn, keys in ((r1_fd_params, ("try_as_borrowed_fd:guard",)), (r2_path_params, ("parse_path:null",)), (r4_no_rust_enums, ("CProcfsBase:conversion",)),
                     (_c_mknod, ("pathrs_inroot_mknod:otherwise",))):
        for i in fn(ctx):
            if i.key in keys:
                i.rule = "C16.R7"
                out.append(i)
    fab = []
    for b in F.fn_bodies():
        if not b.file.startswith("src/capi/"):
            continue
        for t in b.calls("std::io::Error::from_raw_os_error", "rustix::io::Errno::from_raw_os_error"):
            fab.append(t)
    if fab:
        out.append(violated("C16.R7", "capi:fabricated-errno", fab[0].where(), "the C layer builds an OS error from a constant errno (%d site(s)): the caller sees that errno instead of EINVAL/the failing system call's" % len(fab)))
    else:
        out.append(holds("C16.R7", "capi:fabricated-errno", "", "no errno is fabricated in src/capi"))
    return out


def r8_errno_is_the_failing_calls(ctx):
    """'the errno of the failing system call': wrappers built on rustix get the errno as a return value; the one raw
    libc call (openat2) reads the thread's errno afterwards -- that read (`last_os_error`) must come straight after the
    call it belongs to, with no other call in between on any path (a readlink made while describing the failure
    overwrites errno: the caller is told ENOENT for what was EBADF)."""
    F = ctx.facts
    out = []
    n = 0
    for b in F.fn_bodies():
        if is_bitflags_generated(b):
            continue
        cfg = cfg_of(b)
        for k, t in enumerate(b.calls("std::io::Error::last_os_error", "rustix::io::Errno::last_os_error", "std::io::Error::last_os_error")):
            n += 1
            key = "%s:last_os_error:%d" % (fn_key(b), k)
            # backwards to the raw call(s) the read belongs to, collecting every call passed on the way
            seen, work, raw, between, open_end = {t.bb}, [t.bb], [], [], False
            while work:
                x = work.pop()
                preds = cfg.pred.get(x, [])
                if not preds and x == cfg.entry:
                    open_end = True
                for e in preds:
                    pb = b.blocks[e.src]
                    if pb.term.kind == "call" and (pb.term.callee or "").startswith("libc::"):
                        raw.append(pb.term)
                        continue
                    if pb.term.kind == "call":
                        between.append(pb.term)
                    if e.src not in seen:
                        seen.add(e.src)
                        work.append(e.src)
            from .c10 import _may
            ms, _d = _may(ctx)
            g = cg(ctx)
            via = {}     # call site -> crate functions it can end up in (call-backs through Into/From etc. included)
            for tgt in g.edges.get(b.path, ()):
                for _kind, site in g.edge_info.get((b.path, tgt), ()):
                    if site is not None:
                        via.setdefault(id(site), set()).add(tgt)
            harmful = [c for c in between if os_entry_class(c) or c.resolved in ms or (c.callee or "") in ms or (c.callee or "").startswith("syscalls::")
                       or any(nm in ms for nm in c.names) or any(x in ms for x in via.get(id(c), ()))]
            if not raw or open_end:
                out.append(violated("C16.R8", key, t.where(), "errno is read on a path without a preceding raw system call in the function"))
            elif harmful:
                out.append(violated("C16.R8", key, t.where(), "between the raw system call and the read of errno the function calls %s, which may perform system calls of its own: what they leave in errno is reported as the failure" % sorted({c.callee for c in harmful})))
            else:
                out.append(holds("C16.R8", key, t.where(), "errno read after %s with nothing in between that can touch it (%d call(s) passed: %s)" % (sorted({p.callee for p in raw}), len(between), sorted({c.callee for c in between})[:4])))
    if n == 0:
        out.append(holds("C16.R8", "last_os_error:none", "", "no wrapper reads the thread's errno; every errno is a returned value"))
    return out


def r9_description_is_captured(ctx):
    """'a description of exactly that failure': everything an error says about the failing call is captured when the
    call fails.  Formatting an error later (pathrs_errorinfo builds the description then, possibly on another thread
    and after descriptor numbers were reused) performs no system call and looks nothing up: no Display/Debug impl of
    the error types reaches a system call."""
    from .c10 import _may
    F = ctx.facts
    ms, _d = _may(ctx)
    out = []
    n = 0
    for b in F.fn_bodies():
        if not (b.file in ("src/syscalls.rs", "src/error.rs") or b.file.startswith("src/capi/error")):
            continue
        if not re.search(r" as std::fmt::(Display|Debug)>::fmt$", b.path):
            continue
        n += 1
        direct = [t for t in b.calls() if os_entry_class(t) or RX_WRAPPER.search(t.callee or "") or (t.callee or "").startswith("utils::fd::FdExt::")]
        if b.path in ms or direct:
            out.append(violated("C16.R9", "%s:pure" % fn_key(b), b.where(), "formatting this error value may perform system calls (%s): the description is computed when it is printed, not when the call failed"
                                % (sorted({t.callee for t in direct})[:3] or "through its callees")))
        else:
            out.append(holds("C16.R9", "%s:pure" % fn_key(b), b.where(), "prints captured data only"))
    if n == 0:
        out.append(violated("C16.R9", "fmt-impls", "", "no Display/Debug impls of the error types found (anchor drift)"))
    return out


RULES = [
    ("C16.R7", r7_invalid_arguments_are_einval, 5, True),
    ("C16.R1", r1_who_touches, 3, True),
    ("C16.R2", r2_one_critical_section, 2, True),
    ("C16.R3", r3_id_range, 1, True),
    ("C16.R4", r4_remove_on_read, 1, True),
    ("C16.R5", r5_all_failures_via_table, 18, True),
    ("C16.R6", r6_errno_table, 2, True),
    ("C16.R8", r8_errno_is_the_failing_calls, 1, True),
    ("C16.R9", r9_description_is_captured, 3, True),
]
