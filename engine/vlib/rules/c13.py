"""C13 — remove_all removes exactly the named subtree and never follows links."""
from ..cfg import cfg_of
from ..common import *
from ..cut import bool_edges, origin_keys, result_edges
from ..engine import holds, unproven, violated
from ..facts import Operand, Place
from .c03 import excl
from .c05 import shared, _cls

EXPLANATION = ("C13: the descent open of remove_all can never be handed '.' or '..' (refusal in the function, every caller, or "
               "the name's producer); descent is by O_DIRECTORY|O_NOFOLLOW open of a single component relative to the "
               "parent fd and recursion passes that fd; removals are unlinkat(dirfd, name, 0|AT_REMOVEDIR); the scan skips "
               "'.'/'..'; ENOENT is tolerated through ignore_enoent only, which maps exactly errno 2 to Ok.")
ASSUMPTIONS = ["frame condition over the whole filesystem and convergence of concurrent callers are not decided"]

RA = "utils::dir::remove_all"
RI = "utils::dir::remove_inode"
IGN = "utils::dir::RmdirResultExt::ignore_enoent"


def r1_dot_dotdot(ctx):
    F = ctx.facts
    X = excl(ctx)
    out = []
    b = F.body(RA)
    opens = list(b.calls("syscalls::openat"))
    if not opens:
        return [violated("C13.R1", "remove_all:descent-open", b.where(), "no descent open found in utils::dir::remove_all")]
    for n, t in enumerate(opens):
        ex, proofs = X.excluded_for_arg(t, 1)
        miss = [c for c in (".", "..") if c not in ex]
        key = "utils::dir::remove_all:openat"
        if miss:
            out.append(violated("C13.R1", key, t.where(),
                                "remove_all can open %s with O_DIRECTORY and recurse into it: a path naming '.'/'..' is applied to another directory instead of being refused"
                                % " and ".join(repr(m) for m in miss), proofs))
        else:
            out.append(holds("C13.R1", key, t.where(), "'.' and '..' are refused before the descent", proofs))
    return out


def r2_no_follow_descent(ctx):
    F = ctx.facts
    T = ctx.tracer
    ipa, pp = shared(ctx)
    out = []
    b = F.body(RA)
    bits = ipa.bits_of(b.path)
    opens = list(b.calls("syscalls::openat"))
    for t in opens:
        v = bits.arg_value(t, 2)
        if v is not None and v.has(O_DIRECTORY) and v.all(lambda a: bool(a.c & O_CREAT)) and v.all(lambda a: bool(a.c & O_PATH) or True):
            out.append(holds("C13.R2", "remove_all:descent-flags", t.where(), "descent open is O_DIRECTORY (O_NOFOLLOW|O_CLOEXEC forced by the wrapper)"))
        else:
            out.append(violated("C13.R2", "remove_all:descent-flags", t.where(), "descent open flags: %r" % v))
    # ... which is only as good as the wrapper: it has to force O_NOFOLLOW for every flag combination
    from .c05 import r2_forced_flags
    for i in r2_forced_flags(ctx):
        if i.rule == "C05.R2b":
            i.rule = "C13.R2"
            i.key = "wrapper:" + i.key
            out.append(i)
    # recursion passes the opened fd and a scanned name
    rec = list(b.calls(RA))
    if not rec:
        out.append(violated("C13.R2", "remove_all:recursion", b.where(), "no recursive call found"))
    for t in rec:
        o = T.origins_of_arg(t, 0)
        okfd = bool(o) and all(x.kind == "call" and x.term in opens for x in o)
        pc = _cls(pp.classify_path_arg(t, 1))
        if okfd and pc == {"component"}:
            out.append(holds("C13.R2", "remove_all:recursion", t.where(), "recursion descends by the opened directory fd with a scanned entry name"))
        else:
            out.append(violated("C13.R2", "remove_all:recursion", t.where(), "recursive call: dirfd %r, name classes %s" % (o, sorted(pc))))
    # the scan reads the opened fd
    for t in b.calls("rustix::fs::Dir::read_from"):
        o = T.origins_of_arg(t, 0)
        okfd = bool(o) and all(x.kind == "call" and x.term in opens for x in o)
        (out.append(holds("C13.R2", "remove_all:scan-fd", t.where(), "directory scan of the opened subdirectory")) if okfd else
         out.append(violated("C13.R2", "remove_all:scan-fd", t.where(), "directory scan of something other than the opened subdirectory: %r" % o)))
    # remove_inode: only unlinkat with constant flags on its own (dirfd, name)
    rb = F.body(RI)
    for cb in [rb] + F.closures_of(RI):
        for t in cb.calls(RX_WRAPPER):
            if t.callee != "syscalls::unlinkat":
                out.append(violated("C13.R2", "remove_inode:%s" % t.callee, t.where(), "remove_inode performs %s" % t.callee))
                continue
            d = T.origins_of_arg(t, 0)
            nme = T.origins_of_arg(t, 1)
            ok = all(o.kind == "param" and o.body is rb and o.detail == 1 for o in d) and all(o.kind == "param" and o.body is rb and o.detail == 2 for o in nme) and d and nme
            k = "remove_inode:unlinkat:%s" % ("closure" if cb is not rb else "direct")
            (out.append(holds("C13.R2", k, t.where(), "unlinkat on the function's own (dirfd, name)")) if ok else
             out.append(violated("C13.R2", k, t.where(), "unlinkat arguments are not the function's own (dirfd, name): %r %r" % (d, nme))))
    return out


def r3_enoent_discipline(ctx):
    F = ctx.facts
    T = ctx.tracer
    out = []
    b = F.body(RA)
    cfg = cfg_of(b)
    # results of remove_inode and of the recursive call flow into ignore_enoent
    for t in list(b.calls(RI)) + list(b.calls(RA)):
        d = t.dest
        used = False
        for c in b.calls(IGN):
            o = T.origins_of_arg(c, 0)
            if any(x.kind == "call" and x.term is t for x in o):
                used = True
        key = "remove_all:%s@%s" % (t.callee.split("::")[-1], "rec" if t.callee == RA else "inode")
        n = sum(1 for i in out if i.key.startswith(key))
        key = "%s:%d" % (key, n)
        (out.append(holds("C13.R3", key, t.where(), "result passes through ignore_enoent")) if used else
         out.append(violated("C13.R3", key, t.where(), "result of %s is propagated without tolerating ENOENT (concurrent removers would fail)" % t.callee)))
    # ignore_enoent maps exactly errno 2 to Ok
    ib = F.body("<std::result::Result<(), error::Error> as utils::dir::RmdirResultExt>::ignore_enoent")
    icfg = cfg_of(ib)
    okb = [blk.idx for blk in ib.blocks if not blk.cleanup for s in blk.stmts
           if s.kind == "assign" and s.lhs.local == 0 and s.rv["k"] == "agg" and s.rv.get("variant") == "Ok"]
    from ..cut import errno_branches
    errnos = set()
    for br in errno_branches(ib, T):
        if any(o in icfg.edge_targets_reachable(br["eq"]) for o in okb):
            errnos.add(br["errno"])
    # an Ok(()) that is reachable without distinguishing any errno means every error is swallowed
    if okb and any(o in icfg.reachable(icfg.entry, cut_nodes=[br["bb"] for br in errno_branches(ib, T)]) for o in okb):
        # the pass-through arm (self was Ok) is legitimate: it is reached on the Ok discriminant edge
        pass
    if errnos == {ENOENT}:
        out.append(holds("C13.R3", "ignore_enoent:errno-set", ib.where(), "only ENOENT becomes Ok(())"))
    else:
        out.append(violated("C13.R3", "ignore_enoent:errno-set", ib.where(), "errors mapped to success: %s" % sorted(map(str, errnos))))
    # the descent open: only ENOENT returns Ok early
    for t in b.calls("syscalls::openat"):
        r = result_edges(b, t)
        if not r or not r["err"]:
            out.append(unproven("C13.R3", "remove_all:open-enoent", t.where(), "cannot find the error edge of the descent open"))
            continue
        after = cfg.edge_targets_reachable(r["err"])
        errs = set()
        from ..cut import errno_branches
        for br in errno_branches(b, T):
            if br["bb"] not in after:
                continue
            tgt = cfg.precise_reach(br["eq"])
            okret = any(s.kind == "assign" and s.lhs.local == 0 and s.rv["k"] == "agg" and s.rv.get("variant") == "Ok"
                        for x in tgt for s in b.blocks[x].stmts)
            scan = any(c.bb in tgt for c in b.calls("rustix::fs::Dir::read_from"))
            if okret and not scan:
                errs.add(br["errno"])
        if errs == {ENOENT}:
            out.append(holds("C13.R3", "remove_all:open-enoent", t.where(), "descent open: only ENOENT means 'already gone'"))
        else:
            out.append(violated("C13.R3", "remove_all:open-enoent", t.where(), "descent open errors treated as success: %s" % sorted(map(str, errs))))
    return out


def r4_scan_skips_dots(ctx):
    F = ctx.facts
    X = excl(ctx)
    out = []
    b = F.body(RA)
    for t in b.calls(RA):
        ex, proofs = X.excluded_for_arg(t, 1)
        if {".", ".."} <= ex:
            out.append(holds("C13.R4", "remove_all:scan-filter", t.where(), "scanned names exclude '.' and '..'", proofs))
        else:
            out.append(violated("C13.R4", "remove_all:scan-filter", t.where(), "directory scan can hand '.'/'..' to the recursion (excluded: %s)" % sorted(ex)))
    return out


def r5_named_subtree(ctx):
    """'exactly the named subtree': the (parent, name) pair remove_all works on is the in-root lookup of the path the
    caller gave -- every byte of it (C05.R8: no truncating or lossy conversion on the way to the kernel, else the
    kernel resolves a different parent than path_split saw), split once by resolve_parent (C14.R6)."""
    from .c05 import r8_path_fidelity
    from .c14 import r6_resolve_parent
    out = []
    for i in r8_path_fidelity(ctx):
        i.rule = "C13.R5"
        i.key = "path-fidelity:" + i.key
        out.append(i)
    out.extend(r6_resolve_parent(ctx, "C13.R5"))
    return out


RULES = [
    ("C13.R1", r1_dot_dotdot, 1, False),
    ("C13.R2", r2_no_follow_descent, 5, False),
    ("C13.R3", r3_enoent_discipline, 4, False),
    ("C13.R4", r4_scan_skips_dots, 1, False),
    ("C13.R5", r5_named_subtree, 10, False),
]
