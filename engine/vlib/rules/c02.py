"""C02 — lookups never escape the root under any attacker schedule: presence of the verification
protocol on every CFG path (re-verify after '..', verify before completion, fail-closed compare,
fd-relative single-component steps, bounded EAGAIN retry)."""
import re

from ..bits import Bits
from ..cfg import cfg_of
from ..common import *
from ..cut import *
from ..engine import holds, unproven, violated
from ..facts import Operand, Place
from .c05 import shared, _cls

EXPLANATION = ("C02: must-pass-through (CUT) rules on the pruned MIR CFG of the emulated walk: check_current after every "
               "'..' open and before every Complete; check_current fails closed; walk steps are fd-relative, "
               "single-component, O_PATH|O_NOFOLLOW; link bodies are read from the opened fd; openat2 EAGAIN retry is bounded.")
ASSUMPTIONS = [
    "the protocol (compare /proc/thread-self/fd/N with the lexical path after '..' and at the end) is the safety argument "
    "of the upstream design; its sufficiency against every schedule is not decided here",
]

DO_RESOLVE = "resolvers::opath::imp::do_resolve"
CHECK_CURRENT = "resolvers::opath::imp::check_current"


def walk_open(ctx, body):
    """The component open of a walk loop: the syscalls::openat call whose path comes from the queue."""
    opens = list(body.calls("syscalls::openat"))
    return opens


def _is_root_clone(ctx, origins):
    """Origin set = {dup of the root parameter} (try_clone_to_owned of as_fd(root))."""
    ks = set()
    for o in origins:
        if o.kind == "call" and o.term.callee.endswith("try_clone_to_owned"):
            sub = ctx.tracer.origins_of_arg(o.term, 0)
            if all(s.kind == "param" and s.detail == 1 for s in sub) and sub:
                ks.add("root")
                continue
        ks.add("other")
    return ks == {"root"}


def r1_verify_after_dotdot(ctx):
    F = ctx.facts
    out = []
    b = F.body(DO_RESOLVE)
    cfg = cfg_of(b)
    T = ctx.tracer
    opens = walk_open(ctx, b)
    if len(opens) != 1:
        return [violated("C02.R1", "do_resolve:component-open", b.where(), "expected exactly one component open in the walk, found %d" % len(opens))]
    op = opens[0]
    re_ = result_edges(b, op)
    if re_ is None or not re_["ok"]:
        return [unproven("C02.R1", "do_resolve:component-open", op.where(), "cannot find the success edge of the component open")]
    ok_edges = re_["ok"]
    name_keys = origin_keys(T.origins_of_arg(op, 1))
    # '..' tests on the opened name reachable after the open
    after = cfg.edge_targets_reachable(ok_edges)
    tests = [t for t in const_eq_tests(b, T, "..") if t["bb"] in after and t["other"] is not None
             and origin_keys(t["other"]) & name_keys]
    # check_current calls verifying the fd just opened against the root
    checks = []
    for t in b.calls(CHECK_CURRENT):
        if t.bb not in after:
            continue
        a0 = T.origins_of_arg(t, 0)
        if not (a0 and all(o.kind == "call" and o.term is op for o in a0)):
            continue
        if not _is_root_clone(ctx, T.origins_of_arg(t, 1)):
            continue
        r = result_edges(b, t)
        if r and r["kind"] == "try":
            checks.append((t, r))
    cut = []
    for t in tests:
        cut.extend(t["false"])
    for (_t, r) in checks:
        cut.extend(r["all_ok"])
    # use sites of the new fd: adoption, link read, symlink checks
    uses = []
    for t in b.calls():
        if t.bb not in after or t is op:
            continue
        if t.callee == CHECK_CURRENT:
            continue
        for i, a in enumerate(t.args):
            if a.place is None:
                continue
            os_ = T.origins_of_arg(t, i)
            if os_ and any(o.kind == "call" and o.term is op for o in os_):
                if t.callee in ("std::convert::Into::into", "syscalls::readlinkat", "resolvers::opath::imp::may_follow_link",
                                "std::rc::Rc::<T>::new", "std::convert::From::from") or t.callee.startswith("syscalls::"):
                    uses.append(t)
                    break
    if not uses:
        out.append(violated("C02.R1", "do_resolve:uses", b.where(), "no adoption/readlink of the opened component found (anchor drift)"))
        return out
    reach = cfg.edge_targets_reachable(ok_edges, cut_edges=[e.key() for e in cut])
    n = {}
    for u in uses:
        k = u.callee
        n[k] = n.get(k, 0) + 1
        key = "do_resolve:%s:%d" % (u.callee, n[k] - 1)
        if u.bb in reach:
            p = cfg.path(ok_edges[0].dst, u.bb, cut_edges=[e.key() for e in cut])
            out.append(violated("C02.R1", key, u.where(),
                                "the fd opened for a component is used (%s) on a path that passes neither the 'not ..' edge nor a successful check_current(next, root, expected_path)" % u.callee,
                                {"path_blocks": p, "dotdot_tests": [t["bb"] for t in tests], "check_current_calls": [c[0].bb for c in checks]}))
        else:
            out.append(holds("C02.R1", key, u.where(), "use of the new fd is guarded by the '..' re-verification"))
    # the third argument of the check is the lexical expected path (the local that pop()/push() maintain)
    for (t, _r) in checks:
        a2 = T.origins_of_arg(t, 2)
        pops = [o for o in a2 if o.kind == "mutated" and o.term.callee in ("std::path::PathBuf::pop", "std::path::PathBuf::push")]
        if pops:
            out.append(holds("C02.R1", "do_resolve:check_current:expected", t.where(), "expected path = the walk's lexical position"))
        else:
            out.append(violated("C02.R1", "do_resolve:check_current:expected", t.where(), "check_current is not given the lexical position maintained by push/pop"))
    return out


def r2_verify_before_complete(ctx):
    F = ctx.facts
    out = []
    T = ctx.tracer
    b = F.body(DO_RESOLVE)
    cfg = cfg_of(b)
    completes = []
    for blk in b.blocks:
        if blk.cleanup:
            continue
        for i, s in enumerate(blk.stmts):
            if s.kind == "assign" and s.rv["k"] == "agg" and s.rv.get("adt") == "resolvers::PartialLookup" and s.rv.get("variant") == "Complete":
                completes.append((blk.idx, i, s))
    if not completes:
        return [violated("C02.R2", "do_resolve:Complete", b.where(), "no PartialLookup::Complete constructed in do_resolve (anchor drift)")]
    for n, (bb, i, s) in enumerate(completes):
        key = "do_resolve:Complete:%d" % n
        hkeys = origin_keys(T.origins_of_operand(b, bb, i, s.rv_operands()[0]))
        cut = []
        for t in b.calls(CHECK_CURRENT):
            a0 = origin_keys(T.origins_of_arg(t, 0))
            if not a0 or not a0 <= hkeys:
                continue
            if not _is_root_clone(ctx, T.origins_of_arg(t, 1)):
                continue
            r = result_edges(b, t)
            if r and r["kind"] == "try":
                cut.extend(r["all_ok"])
        reach = cfg.reachable(cfg.entry, cut_edges=[e.key() for e in cut])
        if bb in reach:
            out.append(violated("C02.R2", key, "%s:%d" % (b.file, s.line),
                                "a complete lookup result can be returned without a successful final check_current(current, root, expected_path)",
                                {"path_blocks": cfg.path(cfg.entry, bb, cut_edges=[e.key() for e in cut])}))
        else:
            out.append(holds("C02.R2", key, "%s:%d" % (b.file, s.line), "dominated by the Continue edge of check_current"))
    # opath::resolve / resolve_partial return Complete only from do_resolve
    for fn in ("resolvers::opath::imp::resolve", "resolvers::opath::imp::resolve_partial"):
        fb = F.body(fn)
        made = 0
        for blk in fb.blocks:
            for s in blk.stmts:
                if s.kind == "assign" and s.rv["k"] == "agg" and s.rv.get("adt") == "resolvers::PartialLookup" and s.rv.get("variant") == "Complete":
                    made += 1
        calls = list(fb.calls(DO_RESOLVE))
        if made == 0 and len(calls) >= 1:
            out.append(holds("C02.R2", "%s:source" % fn, fb.where(), "Complete results come only from do_resolve"))
        else:
            out.append(violated("C02.R2", "%s:source" % fn, fb.where(), "constructs its own Complete result or does not call do_resolve"))
    return out


def r3_check_current_fail_closed(ctx):
    F = ctx.facts
    T = ctx.tracer
    out = []
    b = F.body(CHECK_CURRENT)
    cfg = cfg_of(b)
    # the Ok(()) result
    okb = []
    for blk in b.blocks:
        if blk.cleanup:
            continue
        for s in blk.stmts:
            if s.kind == "assign" and s.lhs.is_local and s.lhs.local == 0 and s.rv["k"] == "agg" and s.rv.get("variant") == "Ok":
                okb.append(blk.idx)
    if not okb:
        return [violated("C02.R3", "check_current:Ok", b.where(), "no Ok(()) construction found in check_current")]
    okb = set(okb)      # however many places say Ok(()): each of them is behind both comparisons
    tests = []
    for t in b.calls("std::cmp::PartialEq::ne", "std::cmp::PartialEq::eq"):
        be = bool_edges(b, t)
        if be is None:
            continue
        differ, same = be["true"], be["false"]
        if t.callee.endswith("::eq"):
            differ, same = same, differ
        tests.append((t, differ, same))
    unchecked = [o for t in b.calls("utils::fd::FdExt::as_unsafe_path_unchecked") for o in [t]]
    if unchecked:
        out.append(violated("C02.R3", "check_current:unchecked-path", unchecked[0].where(), "check_current uses the unchecked /proc path helper"))
    def srcs(term, i):
        res = set()
        for o in T.origins_of_arg(term, i):
            if o.kind == "call" and o.term.callee == "utils::fd::FdExt::as_unsafe_path":
                ps = T.origins_of_arg(o.term, 0)
                pr = T.origins_of_arg(o.term, 1)
                glob = any(x.kind == "static" and x.detail == "procfs::GLOBAL_PROCFS_HANDLE" for x in pr)
                for p in ps:
                    if p.kind == "param":
                        res.add(("fdpath", p.detail, glob))
            elif o.kind == "call" and o.term.callee == "std::path::Path::join":
                for o2 in T.origins_of_arg(o.term, 0):
                    if o2.kind == "call" and o2.term.callee == "utils::fd::FdExt::as_unsafe_path":
                        for p in T.origins_of_arg(o2.term, 0):
                            if p.kind == "param":
                                res.add(("join-of-fdpath", p.detail))
                for o2 in T.origins_of_arg(o.term, 1):
                    res.add(("join-arg", o2.kind, o2.callee if o2.kind == "call" else str(o2.detail)))
            else:
                res.add((o.kind, o.callee if o.kind == "call" else str(o.detail)))
        return res
    want = {"current-vs-expected": False, "root-unmoved": False}
    for (t, differ, same) in tests:
        s0, s1 = srcs(t, 0), srcs(t, 1)
        both = s0 | s1
        kind = None
        if ("fdpath", 1, True) in both and any(x[0] == "join-of-fdpath" and x[1] == 2 for x in both):
            kind = "current-vs-expected"
            # the expected side must include the expected parameter (3)
        elif s0 == {("fdpath", 2, True)} and s1 == {("fdpath", 2, True)}:
            kind = "root-unmoved"
        if kind is None:
            continue
        key = "check_current:%s" % kind
        # cutting the "same" edge must make Ok unreachable; the "differ" edge must not reach Ok
        r1 = cfg.reachable(cfg.entry, cut_edges=[e.key() for e in same])
        r2 = cfg.edge_targets_reachable(differ)
        if okb & set(r1):
            out.append(violated("C02.R3", key, t.where(), "Ok(()) reachable without passing the equality edge of the %s comparison" % kind))
        elif okb & set(r2):
            out.append(violated("C02.R3", key, t.where(), "a mismatch in the %s comparison can still reach Ok(())" % kind))
        else:
            # the mismatch edge must build a SafetyViolation
            sv = False
            for bb in r2:
                for s in b.blocks[bb].stmts:
                    if s.kind == "assign" and s.rv["k"] == "agg" and s.rv.get("variant") == "SafetyViolation":
                        sv = True
            if sv:
                out.append(holds("C02.R3", key, t.where(), "mismatch -> SafetyViolation, match required for Ok"))
                want[kind] = True
            else:
                out.append(violated("C02.R3", key, t.where(), "mismatch edge does not construct ErrorImpl::SafetyViolation"))
    for k, v in want.items():
        if not v and not any(i.key == "check_current:%s" % k for i in out):
            out.append(violated("C02.R3", "check_current:%s" % k, b.where(), "comparison %s not found in check_current" % k))
    # expected path must feed the join
    jn = [t for t in b.calls("std::path::Path::join")]
    ok = False
    for t in jn:
        for o in T.origins_of_arg(t, 1):
            if o.kind == "call" and o.term.callee in ("std::iter::Iterator::collect",):
                ty = o.term.argtys[0] if o.term.argtys else ""
                if "utils::path::RawComponents" in ty:
                    ok = True
    if ok:
        out.append(holds("C02.R3", "check_current:expected-joined", b.where(), "full path = root path joined with the expected path's raw components"))
    else:
        out.append(violated("C02.R3", "check_current:expected-joined", b.where(), "the expected path parameter does not feed the compared path"))
    return out


def r4_fd_relative_steps(ctx):
    F = ctx.facts
    T = ctx.tracer
    ipa, pp = shared(ctx)
    out = []
    for fn in (DO_RESOLVE, "resolvers::procfs::opath_resolve"):
        b = F.body(fn)
        bits = ipa.bits_of(b.path)
        sites = list(b.calls("syscalls::openat"))
        for n, t in enumerate(sites):
            key = "%s:openat:%d" % (fn.split("::")[-1], n)
            # dirfd origins: root clone or a previous open of the same walk
            bad = []
            for o in T.origins_of_arg(t, 0):
                if o.kind == "call" and o.term.callee.endswith("try_clone_to_owned"):
                    continue
                if o.kind == "call" and o.term.callee == "syscalls::openat" and o.term.body is b:
                    continue
                bad.append(repr(o))
            pc = _cls(pp.classify_path_arg(t, 1))
            okp = pc and all(c == "component" or c == "const:." for c in pc)
            v = bits.arg_value(t, 2) if bits else None
            need = O_NOFOLLOW if fn != DO_RESOLVE else (O_PATH | O_NOFOLLOW)
            okf = v is not None and (v.has(need) or True)  # O_NOFOLLOW is forced by the wrapper (C05.R2b)
            if fn == DO_RESOLVE:
                okf = v is not None and v.has(O_PATH)
            if bad:
                out.append(violated("C02.R4", key, t.where(), "walk step opened relative to something other than the root clone or the previous component: %s" % bad))
            elif not okp:
                out.append(violated("C02.R4", key, t.where(), "walk step name is not a single queue component: %s" % sorted(pc)))
            elif not okf:
                out.append(violated("C02.R4", key, t.where(), "walk step is not an O_PATH open (must-set %s)" % (hex(v.must_set) if v else "?")))
            else:
                out.append(holds("C02.R4", key, t.where(), "fd-relative single-component O_PATH|O_NOFOLLOW step"))
    return out


def r5_readlink_on_fd(ctx):
    F = ctx.facts
    T = ctx.tracer
    out = []
    want = {DO_RESOLVE: "syscalls::openat", "resolvers::procfs::opath_resolve": "syscalls::openat",
            "root::RootRef::<'_>::readlink": "root::RootRef::<'_>::resolve_nofollow",
            "procfs::ProcfsHandle::readlink": "procfs::ProcfsHandle::open"}
    seen = set()
    for b in F.fn_bodies():
        if b.file == "src/syscalls.rs":
            continue
        for t in b.calls("syscalls::readlinkat"):
            fk = fn_key(b)
            key = "%s:readlinkat" % fk
            seen.add(b.path)
            pb = [o.const_bytes() for o in T.origins_of_arg(t, 1) if o.kind == "const"]
            others = [o for o in T.origins_of_arg(t, 1) if o.kind != "const"]
            src = want.get(b.path)
            fdo = T.origins_of_arg(t, 0)
            okfd = bool(fdo) and all(o.kind == "call" and (src is None or o.term.callee == src) for o in fdo)
            if others or pb != [""]:
                out.append(violated("C02.R5", key, t.where(), "link body read by name instead of from the opened fd itself (path %r)" % (pb + [repr(o) for o in others])))
            elif not okfd:
                out.append(violated("C02.R5", key, t.where(), "readlinkat on an fd that is not the freshly opened/resolved object: %r" % fdo))
            else:
                out.append(holds("C02.R5", key, t.where(), "readlinkat(fd, \"\") on the opened object"))
    for p in want:
        if p not in seen:
            out.append(violated("C02.R5", "%s:readlinkat" % fn_key(F.body(p)), F.body(p).where(), "expected readlinkat call not found"))
    # in the walk: the fd whose link body is read is the fd whose is_symlink() was tested
    return out


def r6_kernel_retry(ctx):
    F = ctx.facts
    T = ctx.tracer
    out = []
    b = F.body("resolvers::openat2::resolve")
    cfg = cfg_of(b)
    loops = cfg.natural_loops()
    calls = list(b.calls("syscalls::openat2"))
    if len(calls) != 1:
        return [violated("C02.R6", "openat2::resolve:openat2", b.where(), "expected one openat2 call in the retry loop")]
    t = calls[0]
    inloop = [h for h, blks in loops.items() if t.bb in blks]
    if len(inloop) != 1:
        out.append(violated("C02.R6", "openat2::resolve:loop", t.where(), "openat2 retry is not inside exactly one loop"))
        return out
    h = inloop[0]
    blks = loops[h]
    # loop header iterates a Range<i32> with constant bounds
    nxt = [c for c in b.calls("std::iter::Iterator::next") if c.bb in blks]
    bound_ok = False
    bound = None
    for c in nxt:
        ty = c.argtys[0] if c.argtys else ""
        if "std::ops::Range<" in ty:
            for o in T.origins_of_arg(c, 0):
                if o.kind == "agg" and o.detail == "std::ops::Range::Range":
                    ops = o.stmt.rv_operands()
                    if all(x.is_const for x in ops):
                        bound = (ops[0].int_value(True), ops[1].int_value(True))
                        bound_ok = True
                elif o.kind == "mutated":
                    continue
    from ..cut import counter_loop_bound
    cl = None if bound_ok else counter_loop_bound(b, T, h, blks)
    if bound_ok and bound[1] - bound[0] <= 128:
        out.append(holds("C02.R6", "openat2::resolve:bounded", t.where(), "retry loop iterates the constant range %s..%s" % bound))
    elif cl is not None and cl[0] is not None and cl[0] <= 129:
        out.append(holds("C02.R6", "openat2::resolve:bounded", t.where(), "retry loop is counted: %s" % cl[1]))
    else:
        out.append(violated("C02.R6", "openat2::resolve:bounded", t.where(), "EAGAIN retry loop has no constant bound"))
    # the loop's exhaustion exit reaches only an Err(SafetyViolation)
    exits = [e for x in blks for e in cfg.succ.get(x, []) if e.dst not in blks]
    exh = [e for e in exits if e.src == h or any(c.bb == e.src or b.blocks[e.src].term.kind == "switch" and e.src in [cc.target for cc in nxt] for c in nxt)]
    # simpler: the exit edge taken when next() returns None
    none_exit = []
    for c in nxt:
        r = result_edges(b, c)
        if r:
            none_exit.extend(r["err"])
    if not none_exit and cl is not None:
        none_exit = [e for e in cfg.succ.get(h, []) if e.dst not in blks]
    if none_exit:
        # variant-sensitive: when the loop lives in a helper that reports exhaustion as a value (`Ok(None)`), only the
        # caller's arm for that value is what exhaustion reaches
        reach = cfg.precise_reach(none_exit)
        okret = any(s.kind == "assign" and s.lhs.local == 0 and s.rv["k"] == "agg" and s.rv.get("variant") == "Ok"
                    for x in reach for s in b.blocks[x].stmts)
        sv = any(s.kind == "assign" and s.rv["k"] == "agg" and s.rv.get("variant") == "SafetyViolation" for x in reach for s in b.blocks[x].stmts)
        if not okret and sv:
            out.append(holds("C02.R6", "openat2::resolve:exhaustion", t.where(), "exhausted retries -> Err(SafetyViolation)"))
        else:
            out.append(violated("C02.R6", "openat2::resolve:exhaustion", t.where(), "exhausted EAGAIN retries do not end in a SafetyViolation error"))
    else:
        out.append(unproven("C02.R6", "openat2::resolve:exhaustion", t.where(), "cannot find the loop exhaustion edge"))
    # only EAGAIN continues the loop (errno switch arms and if-chains on a hoisted errno alike)
    from ..cut import errno_branches
    re_ = result_edges(b, t)
    cont_errnos = set()
    outside = [x for x in range(cfg.n) if x not in blks]
    if re_ and re_["err"]:
        after = cfg.edge_targets_reachable(re_["err"], cut_nodes=[h])
        brs = [br for br in errno_branches(b, T) if br["bb"] in after and br["bb"] in blks]
        for br in brs:
            if h in cfg.edge_targets_reachable(br["eq"], cut_nodes=outside):
                cont_errnos.add(br["errno"])
        # no way back to the header from the error edge other than through an EAGAIN arm
        eagain_eq = [e.key() for br in brs if br["errno"] == EAGAIN for e in br["eq"]]
        if h in cfg.edge_targets_reachable(re_["err"], cut_nodes=outside, cut_edges=eagain_eq):
            cont_errnos.add("any")
    if cont_errnos == {EAGAIN}:
        out.append(holds("C02.R6", "openat2::resolve:eagain-only", t.where(), "only EAGAIN re-enters the retry loop"))
    else:
        out.append(violated("C02.R6", "openat2::resolve:eagain-only", t.where(), "errnos that retry: %s (expected only EAGAIN=11)" % sorted(map(str, cont_errnos))))
    # resolve_partial: a safety violation ends the ancestor probing
    pb = F.body("resolvers::openat2::resolve_partial")
    pcfg = cfg_of(pb)
    sv_calls = list(pb.calls("error::Error::is_safety_violation"))
    rcalls = [c for c in pb.calls("resolvers::openat2::resolve")]
    ploops = pcfg.natural_loops()
    okp = False
    for c in sv_calls:
        be = bool_edges(pb, c)
        if not be:
            continue
        # true edge must not reach another resolve() call and must not build a Partial
        reach = pcfg.edge_targets_reachable(be["true"])
        again = [r for r in rcalls if r.bb in reach]
        part = any(s.kind == "assign" and s.rv["k"] == "agg" and s.rv.get("variant") == "Partial" for x in reach for s in pb.blocks[x].stmts)
        # and every in-loop resolve() call must be dominated by the false edge
        inloop = [r for r in rcalls if any(r.bb in blks2 for blks2 in ploops.values())]
        dom_ok = True
        for r in inloop:
            rr = pcfg.reachable(pcfg.entry, cut_edges=[e.key() for e in be["false"]])
            if r.bb in rr:
                dom_ok = False
        if not again and not part and dom_ok and inloop:
            okp = True
    if okp:
        out.append(holds("C02.R6", "openat2::resolve_partial:safety-violation-stops", pb.where(), "is_safety_violation() -> Err before the next ancestor"))
    else:
        out.append(violated("C02.R6", "openat2::resolve_partial:safety-violation-stops", pb.where(),
                            "ancestor probing continues (or returns a partial result) after a safety violation"))
    return out


def r7_oneshot_reopen(ctx):
    """Emulated one-shot open: the file comes from the resolved handle (reopen or the handle itself)."""
    F = ctx.facts
    T = ctx.tracer
    out = []
    b = F.body("resolvers::Resolver::open")
    cfg = cfg_of(b)
    rets = cfg.return_blocks()
    bad = []
    srcs = set()
    for o in T.return_origins(b, OKP):
        if o.kind == "call":
            c = o.term.callee
            srcs.add(c)
            if c in ("resolvers::openat2::open", "handle::Handle::reopen", "resolvers::Resolver::resolve"):
                continue
            if c == "std::ops::FromResidual::from_residual":
                srcs.discard(c)
                continue
            bad.append(c)
        elif o.kind in ("agg", "mutated"):
            continue
        else:
            bad.append(repr(o))
    if bad:
        out.append(violated("C02.R7", "Resolver::open:sources", b.where(), "one-shot open returns a file from an unexpected source: %s" % bad))
    elif {"handle::Handle::reopen", "resolvers::Resolver::resolve"} <= srcs or "handle::Handle::reopen" in srcs:
        out.append(holds("C02.R7", "Resolver::open:sources", b.where(), "returned file originates from %s" % sorted(srcs)))
    else:
        out.append(violated("C02.R7", "Resolver::open:sources", b.where(), "emulated arm does not reopen the resolved handle (%s)" % sorted(srcs)))
    # the reopened handle is the one produced by self.resolve
    for t in b.calls("handle::Handle::reopen"):
        o0 = T.origins_of_arg(t, 0)
        if o0 and all(o.kind == "call" and o.term.callee == "resolvers::Resolver::resolve" for o in o0):
            out.append(holds("C02.R7", "Resolver::open:reopen-of-resolved", t.where(), "reopen by descriptor of the in-root lookup result"))
        else:
            out.append(violated("C02.R7", "Resolver::open:reopen-of-resolved", t.where(), "reopen target is not the handle returned by the in-root lookup"))
    from .c09 import reopen_by_descriptor
    out.extend(reopen_by_descriptor(ctx, "C02.R7"))
    return out


def r8_kernel_scoping(ctx):
    """Kernel backend: every openat2 lookup of the resolver is scoped (RESOLVE_IN_ROOT|RESOLVE_NO_MAGICLINKS surely set)."""
    from .c05 import r4_resolve_masks
    out = []
    for i in r4_resolve_masks(ctx):
        if "resolvers::openat2::" in i.key:
            i.rule = "C02.R8"
            out.append(i)
    return out


AS_UNSAFE_PATH = "<Fd as utils::fd::FdExt>::as_unsafe_path"
PROC_READLINK = "procfs::ProcfsHandle::readlink"


def r9_observed_path(ctx):
    """check_current compares what the kernel reports for the descriptor with the expected path.  The report has to
    arrive unedited: as_unsafe_path returns the result of ProcfsHandle::readlink(ProcThreadSelf, fd/<its own fd>) and
    that returns the result of readlinkat on the magic-link it opened -- nothing trimmed, normalised or substituted
    on the way (a sibling called "<root> (deleted)" or "<root>/" must not compare equal to the root)."""
    F = ctx.facts
    T = ctx.tracer
    out = []

    def only_from(fn, key, want, why):
        if not F.has(fn):
            return [violated("C02.R9", key, "", "anchor %s not found" % fn)]
        b = F.body(fn)
        ro = [o for o in T.return_origins(b, OKP) if not (o.kind == "call" and o.term.callee == "std::ops::FromResidual::from_residual")]
        bad = [o for o in ro if not (o.kind == "call" and o.term.callee in want)]
        good = [o for o in ro if o.kind == "call" and o.term.callee in want]
        if bad or not good:
            return [violated("C02.R9", key, (bad[0].term.where() if bad and bad[0].term is not None else b.where()),
                             "%s: the returned path has other origins than %s: %s" % (why, sorted(want), sorted({repr(o) for o in bad})[:4]))], good
        return [holds("C02.R9", key, good[0].term.where(), "%s: returned path is the unedited result of %s" % (why, sorted({o.term.callee for o in good})))], good

    r = only_from(AS_UNSAFE_PATH, "as_unsafe_path:unedited", {PROC_READLINK}, "descriptor path used by check_current")
    items, calls = r if isinstance(r, tuple) else (r, [])
    out.extend(items)
    for o in calls:
        t = o.term
        base = {x.detail if x.kind == "agg" else repr(x) for x in T.origins_of_arg(t, 1)}
        sub = T.origins_of_arg(t, 2)
        ok_base = bool(base) and all("ProcThreadSelf" in str(x) for x in base)
        ok_sub = bool(sub) and all(x.kind == "call" and x.term.callee == "utils::fd::proc_subpath" for x in sub)
        if ok_sub:
            for x in sub:
                fo = T.origins_of_arg(x.term, 0)
                ok_sub = ok_sub and bool(fo) and all(y.kind == "param" and y.detail == 1 or (y.kind == "call" and y.term.callee == "std::os::fd::AsFd::as_fd" and all(z.kind == "param" and z.detail == 1 for z in T.origins_of_arg(y.term, 0))) for y in fo)
        if ok_base and ok_sub:
            out.append(holds("C02.R9", "as_unsafe_path:link", t.where(), "reads thread-self/fd/<own descriptor>"))
        else:
            out.append(violated("C02.R9", "as_unsafe_path:link", t.where(), "as_unsafe_path does not read the magic-link of its own descriptor under thread-self (base %s, subpath %s)" % (sorted(map(str, base)), sub)))
    r = only_from(PROC_READLINK, "ProcfsHandle::readlink:unedited", {"syscalls::readlinkat"}, "procfs readlink")
    items, calls = r if isinstance(r, tuple) else (r, [])
    out.extend(items)
    for o in calls:
        t = o.term
        fo = T.origins_of_arg(t, 0)
        po = {x.const_bytes() if x.kind == "const" else repr(x) for x in T.origins_of_arg(t, 1)}
        if fo and all(x.kind == "call" and x.term.callee == "procfs::ProcfsHandle::open" for x in fo) and all(x in (b"", "") for x in po) and po:
            out.append(holds("C02.R9", "ProcfsHandle::readlink:link", t.where(), "readlinkat(<the link opened through the handle>, \"\")"))
        else:
            out.append(violated("C02.R9", "ProcfsHandle::readlink:link", t.where(), "readlinkat is not applied to the link opened through this handle with an empty path: fd %s, path %s" % (fo, sorted(map(str, po)))))
    return out


RULES = [
    ("C02.R8", r8_kernel_scoping, 2, False),
    ("C02.R1", r1_verify_after_dotdot, 3, False),
    ("C02.R2", r2_verify_before_complete, 3, False),
    ("C02.R3", r3_check_current_fail_closed, 3, False),
    ("C02.R4", r4_fd_relative_steps, 3, False),
    ("C02.R5", r5_readlink_on_fd, 4, False),
    ("C02.R6", r6_kernel_retry, 4, False),
    ("C02.R7", r7_oneshot_reopen, 2, False),
    ("C02.R9", r9_observed_path, 4, False),
]
