"""C11 — calls leave the descriptor table unchanged except for the returned fd."""
import os
import re
import subprocess

from ..common import *
from ..engine import holds, unproven, violated
from . import c05

EXPLANATION = ("C11: in safe Rust every OwnedFd/File/Handle/Root/ProcfsHandle/Dir is closed when dropped on every path "
               "(including unwinding), so a leak, a double close or the adoption of a lent descriptor needs an escape hatch: "
               "who-may-call over into_raw_fd / from_raw_fd / forget / ManuallyDrop / Box::leak / into_raw / borrow_raw / "
               "close / dup* / transmute with audited sites and provenance; fd-owning statics; reference-counted fd types; "
               "close-on-exec at every fd-creating sink; compile-fail witnesses for borrow lifetimes and non-Clone owners "
               "(thorough tier).")
ASSUMPTIONS = ["Rust's drop semantics for OwnedFd (close on drop, once)", "run-time descriptor counts are not measured"]

FD_OWNING = re.compile(r"\b(OwnedFd|std::fs::File|handle::Handle\b|root::Root\b|procfs::ProcfsHandle|rustix::fs::Dir\b|std::net::|UnixStream|TcpStream)")

ESCAPES = [
    (re.compile(r"IntoRawFd::into_raw_fd$"), "into_raw_fd"),
    (re.compile(r"FromRawFd::from_raw_fd$"), "from_raw_fd"),
    (re.compile(r"^std::mem::forget$"), "forget"),
    (re.compile(r"ManuallyDrop::<T>::new$"), "ManuallyDrop"),
    (re.compile(r"Box::<T(, A)?>::leak$"), "Box::leak"),
    (re.compile(r"Box::<T(, A)?>::into_raw$"), "Box::into_raw"),
    (re.compile(r"(Rc|Arc)::<T(, A)?>::into_raw$"), "Rc::into_raw"),
    (re.compile(r"BorrowedFd::<'_>::borrow_raw$"), "borrow_raw"),
    (re.compile(r"^(libc::close|libc::dup|libc::dup2|libc::dup3|rustix::io::close|rustix::io::dup|rustix::io::dup2|rustix::io::dup3|rustix::stdio::dup2_\w+)$"), "close/dup"),
    (re.compile(r"^std::mem::transmute$|^std::intrinsics::transmute$"), "transmute"),
    (re.compile(r"^std::ptr::(read|write)$"), "ptr::read/write"),
]

# (function, hatch) -> reason and side condition id
ALLOWED = {
    ("<rustix::fd::OwnedFd as capi::ret::IntoCReturn>::into_c_return", "into_raw_fd"): "the descriptor being returned to the C caller (success arm only)",
    ("syscalls::openat2", "from_raw_fd"): "adopts the fresh return value of the openat2 syscall",
    ("capi::utils::CBorrowedFd::<'fd>::try_as_borrowed_fd", "borrow_raw"): "borrows (never owns) the validated C descriptor",
    ("capi::utils::Leakable::leak", "Box::leak"): "leaks a CError (owns no descriptor) to the C caller",
}


def _released_not_returned(T, b, t):
    """Where the return slot is assigned, on a path after call `t`, from something other than t's result."""
    from ..cfg import cfg_of
    from ..dataflow import defuse
    from ..facts import Place
    cfg = cfg_of(b)
    du = defuse(b)
    if t.target is None:
        return None
    after = set(cfg.reachable(t.target))
    ret = Place({"l": 0, "p": []})
    bad = []
    sites = [x for x in du.all_defs(0) if x[1] in after or (x[0] == "c" and x[1] == t.bb)]
    if not sites:
        return "no assignment of the return slot after the call"
    for site in sites:
        bb = site[1]
        idx = site[2] + 1 if site[0] == "a" else len(b.blocks[bb].stmts) + 1
        o = T.origins(b, bb, idx, ret)
        if not o or not all(x.kind == "call" and x.term is t for x in o):
            bad.append("%s (%s)" % ("bb%d" % bb, ", ".join(sorted({repr(x) for x in o}))[:160]))
    return "; ".join(bad) if bad else None


def r1_escape_hatches(ctx):
    F = ctx.facts
    T = ctx.tracer
    out = []
    seen = set()
    for b in F.fn_bodies():
        if is_bitflags_generated(b):
            continue
        cnt = {}
        for t in b.calls(cleanup=True):
            hatch = None
            for rx, nm in ESCAPES:
                if t.callee and rx.search(t.callee):
                    hatch = nm
            if hatch is None:
                continue
            fk = fn_key(b)
            i = cnt.get(hatch, 0)
            cnt[hatch] = i + 1
            key = "%s:%s" % (fk, hatch) + (":%d" % i if i else "")
            tys = " ".join(t.argtys) + " " + (t.rty or "")
            if hatch in ("transmute", "ptr::read/write", "forget", "ManuallyDrop", "Box::into_raw", "Rc::into_raw") and not FD_OWNING.search(tys) and "BorrowedFd" not in tys and "RawFd" not in tys:
                # not about descriptors (e.g. CString / CError plumbing)
                out.append(holds("C11.R1", key, t.where(), "%s on a type that owns no descriptor (%s)" % (hatch, tys[:80])))
                continue
            reason = ALLOWED.get((fk, hatch))
            if reason is None and hatch == "into_raw_fd" and re.match(r"^<(rustix::fd::OwnedFd|root::Root|handle::Handle|std::fs::File) as capi::ret::IntoCReturn>::into_c_return$", fk):
                # the same audited conversion, spelled in the impl of another descriptor-owning type (e.g. through a shared helper):
                # releasing `self` -- the success value handed to the C caller -- and nothing else
                reason = "the descriptor being returned to the C caller (success value of an IntoCReturn impl)"
                seen.add(("<rustix::fd::OwnedFd as capi::ret::IntoCReturn>::into_c_return", "into_raw_fd"))
            if reason is None:
                out.append(violated("C11.R1", key, t.where(), "descriptor-ownership escape hatch %s used in %s (types: %s)" % (t.callee, fk, tys[:120])))
                continue
            seen.add((fk, hatch))
            # side conditions
            if hatch == "from_raw_fd":
                o = T.origins_of_arg(t, 0)
                ok = bool(o) and all(x.kind == "call" and x.term.callee == "libc::syscall" for x in o)
                if not ok:
                    out.append(violated("C11.R1", key, t.where(), "from_raw_fd adopts something other than the syscall's fresh return value: %r" % o))
                    continue
                # only on the non-negative branch
            if hatch == "into_raw_fd":
                o = T.origins_of_arg(t, 0)
                ok = bool(o) and all(x.kind == "param" and x.detail == 1 for x in o)
                if not ok:
                    out.append(violated("C11.R1", key, t.where(), "into_raw_fd on something other than the value being returned"))
                    continue
                # ... and once released, the number is what the function returns: every assignment of the return
                # slot on a path after the call is the call's own result (otherwise the descriptor has no owner left)
                lost = _released_not_returned(T, b, t)
                if lost:
                    out.append(violated("C11.R1", key, t.where(), "the descriptor released by into_raw_fd is not what is returned on a path after the call (return slot assigned at %s)" % lost))
                    continue
            if hatch == "Box::leak":
                impls = [i["self_ty"] for i in F.impls_of("capi::utils::Leakable")]
                if any(FD_OWNING.search(x) for x in impls):
                    out.append(violated("C11.R1", key, t.where(), "Leakable is implemented for a descriptor-owning type: %s" % impls))
                    continue
            out.append(holds("C11.R1", key, t.where(), "audited: " + reason))
    if ctx.config == "capi":
        for (fk, hatch) in ALLOWED:
            if (fk, hatch) not in seen:
                out.append(violated("C11.R1", "%s:%s" % (fk, hatch), "", "audited site disappeared (table drift)"))
    # positive control: the matcher recognises each hatch name on a synthetic callee list
    ctrl = ["std::os::fd::IntoRawFd::into_raw_fd", "std::os::fd::FromRawFd::from_raw_fd", "std::mem::forget", "std::mem::ManuallyDrop::<T>::new",
            "std::boxed::Box::<T>::leak", "std::boxed::Box::<T>::into_raw", "libc::close", "rustix::io::dup", "libc::dup2"]
    miss = [c for c in ctrl if not any(rx.search(c) for rx, _ in ESCAPES)]
    (out.append(holds("C11.R1", "matcher:positive-control", "", "%d synthetic callees recognised" % len(ctrl))) if not miss else
     out.append(violated("C11.R1", "matcher:positive-control", "", "escape-hatch matcher no longer recognises %s" % miss)))
    return out


def r2_statics(ctx):
    F = ctx.facts
    out = []
    for p, s in sorted(F.statics.items()):
        if FD_OWNING.search(s["ty"]):
            if p == "procfs::GLOBAL_PROCFS_HANDLE":
                out.append(holds("C11.R2", "static:%s" % p, s["span"], "the one documented process-lifetime descriptor (close-on-exec)"))
            else:
                out.append(violated("C11.R2", "static:%s" % p, s["span"], "a static owns a descriptor for the process lifetime: %s" % s["ty"]))
        else:
            out.append(holds("C11.R2", "static:%s" % p, s["span"], "owns no descriptor"))
    # thread locals
    for b in F.fn_bodies():
        for blk in b.blocks:
            for st in blk.stmts:
                if st.kind == "assign" and st.rv and st.rv["k"] == "tls":
                    out.append(violated("C11.R2", "tls:%s" % st.rv["static"], b.where(), "thread-local state referenced from %s" % fn_key(b)))
    return out


def r3_rc_types(ctx):
    F = ctx.facts
    out = []
    kinds = set()
    for b in F.fn_bodies():
        if is_bitflags_generated(b):
            continue
        for ty in b.local_tys:
            for m in re.finditer(r"std::(rc::Rc|sync::Arc|rc::Weak|sync::Weak)<([^<>]*(?:<[^<>]*>)?[^<>]*)>", ty):
                kinds.add((m.group(1), m.group(2)))
    okk = {("rc::Rc", "rustix::fd::OwnedFd")}
    extra = {k for k in kinds if FD_OWNING.search(k[1]) and k not in okk}
    cyc = {k for k in kinds if "RefCell" in k[1] or "Cell<" in k[1]}
    if extra or cyc:
        out.append(violated("C11.R3", "rc-types", "", "reference-counted descriptor owners other than Rc<OwnedFd> (or with interior mutability): %s" % sorted(extra | cyc)))
    else:
        out.append(holds("C11.R3", "rc-types", "", "reference-counted types in the crate: %s; OwnedFd has no interior pointer, so no cycle can keep a descriptor alive" % sorted(kinds)))
    # the walk's Rc is unwrapped (unique ownership asserted) before a Handle is made
    b = F.body("<resolvers::PartialLookup<handle::Handle> as std::convert::From<resolvers::PartialLookup<std::rc::Rc<rustix::fd::OwnedFd>>>>::from")
    tu = [t for cb in [b] + F.closures_of(b.path) for t in cb.calls() if (t.callee or "").endswith("::try_unwrap") and "Rc::" in t.callee]
    # no other way out of the Rc in the conversion (cloning the inner descriptor would leave the walk's copy open)
    other = [t for cb in [b] + F.closures_of(b.path) for t in cb.calls()
             if re.search(r"try_clone|Rc::<[^>]*>::(into_raw|as_ptr|into_inner|unwrap_or_clone)|::try_clone_to_owned", t.callee or "")]
    (out.append(holds("C11.R3", "rc-unwrap", b.where(), "Rc::try_unwrap before the descriptor becomes a Handle")) if len(tu) >= 1 and not other else
     out.append(violated("C11.R3", "rc-unwrap", b.where(), "the PartialLookup conversion must take the descriptor out of the Rc with Rc::try_unwrap (found %d try_unwrap, other exits %s)" % (len(tu), [t.callee for t in other]))))
    return out


def r4_cloexec(ctx):
    """Every fd-creating sink is close-on-exec: the C05.R2 obligations, re-evaluated under C11."""
    out = []
    for i in c05.r2_forced_flags(ctx, cloexec_only=True):
        i.rule = "C11.R4"
        out.append(i)
    # dup sites use try_clone_to_owned (F_DUPFD_CLOEXEC)
    F = ctx.facts
    for b in F.fn_bodies():
        for t in b.calls():
            if t.callee and re.search(r"(rustix::io::dup\w*|libc::dup\w*|libc::fcntl|rustix::io::fcntl_dupfd)$", t.callee) and not t.callee.endswith("fcntl_dupfd_cloexec"):
                out.append(violated("C11.R4", "%s:%s" % (fn_key(b), t.callee), t.where(), "descriptor duplicated without close-on-exec"))
    return out


def r5_raw_results_owned(ctx):
    """A descriptor returned by a raw system call is handed to an owner whenever the call succeeded: the
    success test on the raw return value puts 0 on the owning side (fd 0 is what the kernel returns when
    descriptor 0 is free; classifying it as a failure reports an error and leaks the new descriptor)."""
    from .c09 import r3_fd_zero_valid
    out = []
    for i in r3_fd_zero_valid(ctx):
        if i.key.startswith("syscalls::"):
            i.rule = "C11.R5"
            out.append(i)
    if not out:
        out.append(violated("C11.R5", "syscalls::openat2:raw-result", "", "no success test on the raw openat2 result found (anchor drift)"))
    return out


RULES = [
    ("C11.R5", r5_raw_results_owned, 1, False),
    ("C11.R1", r1_escape_hatches, 2, False),
    ("C11.R2", r2_statics, 3, False),
    ("C11.R3", r3_rc_types, 2, False),
    ("C11.R4", r4_cloexec, 8, False),
]


def thorough_extra(repo):
    """TYPE witnesses: compile_fail doc-tests with compiling twins (only meaningful against /repo itself)."""
    wdir = "/verif/engine/witness"
    if os.path.realpath(repo) != "/repo":
        return 0, {"skipped": "witness crate path-depends on /repo"}
    try:
        import shutil
        shutil.copy("/repo/Cargo.lock", os.path.join(wdir, "Cargo.lock"))
    except OSError:
        pass
    env = dict(os.environ)
    env["CARGO_NET_OFFLINE"] = "true"
    env["CARGO_TARGET_DIR"] = "/verif/.work/target-witness"
    p = subprocess.run(["cargo", "+nightly", "test", "--doc", "--offline"], cwd=wdir, env=env, capture_output=True, text=True)
    outp = p.stdout + p.stderr
    m = re.search(r"test result: (\w+)\. (\d+) passed; (\d+) failed", outp)
    info = {"cmd": "cargo +nightly test --doc --offline (engine/witness)", "result": m.group(0) if m else "no result line"}
    cf = len(re.findall(r"- compile fail \.\.\. ok", outp))
    tw = len(re.findall(r"- compile \.\.\. ok", outp))
    info["compile_fail_witnesses_ok"] = cf
    info["compiling_twins_ok"] = tw
    if p.returncode != 0 or not m or m.group(1) != "ok" or cf < 6 or tw < 6:
        print("VIOLATION-CANDIDATE C11 TYPE witnesses: %s" % info)
        print(outp[-3000:])
        return 1, info
    print("C11 TYPE witnesses: %d compile-fail witnesses and %d compiling twins ok" % (cf, tw))
    return 0, info
