"""C14 — single-entry operations act on exactly (in-root parent, final name)."""
import re

from ..cfg import cfg_of
from ..common import *
from ..cut import result_edges, bool_edges
from ..engine import holds, unproven, violated
from ..facts import Operand, Place
from .c05 import shared, _cls

EXPLANATION = ("C14: per operation, exactly one mutating call on every success path, with the callee and type bits of the "
               "arm's inode kind, applied to (resolve_parent(path).dir, resolve_parent(path).name); trailing slash -> "
               "InvalidArgument before any sink; C mknod S_IFMT decoding table; create_file returns the O_CREAT|O_NOFOLLOW open itself.")
ASSUMPTIONS = ["effects of the *at system calls themselves are the kernel's; 'nothing else changed' is decided as 'no second mutating call on any path'"]

S_IFREG, S_IFDIR, S_IFCHR, S_IFBLK, S_IFIFO, S_IFSOCK, S_IFLNK = 0o100000, 0o040000, 0o020000, 0o060000, 0o010000, 0o140000, 0o120000

CREATE = "root::RootRef::<'_>::create"
OPS = {
    CREATE: None,
    "root::RootRef::<'_>::create_file": ["syscalls::openat"],
    "root::RootRef::<'_>::remove_inode": ["syscalls::unlinkat"],
    "root::RootRef::<'_>::rename": ["syscalls::renameat2"],
}
SINKS = MUTATING_WRAPPERS | {"syscalls::openat"}

# variant -> (callee, type bits or None, passes device number)
CREATE_TABLE = {
    "File": ("syscalls::mknodat", S_IFREG, False),
    "Directory": ("syscalls::mkdirat", None, False),
    "Symlink": ("syscalls::symlinkat", None, False),
    "Hardlink": ("syscalls::linkat", None, False),
    "Fifo": ("syscalls::mknodat", S_IFIFO, False),
    "CharacterDevice": ("syscalls::mknodat", S_IFCHR, True),
    "BlockDevice": ("syscalls::mknodat", S_IFBLK, True),
}


def _sinks(body):
    return [t for t in body.calls() if t.callee in SINKS]


def r1_one_sink(ctx):
    F = ctx.facts
    T = ctx.tracer
    ipa, pp = shared(ctx)
    out = []
    for fn in OPS:
        b = F.body(fn)
        cfg = cfg_of(b)
        sinks = _sinks(b)
        fk = fn_key(b)
        if not sinks:
            out.append(violated("C14.R1", "%s:sinks" % fk, b.where(), "operation has no mutating call"))
            continue
        # at most one sink per path
        multi = []
        for a in sinks:
            after = cfg.reachable(a.target) if a.target is not None else set()
            for c in sinks:
                if c.bb in after:
                    multi.append((a, c))
        if multi:
            a, c = multi[0]
            out.append(violated("C14.R1", "%s:at-most-one" % fk, c.where(), "a second mutating call (%s) can follow %s on one path" % (c.callee, a.callee)))
        else:
            out.append(holds("C14.R1", "%s:at-most-one" % fk, b.where(), "%d mutually exclusive mutating calls" % len(sinks)))
        # at least one sink on every path to Ok
        okb = [blk.idx for blk in b.blocks if not blk.cleanup for s in blk.stmts
               if s.kind == "assign" and s.lhs.local == 0 and s.rv["k"] == "agg" and s.rv.get("variant") == "Ok"]
        reach = cfg.reachable(cfg.entry, cut_nodes=[s.bb for s in sinks])
        rets = [r for r in cfg.return_blocks() if r in reach]
        # a return reachable without a sink must be an error return: _0 defined by from_residual / Err
        bad = False
        from ..dataflow import defuse
        du = defuse(b)
        for r in rets:
            for site in du.defs_at(0, r, len(b.blocks[r].stmts)):
                if site[0] == "c":
                    tt = b.blocks[site[1]].term
                    if tt.callee == "std::ops::FromResidual::from_residual":
                        continue
                    if tt.bb in reach and tt.callee in ("std::result::Result::<T, E>::map_err",):
                        # map_err of a sink result is only reachable through the sink
                        continue
                    if tt.bb in reach:
                        bad = True
                elif site[0] == "a":
                    if site[1] in reach:
                        s = b.blocks[site[1]].stmts[site[2]]
                        if s.rv["k"] == "agg" and s.rv.get("variant") == "Err":
                            continue
                        bad = True
        if bad:
            out.append(violated("C14.R1", "%s:at-least-one" % fk, b.where(), "a success result can be returned without performing the mutating call"))
        else:
            out.append(holds("C14.R1", "%s:at-least-one" % fk, b.where(), "every non-error return passes a mutating call"))
        # expected callees
        want = OPS[fn]
        if want is not None:
            got = sorted({s.callee for s in sinks})
            if got != sorted(want):
                out.append(violated("C14.R1", "%s:callee" % fk, b.where(), "operation performs %s, expected %s" % (got, want)))
            else:
                out.append(holds("C14.R1", "%s:callee" % fk, b.where(), "performs %s" % got))
    # argument pairing: (dirfd, name) of every sink come from the same resolve_parent call of the right argument
    pairs = {
        "root::RootRef::<'_>::create_file": [((0, 1), 2)],
        "root::RootRef::<'_>::remove_inode": [((0, 1), 2)],
        "root::RootRef::<'_>::rename": [((0, 1), 2), ((2, 3), 3)],
    }
    for fn, specs in pairs.items():
        b = F.body(fn)
        for t in _sinks(b):
            for ((di, ni), param) in specs:
                out.append(_pairing(ctx, b, t, di, ni, param, "%s:%s:pair%d" % (fn_key(b), t.callee.split("::")[1], di)))
    b = F.body(CREATE)
    for n, t in enumerate(_sinks(b)):
        w = t.callee.split("::")[1]
        if w == "symlinkat":
            out.append(_pairing(ctx, b, t, 1, 2, 2, "%s:%s:pair" % (fn_key(b), w)))
            # target string passed through untouched: from the Symlink payload of parameter 3
            o = T.origins_of_arg(t, 0)
            ok = bool(o) and all(x.kind == "param" and x.detail == 3 for x in o)
            out.append((holds if ok else violated)("C14.R1", "%s:symlinkat:target" % fn_key(b), t.where(),
                                                   "symlink target is the caller's string, untouched" if ok else "symlink target does not come straight from the InodeType payload: %r" % o))
        elif w == "linkat":
            # new side = path (param 2); old side = hardlink target (payload of param 3)
            out.append(_pairing(ctx, b, t, 2, 3, 2, "%s:linkat:new" % fn_key(b)))
            out.append(_pairing(ctx, b, t, 0, 1, 3, "%s:linkat:old" % fn_key(b)))
        else:
            out.append(_pairing(ctx, b, t, 0, 1, 2, "%s:%s:%d:pair" % (fn_key(b), w, n)))
    return out


def _pairing(ctx, b, t, di, ni, param, key):
    T = ctx.tracer
    d = T.origins_of_arg(t, di)
    n = T.origins_of_arg(t, ni)
    dcalls = {o.term.bb for o in d if o.kind == "call" and o.term.callee == "root::RootRef::<'_>::resolve_parent" and o.fpath[:2] == ("0", "0")}
    ncalls = {o.term.bb for o in n if o.kind == "call" and o.term.callee == "root::RootRef::<'_>::resolve_parent" and o.fpath[:2] == ("0", "1")}
    if len(d) != 1 or len(n) != 1 or not dcalls or dcalls != ncalls:
        return violated("C14.R1", key, t.where(), "(dirfd, name) are not the two halves of one resolve_parent() result: dirfd %r name %r" % (d, n))
    rp = b.blocks[list(dcalls)[0]].term
    po = T.origins_of_arg(rp, 1)
    if po and all(o.kind == "param" and o.detail == param for o in po):
        return holds("C14.R1", key, t.where(), "(dirfd, name) = resolve_parent(parameter %d)" % param)
    return violated("C14.R1", key, t.where(), "resolve_parent is applied to %r, expected parameter %d" % (po, param))


def r2_trailing_slash(ctx):
    F = ctx.facts
    T = ctx.tracer
    out = []
    for fn in list(OPS) + ["root::RootRef::<'_>::remove_all"]:
        b = F.body(fn)
        cfg = cfg_of(b)
        sinks = _sinks(b) if fn in OPS else list(b.calls("utils::dir::remove_all"))
        # where does each resolve_parent() result's name (an Option) get unwrapped?  Accepted idioms:
        # ok_or_else(..)? / ok_or(..)? and a match/if-let on the Option itself.
        none_cuts = {}     # resolve_parent call block -> (edges taken when the name is present, InvalidArgument on the None side?)
        for t in b.calls("std::option::Option::<T>::ok_or_else", "std::option::Option::<T>::ok_or"):
            o = T.origins_of_arg(t, 0)
            if o and all(x.kind == "call" and x.term.callee == "root::RootRef::<'_>::resolve_parent" and x.fpath[:2] == ("0", "1") for x in o):
                r = result_edges(b, t)
                inv = False
                for a in T.origins_of_arg(t, 1):
                    if a.kind == "agg" and a.detail and a.detail.startswith("closure "):
                        cb = F.body(a.detail[len("closure "):])
                        inv = any(s.kind == "assign" and s.rv["k"] == "agg" and s.rv.get("variant") == "InvalidArgument" for blk in cb.blocks for s in blk.stmts)
                    if a.kind == "agg" and a.detail == "error::ErrorImpl::InvalidArgument":
                        inv = True
                if r is not None and r["kind"] == "try":
                    for x in o:
                        none_cuts.setdefault(x.term.bb, []).append(([e for e in r["all_ok"]], inv))
        for blk in b.blocks:
            if blk.cleanup or blk.term.kind != "switch":
                continue
            for i, st in enumerate(blk.stmts):
                if st.kind == "assign" and st.rv["k"] == "discr":
                    pl = Place(st.rv["p"])
                    if not b.local_tys[pl.local].startswith("std::option::Option<&std::path::Path>") and "Option<&" not in b.local_tys[pl.local]:
                        continue
                    o = T.origins(b, blk.idx, i, pl)
                    if o and all(x.kind == "call" and x.term.callee == "root::RootRef::<'_>::resolve_parent" and x.fpath[:2] == ("0", "1") for x in o):
                        some = [e for e in cfg.succ.get(blk.idx, []) if e.label == ("sw", 1)]
                        none = [e for e in cfg.succ.get(blk.idx, []) if e.label != ("sw", 1)]
                        nr = cfg.edge_targets_reachable(none)
                        inv = any(s2.kind == "assign" and s2.rv["k"] == "agg" and s2.rv.get("variant") == "InvalidArgument" for x2 in nr for s2 in b.blocks[x2].stmts)
                        for x in o:
                            none_cuts.setdefault(x.term.bb, []).append((some, inv))
        for n, s in enumerate(sinks):
            key = "%s:%s:%d" % (fn_key(b), s.callee.split("::")[-1], n)
            need = set()
            for i in range(len(s.args)):
                for o in T.origins_of_arg(s, i):
                    if o.kind == "call" and o.term.callee == "root::RootRef::<'_>::resolve_parent" and o.fpath[:2] == ("0", "1"):
                        need.add(o.term.bb)
            okall = True
            why = ""
            for rpbb in need:
                gs = none_cuts.get(rpbb, [])
                if not gs:
                    okall, why = False, "name from resolve_parent@bb%d is used without a None -> error conversion" % rpbb
                    break
                cut = [e.key() for (edges, _inv) in gs for e in edges]
                # path-sensitive in the Result/Option variants: with the Some edges cut only the refusal is left, and the
                # `?` that follows it (possibly after a merge, when the refusal sits in a helper) can only break out
                from ..cfg import Edge
                if s.bb in cfg.precise_reach([Edge(-1, cfg.entry, "entry")], cut_edges=cut):
                    okall, why = False, "sink reachable when the final component is missing (trailing slash)"
                    break
                if not all(inv for (_e, inv) in gs):
                    okall, why = False, "missing final component does not produce InvalidArgument"
                    break
            if not need:
                okall, why = False, "sink name does not come from resolve_parent"
            if okall:
                out.append(holds("C14.R2", key, s.where(), "trailing slash (no final component) -> InvalidArgument before the call"))
            else:
                out.append(violated("C14.R2", key, s.where(), why))
    return out


def r3_type_bits(ctx):
    F = ctx.facts
    T = ctx.tracer
    ipa, pp = shared(ctx)
    out = []
    b = F.body(CREATE)
    cfg = cfg_of(b)
    bits = ipa.bits_of(b.path)
    adt = F.adts.get("root::InodeType")
    if adt is None:
        return [violated("C14.R3", "InodeType", "", "enum root::InodeType not found")]
    vnames = [v["name"] for v in adt["variants"]]
    # the match on the inode type
    sw = None
    for blk in b.blocks:
        if blk.cleanup or blk.term.kind != "switch":
            continue
        for s in blk.stmts:
            if s.kind == "assign" and s.rv["k"] == "discr":
                pl = Place(s.rv["p"])
                if b.local_tys[pl.local].replace("&", "").strip() == "root::InodeType":
                    sw = blk
    if sw is None:
        return [violated("C14.R3", "create:match", b.where(), "no match on the InodeType discriminant found in create")]
    sinks = _sinks(b)
    seen = set()
    for e in cfg.succ.get(sw.idx, []):
        if e.label[1] == "otherwise":
            continue
        vi = e.label[1]
        vname = vnames[vi] if vi < len(vnames) else "?%d" % vi
        seen.add(vname)
        reach = cfg.edge_targets_reachable([e])
        arm = [s for s in sinks if s.bb in reach]
        key = "create:%s" % vname
        want = CREATE_TABLE.get(vname)
        if want is None:
            out.append(violated("C14.R3", key, b.where(), "InodeType variant without a reference row"))
            continue
        if len(arm) != 1 or arm[0].callee != want[0]:
            out.append(violated("C14.R3", key, arm[0].where() if arm else b.where(), "arm %s performs %s, expected %s" % (vname, [a.callee for a in arm], want[0])))
            continue
        t = arm[0]
        if want[1] is not None:
            v = bits.arg_value(t, 2)
            okb = v is not None and v.all(lambda a: (a.s & S_IFMT) == want[1] and (a.c & S_IFMT) == (S_IFMT & ~want[1]))
            keep = v.keep_of() if v is not None else 0
            if not okb:
                out.append(violated("C14.R3", key, t.where(), "mknodat type bits for %s are not exactly %#o: %r" % (vname, want[1], v)))
                continue
            dev = T.origins_of_arg(t, 3)
            if want[2]:
                okd = bool(dev) and all(o.kind == "param" and o.detail == 3 for o in dev)
            else:
                okd = bool(dev) and all(o.kind == "const" and o.const_int() == 0 for o in dev)
            if not okd:
                out.append(violated("C14.R3", key, t.where(), "device number argument for %s: %r" % (vname, dev)))
                continue
        elif want[0] == "syscalls::mkdirat":
            v = bits.arg_value(t, 2)
            if v is None or not v.all(lambda a: (a.c & S_IFMT) == S_IFMT):
                out.append(violated("C14.R3", key, t.where(), "mkdirat mode may carry file-type bits: %r" % v))
                continue
        out.append(holds("C14.R3", key, t.where(), "%s -> %s%s" % (vname, want[0], (" | %#o" % want[1]) if want[1] else "")))
    for vname in CREATE_TABLE:
        if vname not in seen:
            out.append(violated("C14.R3", "create:%s" % vname, b.where(), "no arm for InodeType::%s" % vname))
    # C side: S_IFMT decoding in pathrs_inroot_mknod
    if ctx.config == "capi":
        out.extend(_c_mknod(ctx))
    return out


C_MKNOD = {S_IFREG: "File", S_IFDIR: "Directory", S_IFBLK: "BlockDevice", S_IFCHR: "CharacterDevice", S_IFIFO: "Fifo"}


def _c_mknod(ctx):
    F = ctx.facts
    out = []
    cb = None
    for b in F.closures_of("capi::core::pathrs_inroot_mknod"):
        cb = b
    if cb is None:
        return [violated("C14.R3", "pathrs_inroot_mknod", "", "closure of pathrs_inroot_mknod not found")]
    cfg = cfg_of(cb)
    sw = None
    for blk in cb.blocks:
        if not blk.cleanup and blk.term.kind == "switch" and blk.term.raw["dty"] == "u32" and len(blk.term.raw["vals"]) >= 5:
            sw = blk
    if sw is None:
        return [violated("C14.R3", "pathrs_inroot_mknod:switch", cb.where(), "S_IFMT switch not found")]
    # permission bits handed on = the C mode with exactly the type bits removed (suid/sgid/sticky included)
    from ..bits import Bits
    bits = Bits(cb, param_src=True)
    fm = list(cb.calls("std::os::unix::fs::PermissionsExt::from_mode"))
    if not fm:
        out.append(violated("C14.R3", "pathrs_inroot_mknod:perms", cb.where(), "Permissions::from_mode not found in the C mknod decoder"))
    for t in fm:
        v = bits.arg_value(t, 0)
        okp = v is not None and all(a.src is not None and (a.keep & 0o7777) == 0o7777 and (a.c & S_IFMT) == S_IFMT for a in v.alts)
        (out.append(holds("C14.R3", "pathrs_inroot_mknod:perms", t.where(), "permissions = mode with S_IFMT removed; all of 0o7777 preserved")) if okp else
         out.append(violated("C14.R3", "pathrs_inroot_mknod:perms", t.where(),
                             "the mode handed to mknodat/mkdirat is not the C caller's mode minus the type bits (%r): e.g. S_ISVTX/S_ISUID/S_ISGID are dropped, so mkdir 01777 creates a world-writable directory without the sticky bit" % (v,))))
    # discriminant = mode & S_IFMT
    adt = F.adts.get("root::InodeType")
    for e in cfg.succ.get(sw.idx, []):
        v = e.label[1]
        key = "pathrs_inroot_mknod:%s" % (oct(v) if isinstance(v, int) else v)
        reach = cfg.edge_targets_reachable([e])
        made = set()
        errs = set()
        for bb in reach:
            for s in cb.blocks[bb].stmts:
                if s.kind == "assign" and s.rv["k"] == "agg" and s.rv.get("adt") == "root::InodeType":
                    made.add(s.rv["variant"])
                if s.kind == "assign" and s.rv["k"] == "agg" and s.rv.get("adt") == "error::ErrorImpl":
                    errs.add(s.rv["variant"])
        calls_create = any(t.bb in reach for t in cb.calls("root::RootRef::<'_>::create"))
        if v == "otherwise":
            if made or calls_create or "InvalidArgument" not in errs:
                out.append(violated("C14.R3", key, cb.where(), "unknown S_IFMT value is not rejected with InvalidArgument (%s, %s)" % (made, errs)))
            else:
                out.append(holds("C14.R3", key, cb.where(), "unknown type -> InvalidArgument"))
        elif v == S_IFSOCK:
            if made or calls_create:
                out.append(violated("C14.R3", key, cb.where(), "S_IFSOCK creates something"))
            else:
                out.append(holds("C14.R3", key, cb.where(), "S_IFSOCK -> %s" % sorted(errs)))
        else:
            want = C_MKNOD.get(v)
            if want is None or made != {want}:
                out.append(violated("C14.R3", key, cb.where(), "S_IFMT value %s maps to %s, expected %s" % (oct(v), sorted(made), want)))
            else:
                out.append(holds("C14.R3", key, cb.where(), "%s -> InodeType::%s" % (oct(v), want)))
    return out


def r4_create_file(ctx):
    F = ctx.facts
    T = ctx.tracer
    ipa, pp = shared(ctx)
    out = []
    b = F.body("root::RootRef::<'_>::create_file")
    bits = ipa.bits_of(b.path)
    opens = list(b.calls("syscalls::openat"))
    if len(opens) != 1:
        return [violated("C14.R4", "create_file:open", b.where(), "expected one open in create_file")]
    t = opens[0]
    v = bits.arg_value(t, 2)
    if v is not None and v.has(O_CREAT):
        out.append(holds("C14.R4", "create_file:O_CREAT", t.where(), "O_CREAT forced; O_NOFOLLOW forced by the wrapper (C05.R2b)"))
    else:
        out.append(violated("C14.R4", "create_file:O_CREAT", t.where(), "create_file open without O_CREAT"))
    ro = [o for o in T.return_origins(b, OKP)]
    if ro and all(o.kind == "call" and o.term is t for o in ro):
        out.append(holds("C14.R4", "create_file:returns-the-open", t.where(), "returned File is the descriptor of the creating open"))
    else:
        out.append(violated("C14.R4", "create_file:returns-the-open", b.where(), "returned File does not originate from the creating open: %r" % ro))
    mo = T.origins_of_arg(t, 3)
    if mo and all(o.kind == "call" and o.term.callee == "std::os::unix::fs::PermissionsExt::mode" for o in mo):
        out.append(holds("C14.R4", "create_file:mode", t.where(), "mode = perm.mode()"))
    else:
        out.append(violated("C14.R4", "create_file:mode", t.where(), "mode argument is not perm.mode(): %r" % mo))
    return out


def _flags_for_variant(ctx, body, param_local, vi):
    """Constant flag values that can reach the unlinkat call when the enum parameter holds variant `vi`: the function
    is specialised on that variant (variant-sensitive reachability) and only definitions in reachable blocks count."""
    T = ctx.tracer
    cfg = cfg_of(body)
    adt = re.sub(r"<.*$", "", body.local_tys[param_local])
    reach = cfg.reach_assuming({param_local: (adt, vi)})
    res = set()
    for t in body.calls("syscalls::unlinkat"):
        if t.bb not in reach:
            continue
        for o in T.origins_of_arg(t, 2):
            if o.kind == "const":
                # the statement that introduced the constant must lie on a reachable block
                val = o.const_int()
                for vb in reach:
                    for st in body.blocks[vb].stmts:
                        if st.kind == "assign" and st.rv["k"] == "use" and st.rv_operands() and st.rv_operands()[0].is_const and \
                                "AtFlags" in (st.rv_operands()[0].const.get("ty") or "") and st.rv_operands()[0].int_value() == val:
                            res.add(val)
                    tt = body.blocks[vb].term
                    if tt.kind == "call" and any(a.is_const and "AtFlags" in (a.const.get("ty") or "") and a.int_value() == val for a in tt.args):
                        res.add(val)
            elif o.kind == "call" and o.term.bb not in reach:
                continue
            elif o.kind == "call" and (o.term.callee or "").endswith("::empty"):
                res.add(0)
            elif o.kind == "call":
                res.add("call:%s" % o.term.callee)
    return res


def r5_flags(ctx):
    F = ctx.facts
    T = ctx.tracer
    ipa, pp = shared(ctx)
    out = []
    b = F.body("root::RootRef::<'_>::rename")
    bits = ipa.bits_of(b.path)
    for t in b.calls("syscalls::renameat2"):
        v = bits.arg_value(t, 4)
        if v is not None and v.keep_of(("param", b.path, 4)) == (1 << 64) - 1:
            out.append(holds("C14.R5", "rename:flags", t.where(), "RenameFlags passed unchanged"))
        else:
            out.append(violated("C14.R5", "rename:flags", t.where(), "rename flags altered: %r" % v))
    # remove_dir <-> AT_REMOVEDIR, remove_file <-> 0 : specialise remove_inode on each variant of its parameter
    rb = F.body("root::RootRef::<'_>::remove_inode")
    adt = F.adts.get("root::RemoveInodeType")
    vn = [v["name"] for v in adt["variants"]] if adt else []
    table = {}
    for vi, name in enumerate(vn):
        table[name] = _flags_for_variant(ctx, rb, 3, vi)
    want = {"Regular": {0}, "Directory": {AT_REMOVEDIR}}
    if table == want:
        out.append(holds("C14.R5", "remove_inode:flag-table", rb.where(), "Regular->0, Directory->AT_REMOVEDIR"))
    else:
        out.append(violated("C14.R5", "remove_inode:flag-table", rb.where(), "RemoveInodeType -> unlinkat flags table is %s, expected %s" % (table, want)))
    for (fn, variant) in (("root::RootRef::<'_>::remove_dir", "Directory"), ("root::RootRef::<'_>::remove_file", "Regular")):
        fb = F.body(fn)
        ok = False
        for t in fb.calls("root::RootRef::<'_>::remove_inode"):
            o = T.origins_of_arg(t, 2)
            for x in o:
                if x.kind == "agg" and x.detail == "root::RemoveInodeType::%s" % variant:
                    ok = True
                if x.kind == "const":
                    vi = x.const_int()
                    if vi is not None and vi < len(vn) and vn[vi] == variant:
                        ok = True
        (out.append(holds("C14.R5", "%s:kind" % fn_key(fb), fb.where(), "passes RemoveInodeType::%s" % variant)) if ok else
         out.append(violated("C14.R5", "%s:kind" % fn_key(fb), fb.where(), "does not pass RemoveInodeType::%s" % variant)))
    return out


def r6_resolve_parent(ctx, rule="C14.R6"):
    """resolve_parent(path) = (in-root resolution of path_split(path).0, path_split(path).1): the directory half is
    exclusively the resolver's answer for the directory half of the split (never a lexical shortcut, a copy of
    the root, or another spelling), and the name half is the split's own second half."""
    F = ctx.facts
    T = ctx.tracer
    out = []
    RP = "root::RootRef::<'_>::resolve_parent"
    b = F.body(RP)
    d = T.return_origins(b, (OKP[0], "0"))
    n = T.return_origins(b, (OKP[0], "1"))
    RES = ("root::RootRef::<'_>::resolve",)
    okd = bool(d) and all(o.kind == "call" and o.term.callee in RES for o in d)
    if okd:
        for o in d:
            a = T.origins_of_arg(o.term, 1)
            if not (a and all(x.kind == "call" and x.term.callee == "utils::path::path_split" and x.fpath[:2] == ("0", "0") for x in a)):
                okd = False
    (out.append(holds(rule, "resolve_parent:dirfd", b.where(), "directory = self.resolve(path_split(path).0)")) if okd else
     out.append(violated(rule, "resolve_parent:dirfd", b.where(),
                         "the parent directory handed to the single-entry operations is not exclusively the in-root resolution of the split-off directory part: %r "
                         "(a lexical shortcut acts on (root, name) where the resolved parent differs: 'link/..', 'file/..', 'missing/..')" % (d,))))
    okn = bool(n) and all(o.kind == "call" and o.term.callee == "utils::path::path_split" and o.fpath[:2] == ("0", "1") for o in n)
    if okn and okd:
        okn = {id(o.term) for o in n} == {id(x.term) for o in d for x in T.origins_of_arg(o.term, 1)}
    (out.append(holds(rule, "resolve_parent:name", b.where(), "name = path_split(path).1 of the same split")) if okn else
     out.append(violated(rule, "resolve_parent:name", b.where(), "the final name is not the second half of the same path_split: %r" % (n,))))
    # the split is applied to the function's own path parameter
    for t in b.calls("utils::path::path_split"):
        a = T.origins_of_arg(t, 0)
        okp = bool(a) and all(o.kind == "param" and o.body is b and o.detail == 2 for o in a)
        (out.append(holds(rule, "resolve_parent:split-arg", t.where(), "split of the caller's path")) if okp else
         out.append(violated(rule, "resolve_parent:split-arg", t.where(), "path_split is applied to %r" % (a,))))
    return out


PERM = 0o7777


def _keeps_perm(v):
    return v is not None and all(a.src is not None and (a.keep & PERM) == PERM for a in v.alts)


def r7_mode_fidelity(ctx):
    """'exactly the effect of the corresponding *at system call': the permission bits the caller gives (all of 07777:
    rwx for user/group/other, set-uid, set-gid, sticky) arrive at the system call unchanged at every hop -- C entry
    point -> Permissions, operation -> wrapper, wrapper -> raw call.  Type bits are C14.R3's business."""
    from .c05 import _local_bits
    F = ctx.facts
    out = []
    hops = [("syscalls::mkdirat", "rustix::fs::mkdirat", 2), ("syscalls::mknodat", "rustix::fs::mknodat", 3),
            ("syscalls::openat_follow", "rustix::fs::openat", 3), ("syscalls::openat", "syscalls::openat_follow", 3),
            (CREATE, "syscalls::mkdirat", 2), (CREATE, "syscalls::mknodat", 2),
            ("root::RootRef::<'_>::create_file", "syscalls::openat", 3)]
    for fn, callee, ai in hops:
        if not F.has(fn):
            out.append(violated("C14.R7", "%s:%s:mode" % (short(fn), callee.split("::")[-1]), "", "anchor %s not found" % fn))
            continue
        b = F.body(fn)
        bits = _local_bits(ctx, b.path)
        sites = list(b.calls(callee))
        if not sites and fn == "syscalls::openat":
            # the no-follow wrapper may reach the raw open itself
            sites, ai = list(b.calls("rustix::fs::openat")), 3
        if not sites:
            out.append(violated("C14.R7", "%s:%s:mode" % (fn_key(b), callee.split("::")[-1]), b.where(), "%s no longer calls %s" % (fn_key(b), callee)))
        for n, t in enumerate(sites):
            key = "%s:%s:mode" % (fn_key(b), callee.split("::")[-1]) + (":%d" % n if len(sites) > 1 else "")
            v = bits.arg_value(t, ai) if bits else None
            if v is None:
                out.append(holds("C14.R7", key, t.where(), "unreachable"))
            elif _keeps_perm(v):
                out.append(holds("C14.R7", key, t.where(), "mode argument keeps all of 07777 of what the function was given"))
            else:
                out.append(violated("C14.R7", key, t.where(), "permission bits are lost or invented on the way to %s (%r): e.g. a 01777 directory is created without the sticky bit" % (callee, v)))
    if ctx.config == "capi":
        from ..bits import Bits
        for ex in ("capi::core::pathrs_inroot_mkdir", "capi::core::pathrs_inroot_mknod", "capi::core::pathrs_inroot_creat"):
            if not F.has(ex):
                out.append(violated("C14.R7", "%s:from_mode" % ex.split("::")[-1], "", "%s not found" % ex))
                continue
            bodies = [F.body(ex)] + F.closures_of(ex)
            # the mode goes into a Permissions value, or on to the mknod entry point (mkdir = mknod with S_IFDIR)
            fm = [(cb, t, 0) for cb in bodies for t in cb.calls("std::os::unix::fs::PermissionsExt::from_mode")]
            fm += [(cb, t, 2) for cb in bodies for t in cb.calls("capi::core::pathrs_inroot_mknod")]
            key = "%s:from_mode" % ex.split("::")[-1]
            if not fm:
                out.append(violated("C14.R7", key, F.body(ex).where(), "the mode of %s reaches neither Permissions::from_mode nor pathrs_inroot_mknod" % ex))
            for cb, t, ai in fm:
                v = Bits(cb, param_src=True).arg_value(t, ai)
                if _keeps_perm(v):
                    out.append(holds("C14.R7", key, t.where(), "Permissions built from the C mode with all of 07777 kept"))
                else:
                    out.append(violated("C14.R7", key, t.where(), "the C caller's permission bits are not all kept (%r)" % (v,)))
    return out


def r8_rename_flags_reach_kernel(ctx):
    """rename: 'all rename flags'.  The flag-less renameat is used only when no flag was given; otherwise the flags
    go to renameat2 unchanged -- there is no path that silently performs a plain rename instead (RENAME_NOREPLACE
    dropped = the destination is clobbered)."""
    from .c05 import _local_bits
    F = ctx.facts
    out = []
    fn = "syscalls::renameat2"
    if not F.has(fn):
        return [violated("C14.R8", "renameat2:wrapper", "", "%s not found" % fn)]
    b = F.body(fn)
    bits = _local_bits(ctx, b.path)
    RF = 0x7
    for cb in [b] + F.closures_of(fn):
        for n, t in enumerate(cb.calls("syscalls::renameat", "rustix::fs::renameat")):
            key = "renameat2:plain-rename:%d" % n if cb is b else "renameat2:plain-rename:closure:%d" % n
            if cb is not b:
                out.append(violated("C14.R8", key, t.where(), "flag-less rename inside a closure of the renameat2 wrapper (a fallback that drops the caller's flags)"))
                continue
            st = bits.at_call(t) if bits else None
            v = bits.val_place(st, Place({"l": 5, "p": []})) if st is not None else None
            if st is None:
                out.append(holds("C14.R8", key, t.where(), "unreachable"))
            elif v is not None and (v.must_clear & RF) == RF:
                out.append(holds("C14.R8", key, t.where(), "flag-less renameat only where the flags are known to be empty"))
            else:
                out.append(violated("C14.R8", key, t.where(), "flag-less renameat reachable with rename flags set (%r): RENAME_NOREPLACE/EXCHANGE/WHITEOUT would be dropped silently" % (v,)))
    sites = list(b.calls("rustix::fs::renameat_with"))
    if not sites:
        out.append(violated("C14.R8", "renameat2:flags", b.where(), "the wrapper no longer calls renameat_with"))
    for t in sites:
        v = bits.arg_value(t, 4) if bits else None
        ok = v is not None and all(a.src is not None and (a.keep & RF) == RF for a in v.alts)
        (out.append(holds("C14.R8", "renameat2:flags", t.where(), "flags passed to renameat2(2) unchanged")) if ok else
         out.append(violated("C14.R8", "renameat2:flags", t.where(), "rename flags are not passed on unchanged: %r" % (v,))))
    return out


def r9_sink_failures_pass_through(ctx):
    """'exactly the effect of the corresponding *at system call' includes its failures: when the one mutating call of an
    operation fails, the operation fails -- no errno of it is tolerated or turned into success (EEXIST from symlinkat
    because "the same link is already there" is still EEXIST for the kernel)."""
    from ..cut import failure_edges
    from ..cfg import Edge
    F = ctx.facts
    T = ctx.tracer
    out = []
    for fn in OPS:
        b = F.body(fn)
        cfg = cfg_of(b)
        for n, t in enumerate(_sinks(b)):
            key = "%s:%s:%d:failure" % (fn_key(b), t.callee.split("::")[-1], n)
            fe = failure_edges(b, T, t)
            if not fe or not fe[0]:
                # the result is handed on whole (tail call / map_err chain / `?`): nothing looks at the error
                out.append(holds("C14.R9", key, t.where(), "the call's result is propagated whole"))
                continue
            reach = cfg.precise_reach(fe[0])
            ok_built = [x for x in reach for s_ in b.blocks[x].stmts
                        if s_.kind == "assign" and s_.lhs.is_local and s_.rv["k"] == "agg" and s_.rv.get("variant") == "Ok"
                        and (b.local_tys[s_.lhs.local] or "").startswith("std::result::Result<")]
            if ok_built:
                out.append(violated("C14.R9", key, t.where(), "a failure of %s can end in Ok: some errno of the system call is tolerated, so the operation reports success for something the *at call refused" % t.callee))
            else:
                out.append(holds("C14.R9", key, t.where(), "every failure of the call is a failure of the operation"))
    return out


RULES = [
    ("C14.R6", r6_resolve_parent, 3, False),
    ("C14.R1", r1_one_sink, 20, False),
    ("C14.R2", r2_trailing_slash, 10, False),
    ("C14.R3", r3_type_bits, 7, False),
    ("C14.R4", r4_create_file, 3, False),
    ("C14.R5", r5_flags, 4, False),
    ("C14.R7", r7_mode_fidelity, 7, False),
    ("C14.R8", r8_rename_flags_reach_kernel, 2, False),
    ("C14.R9", r9_sink_failures_pass_through, 8, False),
]
