"""C18 — C header and language bindings describe the exported ABI exactly."""
import os
import re

from ..abi import Header, ParseError, go_calls, py_calls, py_cdef_header
from ..engine import holds, unproven, violated

EXPLANATION = ("C18: table agreement between (a) the Rust extern \"C\" items as the compiler lowers them (symbol, arity, per "
               "parameter integer width/signedness or pointer const-ness/pointee, return class, struct layout, enum values), "
               "(b) include/pathrs.h parsed by a fail-closed C-subset parser with the LP64 type table, (c) every C.pathrs_* "
               "call / constant / field in go-pathrs, (d) every libpathrs_so.pathrs_* call and the cffi cdef preprocessing "
               "of the Python binding.")
ASSUMPTIONS = ["LP64 Linux C type sizes (int=4, long=size_t=8, dev_t=8)", "cbindgen renames in cbindgen.toml are what generated the header"]


def _rust_class(p):
    c = p["class"]
    if c == "ptr":
        pt = p.get("pointee", "")
        pointee = {"i8": "char", "u8": "char", "capi::error::CError": "pathrs_error_t"}.get(pt, pt)
        return {"class": "ptr", "size": 8, "pointee": pointee, "const": not p.get("ptr_mut", False)}
    if c == "void":
        return {"class": "void", "size": 0}
    return {"class": c, "size": p["size"]}


def _same(a, b, strict_const=True):
    if a["class"] != b["class"]:
        return False
    if a["class"] == "ptr":
        if a.get("pointee") != b.get("pointee"):
            return False
        if strict_const and "const" in a and "const" in b and a["const"] != b["const"]:
            return False
        return True
    return a["size"] == b["size"]


def _load(ctx):
    if "c18" in ctx.cache:
        return ctx.cache["c18"]
    repo = ctx.repo
    with open(os.path.join(repo, "include/pathrs.h")) as fh:
        htext = fh.read()
    hdr = Header(htext)
    ctx.cache["c18"] = (hdr, htext)
    return hdr, htext


def r1_functions(ctx):
    F = ctx.facts
    out = []
    try:
        hdr, _ = _load(ctx)
    except (ParseError, OSError) as e:
        return [violated("C18.R1", "header:parse", "include/pathrs.h", "cannot parse the header: %s" % e)]
    rust = {e["symbol"]: e for e in F.externs if e["no_mangle"]}
    for sym in sorted(set(rust) | set(hdr.funcs)):
        key = "fn:%s" % sym
        if sym not in hdr.funcs:
            e = rust[sym]
            # rustc exports every #[no_mangle] function from a cdylib/staticlib, whatever its Rust visibility or ABI
            out.append(violated("C18.R1", key, e["span"], "exported by the library (#[no_mangle]%s, abi %s) but not declared in include/pathrs.h" %
                                ("" if e["pub"] else ", not even `pub`", e["abi"])))
            continue
        if sym not in rust:
            out.append(violated("C18.R1", key, "include/pathrs.h", "declared in the header but not defined as #[no_mangle] extern \"C\" in the library"))
            continue
        e = rust[sym]
        h = hdr.funcs[sym]
        if not e["pub"] or not e["abi"].startswith("C"):
            out.append(violated("C18.R1", key, e["span"], "declared in the header but not an exported extern \"C\" function (pub=%s abi=%s)" % (e["pub"], e["abi"])))
            continue
        if len(e["params"]) != len(h["params"]):
            out.append(violated("C18.R1", key, e["span"], "arity differs: Rust %d, header %d" % (len(e["params"]), len(h["params"]))))
            continue
        bad = []
        for i, (rp, (ct, nm)) in enumerate(zip(e["params"], h["params"])):
            try:
                hc = hdr.classify(ct)
            except ParseError as ex:
                bad.append("param %d: %s" % (i, ex))
                continue
            rc = _rust_class(rp)
            if not _same(rc, hc):
                bad.append("param %d (%s): Rust %s vs header '%s' %s" % (i, nm, rc, ct, hc))
        try:
            hr = hdr.classify(h["ret"])
            rr = _rust_class(e["ret"])
            if not _same(rr, hr, strict_const=False):
                bad.append("return: Rust %s vs header '%s' %s" % (rr, h["ret"], hr))
        except ParseError as ex:
            bad.append("return: %s" % ex)
        if bad:
            out.append(violated("C18.R1", key, e["span"], "; ".join(bad)))
        else:
            out.append(holds("C18.R1", key, e["span"], "%d parameters and the return type agree in width/signedness/pointer class" % len(e["params"])))
    return out


def r2_enum(ctx):
    F = ctx.facts
    out = []
    try:
        hdr, _ = _load(ctx)
    except (ParseError, OSError) as e:
        return [violated("C18.R2", "header:parse", "include/pathrs.h", str(e))]
    rvals = {c["path"].split("::")[-1]: c["u"] for c in F.consts.values() if c["path"].startswith("capi::procfs::CProcfsBase::PATHRS_")}
    hvals = hdr.enums.get("pathrs_proc_base_t", {})
    for k in sorted(set(rvals) | set(hvals)):
        if rvals.get(k) == hvals.get(k):
            out.append(holds("C18.R2", "enum:%s" % k, "include/pathrs.h", "value %#x" % rvals[k]))
        else:
            out.append(violated("C18.R2", "enum:%s" % k, "include/pathrs.h", "Rust %s vs header %s" % (rvals.get(k), hvals.get(k))))
    a = F.adts.get("capi::procfs::CProcfsBase")
    td = hdr.typedefs.get("pathrs_proc_base_t")
    try:
        hc = hdr.classify("pathrs_proc_base_t")
    except ParseError as e:
        hc = None
    if a is not None and hc is not None and a.get("size") == hc["size"] and hc["class"] == "uint":
        out.append(holds("C18.R2", "enum:width", "include/pathrs.h", "typedef %s, Rust size %d" % (td, a["size"])))
    else:
        out.append(violated("C18.R2", "enum:width", "include/pathrs.h", "pathrs_proc_base_t width: header %s, Rust %s" % (hc, a.get("size") if a else None)))
    return out


def r3_struct(ctx):
    F = ctx.facts
    out = []
    try:
        hdr, _ = _load(ctx)
    except (ParseError, OSError) as e:
        return [violated("C18.R3", "header:parse", "include/pathrs.h", str(e))]
    a = F.adts.get("capi::error::CError")
    h = hdr.structs.get("pathrs_error_t")
    if a is None or h is None:
        return [violated("C18.R3", "pathrs_error_t", "", "struct missing on one side (Rust %s, header %s)" % (a is not None, h is not None))]
    rf = a["variants"][0]["fields"]
    bad = []
    if not a["repr_c"]:
        bad.append("CError is not repr(C)")
    if [f["name"] for f in rf] != [n for (_t, n) in h["fields"]]:
        bad.append("field names/order: Rust %s vs header %s" % ([f["name"] for f in rf], [n for (_t, n) in h["fields"]]))
    else:
        off = 0
        for i, ((ct, nm), fc) in enumerate(zip(h["fields"], a.get("field_classes", []))):
            hc = hdr.classify(ct)
            rc = _rust_class(fc)
            if not _same(rc, hc):
                bad.append("field %s: Rust %s vs header %s" % (nm, rc, hc))
            sz = hc["size"]
            off = (off + sz - 1) // sz * sz
            if a["offsets"][i] != off:
                bad.append("field %s offset: Rust %d vs C %d" % (nm, a["offsets"][i], off))
            off += sz
        al = h["aligned"] or 8
        csize = (off + al - 1) // al * al
        if a["size"] != csize or a["align"] != al:
            bad.append("size/align: Rust %d/%d vs C %d/%d" % (a["size"], a["align"], csize, al))
    if bad:
        out.append(violated("C18.R3", "pathrs_error_t:layout", a["span"], "; ".join(bad)))
    else:
        out.append(holds("C18.R3", "pathrs_error_t:layout", a["span"], "fields %s, size %d, align %d" % ([f["name"] for f in rf], a["size"], a["align"])))
    return out


def r4_go(ctx):
    out = []
    try:
        hdr, _ = _load(ctx)
        with open(os.path.join(ctx.repo, "go-pathrs/libpathrs_linux.go")) as fh:
            gtext = fh.read()
        calls, consts, types, fields = go_calls(gtext, hdr)
    except (ParseError, OSError) as e:
        return [violated("C18.R4", "go:parse", "go-pathrs/libpathrs_linux.go", "cannot analyse the Go binding: %s" % e)]
    cnt = {}
    for (sym, classes, line, args) in calls:
        i = cnt.get(sym, 0)
        cnt[sym] = i + 1
        key = "go:%s:%d" % (sym, i)
        where = "go-pathrs/libpathrs_linux.go:%d" % line
        h = hdr.funcs.get(sym)
        if h is None:
            out.append(violated("C18.R4", key, where, "Go calls a symbol that the header does not declare"))
            continue
        if len(h["params"]) != len(classes):
            out.append(violated("C18.R4", key, where, "Go passes %d arguments, header declares %d" % (len(classes), len(h["params"]))))
            continue
        bad = []
        for j, (gc, (ct, nm)) in enumerate(zip(classes, h["params"])):
            hc = hdr.classify(ct)
            if not _same(gc, hc, strict_const=False):
                bad.append("argument %d (%s): Go %s vs header '%s'" % (j, nm, {k: v for k, v in gc.items() if k != "expr"}, ct))
        if bad:
            out.append(violated("C18.R4", key, where, "; ".join(bad)))
        else:
            out.append(holds("C18.R4", key, where, "arity and argument widths agree"))
    allc = {}
    for e in hdr.enums.values():
        allc.update(e)
    for c in consts:
        (out.append(holds("C18.R4", "go:const:%s" % c, "go-pathrs/libpathrs_linux.go", "constant exists")) if c in allc else
         out.append(violated("C18.R4", "go:const:%s" % c, "go-pathrs/libpathrs_linux.go", "Go references a constant the header does not define")))
    for t in types:
        (out.append(holds("C18.R4", "go:type:%s" % t, "go-pathrs/libpathrs_linux.go", "type exists")) if t in hdr.typedefs or t in hdr.structs else
         out.append(violated("C18.R4", "go:type:%s" % t, "go-pathrs/libpathrs_linux.go", "Go references a type the header does not define")))
    st = hdr.structs.get("pathrs_error_t", {"fields": []})
    for f in fields:
        (out.append(holds("C18.R4", "go:field:%s" % f, "go-pathrs/libpathrs_linux.go", "field exists")) if f in [n for (_t, n) in st["fields"]] else
         out.append(violated("C18.R4", "go:field:%s" % f, "go-pathrs/libpathrs_linux.go", "Go reads a field pathrs_error_t does not have")))
    return out


def r5_python(ctx):
    out = []
    base = os.path.join(ctx.repo, "contrib/bindings/python/pathrs")
    try:
        hdr, htext = _load(ctx)
        with open(os.path.join(base, "_pathrs.py")) as fh:
            ptext = fh.read()
        with open(os.path.join(base, "pathrs_build.py")) as fh:
            btext = fh.read()
        calls, consts = py_calls(ptext)
        cdef_text, pre = py_cdef_header(htext, btext)
    except (ParseError, OSError) as e:
        return [violated("C18.R5", "python:parse", "contrib/bindings/python", "cannot analyse the Python binding: %s" % e)]
    cnt = {}
    for (sym, nargs, line, args) in calls:
        i = cnt.get(sym, 0)
        cnt[sym] = i + 1
        key = "py:%s:%d" % (sym, i)
        where = "contrib/bindings/python/pathrs/_pathrs.py:%d" % line
        h = hdr.funcs.get(sym)
        if h is None:
            out.append(violated("C18.R5", key, where, "Python calls a symbol that the header does not declare"))
        elif len(h["params"]) != nargs:
            out.append(violated("C18.R5", key, where, "Python passes %d arguments, header declares %d" % (nargs, len(h["params"]))))
        else:
            out.append(holds("C18.R5", key, where, "symbol exists, arity %d" % nargs))
    allc = {}
    for e in hdr.enums.values():
        allc.update(e)
    for c in consts:
        (out.append(holds("C18.R5", "py:const:%s" % c, "_pathrs.py", "constant exists")) if c in allc else
         out.append(violated("C18.R5", "py:const:%s" % c, "_pathrs.py", "Python references a constant the header does not define")))
    # the cdef text cffi is given: pre-declarations + preprocessed header must parse and contain the same prototypes
    pre_td = {}
    for p in pre:
        m = re.match(r"\s*typedef\s+(.+?)\s+(\w+)\s*;\s*$", p)
        if m:
            pre_td[m.group(2)] = m.group(1)
    try:
        ch = Header(cdef_text, extra_typedefs=pre_td)
    except ParseError as e:
        out.append(violated("C18.R5", "py:cdef:parse", "pathrs_build.py", "the preprocessed header is not declarations-only C: %s" % e))
        return out
    if set(ch.funcs) == set(hdr.funcs) and all(ch.funcs[k]["params"] == hdr.funcs[k]["params"] for k in hdr.funcs):
        out.append(holds("C18.R5", "py:cdef:prototypes", "pathrs_build.py", "cdef sees the header's %d prototypes unchanged" % len(ch.funcs)))
    else:
        out.append(violated("C18.R5", "py:cdef:prototypes", "pathrs_build.py", "cdef preprocessing changes the set of prototypes"))
    st = ch.structs.get("pathrs_error_t")
    if st is not None and st["open"] and st["aligned"] is None:
        out.append(holds("C18.R5", "py:cdef:struct", "pathrs_build.py", "aligned struct rewritten to an open ('...;') struct for cffi"))
    else:
        out.append(violated("C18.R5", "py:cdef:struct", "pathrs_build.py", "struct rewrite for cffi no longer matches the header's struct syntax"))
    # hand-written typedefs must agree with the header's C types
    for nm, ct in pre_td.items():
        try:
            a = Header("", extra_typedefs={}).classify(ct)
            b = hdr.classify(nm)
            if _same(a, b):
                out.append(holds("C18.R5", "py:cdef:typedef:%s" % nm, "pathrs_build.py", "typedef %s %s agrees with the platform type" % (ct, nm)))
            else:
                out.append(violated("C18.R5", "py:cdef:typedef:%s" % nm, "pathrs_build.py",
                                    "cffi is told `typedef %s %s;` (%d bytes) but the header's %s is %d bytes" % (ct, nm, a["size"], nm, b["size"])))
        except ParseError as e:
            out.append(violated("C18.R5", "py:cdef:typedef:%s" % nm, "pathrs_build.py", str(e)))
    return out


def r6_renames(ctx):
    out = []
    try:
        with open(os.path.join(ctx.repo, "cbindgen.toml")) as fh:
            t = fh.read()
    except OSError as e:
        return [violated("C18.R6", "cbindgen.toml", "", str(e))]
    ren = dict(re.findall(r'^"(\w+)"\s*=\s*"(\w+)"', t, flags=re.M))
    want = {"CProcfsBase": "pathrs_proc_base_t", "CError": "pathrs_error_t", "CBorrowedFd": "int", "RawFd": "int"}
    for k, v in want.items():
        (out.append(holds("C18.R6", "rename:%s" % k, "cbindgen.toml", "%s -> %s" % (k, v))) if ren.get(k) == v else
         out.append(violated("C18.R6", "rename:%s" % k, "cbindgen.toml", "%s is renamed to %s, expected %s" % (k, ren.get(k), v))))
    return out


PLATFORM_WORDS = {"c_long": "long", "c_ulong": "unsigned long", "usize": "size_t", "isize": "ssize_t", "size_t": "size_t",
                  "ssize_t": "ssize_t", "c_longlong": "long long", "c_ulonglong": "unsigned long long", "uintptr_t": "uintptr_t", "intptr_t": "intptr_t"}


def r7_source_portability(ctx):
    """What the type-checked program of *this* build cannot show: (a) every definition of an exported function -- in every
    cfg variant written in src/capi -- carries #[no_mangle] (a variant compiled only with -C panic=abort or on another
    target would otherwise silently drop the symbol the header declares); (b) a repr(C) field the header declares with a
    fixed-width type is declared with a fixed-width Rust type (c_ulong/usize are u64 here and u32 on ILP32 targets)."""
    import glob
    out = []
    repo = ctx.repo
    try:
        hdr, _ = _load(ctx)
    except (ParseError, OSError) as e:
        return [violated("C18.R7", "header:parse", "include/pathrs.h", str(e))]
    files = sorted(glob.glob(os.path.join(repo, "src/capi/*.rs")) + [os.path.join(repo, "src/capi.rs")])
    n = 0
    for fp in files:
        if not os.path.exists(fp):
            continue
        lines = open(fp).read().split("\n")
        rel = os.path.relpath(fp, repo)
        for i, ln in enumerate(lines):
            m = re.search(r'\bextern\s+"C"\s+fn\s+(pathrs_\w+)', ln)
            if not m or ln.lstrip().startswith("//"):
                continue
            name = m.group(1)
            attrs = [a.strip() for a in re.findall(r"#\[[^\]]*\]", ln[:m.start()])]   # attributes written on the same line
            j = i - 1
            while j >= 0 and (lines[j].strip().startswith(("#[", "///", "//", "pub", "unsafe")) and not re.search(r"\bfn\b|[;{}]\s*$", lines[j])):
                attrs.append(lines[j].strip())
                j -= 1
            n += 1
            key = "%s:no_mangle:%s" % (name, sum(1 for a in attrs if a.startswith("#[cfg")) and "cfg-variant" or "def")
            if any(re.search(r"\bno_mangle\b|\bexport_name\b", a) for a in attrs if a.startswith("#[")):
                out.append(holds("C18.R7", key, "%s:%d" % (rel, i + 1), "definition carries #[no_mangle]"))
            else:
                out.append(violated("C18.R7", key, "%s:%d" % (rel, i + 1), "a definition of %s (cfg variant: %s) has no #[no_mangle]: a build that selects it does not export the symbol declared in pathrs.h" % (name, [a for a in attrs if a.startswith("#[cfg")] or "none")))
    if n < 20:
        out.append(violated("C18.R7", "exported-definitions:count", "src/capi", "only %d extern \"C\" pathrs_* definitions found in the source scan (expected >= 20)" % n))
    # (b) fixed-width header fields
    a = ctx.facts.adts.get("capi::error::CError")
    h = hdr.structs.get("pathrs_error_t")
    src = ""
    try:
        src = open(os.path.join(repo, "src/capi/error.rs")).read()
    except OSError:
        pass
    m = re.search(r"struct\s+CError\s*\{(.*?)\n\}", src, re.S)
    if a is None or h is None or not m:
        out.append(violated("C18.R7", "pathrs_error_t:declared-types", "src/capi/error.rs", "cannot find struct CError in the source / header"))
        return out
    decl = dict(re.findall(r"^\s*(?:pub(?:\([^)]*\))?\s+)?(\w+)\s*:\s*([^,\n]+),", m.group(1), re.M))
    for (ct, nm) in h["fields"]:
        rt = (decl.get(nm) or "").strip()
        last = re.split(r"::", rt)[-1].strip()
        key = "pathrs_error_t:%s:declared-type" % nm
        fixed = re.fullmatch(r"(const\s+)?u?int(8|16|32|64)_t", ct.strip())
        if fixed and last in PLATFORM_WORDS:
            out.append(violated("C18.R7", key, "src/capi/error.rs", "header declares `%s %s` (fixed width) but the Rust field is `%s`, whose width depends on the target (%s): layouts differ on ILP32" % (ct.strip(), nm, rt, PLATFORM_WORDS[last])))
        elif not rt:
            out.append(violated("C18.R7", key, "src/capi/error.rs", "field %s not found in the source of CError" % nm))
        else:
            out.append(holds("C18.R7", key, "src/capi/error.rs", "header `%s` / Rust `%s`" % (ct.strip(), rt)))
    return out


RULES = [
    ("C18.R1", r1_functions, 20, True),
    ("C18.R2", r2_enum, 4, True),
    ("C18.R3", r3_struct, 1, True),
    ("C18.R4", r4_go, 25, True),
    ("C18.R5", r5_python, 25, True),
    ("C18.R6", r6_renames, 4, True),
    ("C18.R7", r7_source_portability, 22, True),
]
