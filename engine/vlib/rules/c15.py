"""C15 — the emulated resolver enforces fs.protected_symlinks exactly like the kernel."""
import itertools

from ..cfg import cfg_of
from ..common import *
from ..cut import bool_edges, origin_keys, result_edges
from ..engine import holds, unproven, violated
from ..facts import Operand, Place
from ..guards import unguarded_uses

EXPLANATION = ("C15: decision-table extraction (DT) from the loop-free MIR of may_follow_link: every branch is a comparison "
               "whose operands are canonicalised by provenance into the four kernel comparisons (the sticky and other-writable bits may be tested separately); all 32 valuations of the five inputs are pushed through the CFG "
               "and the resulting Ok/Err(EACCES) table is compared with the kernel's may_follow_link(); call placement in "
               "the walk (before the readlink of every followed link, not for an unfollowed trailing link, with (directory "
               "fd, link fd)); source of the cached sysctl.")
ASSUMPTIONS = ["kernel reference: fs/namei.c may_follow_link(): allowed iff !sysctl || uid(link)==fsuid || !(dir sticky && world-writable) || uid(link)==uid(dir)",
               "geteuid() stands for the fsuid (differs only after setfsuid); the sysctl value is cached for the process lifetime"]

MFL = "resolvers::opath::imp::may_follow_link"
STICKY_WW = 0o1002


def _canon_operand(ctx, body, bb, idx, op):
    T = ctx.tracer
    if op.is_const:
        v = op.int_value()
        return "const:%s" % v
    res = set()
    for o in T.origins_of_operand(body, bb, idx, op):
        if o.kind == "static" and o.detail.endswith("PROTECTED_SYMLINKS_SYSCTL"):
            res.add("sysctl")
        elif o.kind == "call" and o.term.callee == "syscalls::geteuid":
            res.add("fsuid")
        elif o.kind == "call" and o.term.callee.endswith("MetadataExt::uid"):
            res.add("uid(%s)" % _meta_of(ctx, o.term))
        elif o.kind == "call" and o.term.callee.endswith("MetadataExt::gid"):
            res.add("gid(%s)" % _meta_of(ctx, o.term))
        elif o.kind == "call" and o.term.callee.endswith("MetadataExt::mode"):
            res.add("mode(%s)" % _meta_of(ctx, o.term))
        elif o.kind == "expr" and o.detail.startswith("bin:BitAnd"):
            s = o.stmt
            ops = s.rv_operands()
            # find the statement position
            parts = []
            for blk in body.blocks:
                for i, st in enumerate(blk.stmts):
                    if st is s:
                        parts = sorted(_canon_operand(ctx, body, blk.idx, i, x) for x in ops)
            res.add("(" + "&".join(parts) + ")")
        elif o.kind == "const":
            res.add("const:%s" % o.const_int())
        else:
            res.add("?%s" % (o.callee if o.kind == "call" else o.kind))
    return "|".join(sorted(res)) if res else "?"


def _meta_of(ctx, term):
    """Which parameter's metadata does a MetadataExt accessor read: 'dir' (param 1) or 'link' (param 2)."""
    T = ctx.tracer
    names = set()
    for o in T.origins_of_arg(term, 0):
        if o.kind == "call" and o.term.callee == "utils::fd::FdExt::metadata":
            for p in T.origins_of_arg(o.term, 0):
                if p.kind == "param":
                    names.add({1: "dir", 2: "link"}.get(p.detail, "p%d" % p.detail))
                else:
                    names.add("?")
        else:
            names.add("?")
    return "|".join(sorted(names)) if names else "?"


ATOMS = {
    ("const:0", "sysctl"): "P0",
    ("fsuid", "uid(link)"): "P1",
    ("(const:%d&mode(dir))" % STICKY_WW, "const:%d" % STICKY_WW): "P2",
    ("uid(dir)", "uid(link)"): "P3",
}


def r1_decision_table(ctx):
    F = ctx.facts
    out = []
    b = F.body(MFL)
    cfg = cfg_of(b)
    if cfg.natural_loops():
        return [violated("C15.R1", "may_follow_link:loop-free", b.where(), "may_follow_link contains a loop; decision-table extraction needs a loop-free body")]
    # map every bool switch to an atom: the discriminant is (the negation of) a comparison, possibly held
    # in a named bool and defined in an earlier block
    sw_atom = {}
    unknown = []

    def atom_of(bb, idx, op, depth=0):
        """-> (atom, value-of-switch-operand == atom-holds ?) or None"""
        if depth > 4 or op.place is None:
            return None
        for o in ctx.tracer.origins_of_operand(b, bb, idx, op):
            if o.kind != "expr" or o.stmt is None:
                return None
            s = o.stmt
            pos = None
            for blk2 in b.blocks:
                for i2, s2 in enumerate(blk2.stmts):
                    if s2 is s:
                        pos = (blk2.idx, i2)
            if pos is None:
                return None
            if s.rv["k"] == "bin" and s.rv["op"] in ("Eq", "Ne"):
                ops = s.rv_operands()
                key = tuple(sorted(_canon_operand(ctx, b, pos[0], pos[1], x) for x in ops))
                a = ATOMS.get(key)
                if a is None:
                    # a test of some of the two directory mode bits the kernel looks at: (mode(dir) & M) ==/!= K with M within S_ISVTX|S_IWOTH
                    import re as _re
                    mm = [(_re.fullmatch(r"\(const:(\d+)&mode\(dir\)\)", k_), k_) for k_ in key]
                    kk = [k_ for k_ in key if _re.fullmatch(r"const:\d+", k_)]
                    mm = [m_ for (m_, _k) in mm if m_]
                    if len(mm) == 1 and len(kk) == 1:
                        M = int(mm[0].group(1))
                        K = int(kk[0][6:])
                        if M and (M & ~STICKY_WW) == 0 and (K & ~M) == 0:
                            return (("MODE", M, K), s.rv["op"] == "Eq")
                    unknown.append((bb, key))
                    return None
                return (a, s.rv["op"] == "Eq")
            if s.rv["k"] == "un" and s.rv["op"] == "Not":
                r = atom_of(pos[0], pos[1], s.rv_operands()[0], depth + 1)
                if r is None:
                    return None
                return (r[0], not r[1])
            return None
        return None

    for blk in b.blocks:
        if blk.cleanup or blk.idx in cfg.dead or blk.term.kind != "switch":
            continue
        t = blk.term
        if t.raw["dty"] != "bool":
            continue
        d = Operand(t.raw["d"])
        r = atom_of(blk.idx, len(blk.stmts), d)
        if r is None:
            if not any(u[0] == blk.idx for u in unknown if isinstance(u, tuple)):
                unknown.append(blk.idx)
            continue
        sw_atom[blk.idx] = r
    if unknown:
        out.append(violated("C15.R1", "may_follow_link:atoms", b.where(), "branch conditions that are not one of the four kernel comparisons: %s" % unknown))
        return out
    # push all 16 valuations through the CFG
    table = {}
    for vals5 in itertools.product([False, True], repeat=5):
        p0_, p1_, st_, ww_, p3_ = vals5
        vals = (p0_, p1_, st_ and ww_, p3_)
        env = {"P0": p0_, "P1": p1_, "P2": st_ and ww_, "P3": p3_}
        dirbits = (0o1000 if st_ else 0) | (0o2 if ww_ else 0)
        bb = cfg.entry
        steps = 0
        res = None
        while steps < 500:
            steps += 1
            blk = b.blocks[bb]
            for s in blk.stmts:
                if s.kind == "assign" and s.lhs.local == 0 and s.rv["k"] == "agg" and s.rv.get("adt") == "std::result::Result":
                    res = s.rv["variant"]
            t = blk.term
            es = cfg.succ.get(bb, [])
            if t.kind == "ret":
                break
            if t.kind == "switch" and bb in sw_atom:
                atom, is_eq = sw_atom[bb]
                if isinstance(atom, tuple) and atom[0] == "MODE":
                    holds_ = (dirbits & atom[1]) == atom[2]
                else:
                    holds_ = env[atom]
                truth = holds_ if is_eq else (not holds_)
                nxt = [e for e in es if (e.label != ("sw", 0)) == truth]
            elif t.kind == "switch":
                # `?` on a metadata() result: assume the call succeeded (Continue = 0)
                nxt = [e for e in es if e.label == ("sw", 0)]
            else:
                nxt = es
            if len(nxt) != 1:
                res = "stuck@bb%d" % bb
                break
            bb = nxt[0].dst
        table[vals5] = res
    bad = []
    for vals5, res in table.items():
        p0, p1, st_, ww_, p3 = vals5
        want = "Ok" if (p0 or p1 or (not (st_ and ww_)) or p3) else "Err"
        if res != want:
            bad.append("sysctl_off=%s owner_is_fsuid=%s dir_sticky=%s dir_other_writable=%s owner_is_dir_owner=%s: got %s, kernel %s" % (p0, p1, st_, ww_, p3, res, want))
    if bad:
        out.append(violated("C15.R1", "may_follow_link:table", b.where(), "decision table differs from the kernel's in %d of 32 rows: %s" % (len(bad), bad[0]), bad))
    else:
        out.append(holds("C15.R1", "may_follow_link:table", b.where(), "32/32 rows (sysctl, owner==fsuid, dir sticky, dir other-writable, owner==dir owner) equal the kernel's may_follow_link()"))
    # refusal errno
    errs = {o.const_int(True) for c in b.calls("std::io::Error::from_raw_os_error") for o in ctx.tracer.origins_of_arg(c, 0)}
    (out.append(holds("C15.R1", "may_follow_link:errno", b.where(), "refusal -> EACCES")) if errs == {EACCES} else
     out.append(violated("C15.R1", "may_follow_link:errno", b.where(), "refusal errno %s, kernel uses EACCES" % sorted(errs))))
    # metadata of (param1 = directory, param2 = link) via FdExt::metadata
    ms = list(b.calls("utils::fd::FdExt::metadata"))
    ps = sorted({p.detail for m in ms for p in ctx.tracer.origins_of_arg(m, 0) if p.kind == "param"})
    (out.append(holds("C15.R1", "may_follow_link:inputs", b.where(), "fstat of the directory fd and of the link fd")) if ps == [1, 2] else
     out.append(violated("C15.R1", "may_follow_link:inputs", b.where(), "metadata is taken from parameters %s" % ps)))
    return out


def r2_call_placement(ctx):
    F = ctx.facts
    T = ctx.tracer
    out = []
    b = F.body("resolvers::opath::imp::do_resolve")
    cfg = cfg_of(b)
    opens = list(b.calls("syscalls::openat"))
    if len(opens) != 1:
        return [violated("C15.R2", "do_resolve:open", b.where(), "expected one component open")]
    op = opens[0]
    mfl = list(b.calls(MFL))
    rl = [t for t in b.calls("syscalls::readlinkat") if any(o.kind == "call" and o.term is op for o in T.origins_of_arg(t, 0))]
    if not rl:
        return [violated("C15.R2", "do_resolve:readlink", b.where(), "no readlink of the opened component found")]
    good = []
    for m in mfl:
        d = T.origins_of_arg(m, 0)
        l = T.origins_of_arg(m, 1)
        okl = bool(l) and all(o.kind == "call" and o.term is op for o in l)
        # directory = the dirfd the link was opened from
        okd = bool(d) and origin_keys(d) == origin_keys(T.origins_of_arg(op, 0))
        if okl and okd:
            r = result_edges(b, m)
            if r and r["kind"] == "try":
                good.append((m, r))
        else:
            out.append(violated("C15.R2", "do_resolve:may_follow_link:args", m.where(), "may_follow_link is not called with (directory the link was opened from, link): dir-ok=%s link-ok=%s" % (okd, okl)))
    cut = [e.key() for (_m, r) in good for e in r["all_ok"]]
    for n, t in enumerate(rl):
        if not good or t.bb in cfg.reachable(cfg.entry, cut_edges=cut):
            out.append(violated("C15.R2", "do_resolve:readlinkat:%d" % n, t.where(), "a link body can be read (the link followed) without a successful may_follow_link(dir, link)"))
        else:
            out.append(holds("C15.R2", "do_resolve:readlinkat:%d" % n, t.where(), "may_follow_link(dir, link)? dominates the readlink"))
    # not applied to an unfollowed trailing link
    sym = []
    for t in b.calls("utils::fd::Metadata::is_symlink"):
        be = bool_edges(b, t)
        if be:
            sym.append(be)
    adopts = [t for t in b.calls("std::convert::Into::into") if any(o.kind == "call" and o.term is op for o in T.origins_of_arg(t, 0))]
    reach = cfg.edge_targets_reachable([e for be in sym for e in be["true"]], cut_nodes=[m.bb for m in mfl])
    if any(a.bb in reach for a in adopts):
        out.append(holds("C15.R2", "do_resolve:trailing-nofollow", b.where(), "an unfollowed trailing link is returned without the ownership check (like O_NOFOLLOW|O_PATH)"))
    else:
        out.append(violated("C15.R2", "do_resolve:trailing-nofollow", b.where(), "the ownership check is applied to links that are not followed"))
    return out


def r3_sysctl_source(ctx):
    F = ctx.facts
    T = ctx.tracer
    out = []
    cls = F.closures_of("resolvers::opath::imp::PROTECTED_SYMLINKS_SYSCTL")
    ok = False
    for cb in cls:
        for t in cb.calls("utils::sysctl::sysctl_read_parse"):
            h = T.origins_of_arg(t, 0)
            n = [o.const_bytes() for o in T.origins_of_arg(t, 1) if o.kind == "const"]
            if any(o.kind == "static" and o.detail == "procfs::GLOBAL_PROCFS_HANDLE" for o in h) and n == ["fs.protected_symlinks"]:
                ok = True
    (out.append(holds("C15.R3", "sysctl:name", "", "fs.protected_symlinks read through GLOBAL_PROCFS_HANDLE")) if ok else
     out.append(violated("C15.R3", "sysctl:name", "", "the cached sysctl is not fs.protected_symlinks read through the procfs handle")))
    sb = F.body("utils::sysctl::sysctl_read_line")
    ok2 = False
    for t in sb.calls("procfs::ProcfsHandle::open"):
        base = T.origins_of_arg(t, 1)
        adt = F.adts.get("procfs::ProcfsBase")
        vn = [v["name"] for v in adt["variants"]]
        isroot = any((o.kind == "agg" and o.detail == "procfs::ProcfsBase::ProcRoot") or
                     (o.kind == "const" and o.const_int() is not None and o.const_int() < len(vn) and vn[o.const_int()] == "ProcRoot") for o in base)
        p = T.origins_of_arg(t, 2)
        frm = any(o.kind == "call" and o.term.callee == "std::path::PathBuf::from" for o in p) or any(
            o.kind == "mutated" and o.term.callee == "std::path::PathBuf::push" for o in p)
        sysc = any(c.args and c.args[0].is_const and c.args[0].bytes_value() == "sys" for c in sb.calls() if c.callee in ("std::convert::From::from", "std::path::PathBuf::from"))
        ok2 = isroot and sysc
    (out.append(holds("C15.R3", "sysctl:path", sb.where(), "/proc/sys/<name with . -> /> under ProcfsBase::ProcRoot")) if ok2 else
     out.append(violated("C15.R3", "sysctl:path", sb.where(), "sysctl file is not opened as sys/... under the procfs root")))
    return out


def r4_live_inputs(ctx):
    """The table of R1 is only as good as what is fed into it.  (a) the caller's identity is asked from the kernel at
    every check: syscalls::geteuid returns the result of the geteuid system call and reads no static (a cached uid
    is wrong after seteuid/setresuid).  (b) `uid()`/`mode()` of the crate's Metadata are the st_uid/st_mode fields
    of the stat result it wraps (not a neighbour such as st_gid).  (c) the cached sysctl has no fail-open default: the
    value is what sysctl_read_parse returned -- a constant 0 standing in for an unreadable sysctl disables the policy
    where the kernel enforces it."""
    F = ctx.facts
    T = ctx.tracer
    out = []
    g = "syscalls::geteuid"
    if not F.has(g):
        out.append(violated("C15.R4", "geteuid:live", "", "%s not found" % g))
    else:
        b = F.body(g)
        ro = T.return_origins(b)

        def from_syscall(o, depth=0):
            if o.kind != "call" or depth > 3:
                return False
            c = o.term.callee or ""
            if c in ("rustix::process::geteuid", "libc::geteuid", "rustix::process::getuid_euid"):
                return True
            if c.endswith("::as_raw") or c.endswith("::into") or c.endswith("::from"):
                inner = T.origins_of_arg(o.term, 0)
                return bool(inner) and all(from_syscall(x, depth + 1) for x in inner)
            return False

        if ro and all(from_syscall(o) for o in ro):
            out.append(holds("C15.R4", "geteuid:live", b.where(), "every call asks the kernel (rustix::process::geteuid)"))
        else:
            out.append(violated("C15.R4", "geteuid:live", b.where(), "the caller's uid does not come straight from the geteuid system call (%s): a value cached across seteuid()/setresuid() judges links by the wrong user" % sorted({repr(o) for o in ro})[:3]))
    for acc, fld in (("uid", "st_uid"), ("mode", "st_mode")):
        fn = "<utils::fd::Metadata as rustix::fs::MetadataExt>::%s" % acc
        key = "Metadata::%s:field" % acc
        if not F.has(fn):
            out.append(violated("C15.R4", key, "", "%s not found" % fn))
            continue
        b = F.body(fn)
        ro = T.return_origins(b)

        def field_of(o, depth=0):
            if o.kind == "param" and o.detail == 1:
                return {o.fpath[-1]} if o.fpath else {"?"}
            if o.kind == "call" and depth < 3 and ((o.term.callee or "").endswith(("::into", "::from", "::try_into", "::unwrap", "::clone"))):
                r = set()
                for x in T.origins_of_arg(o.term, 0):
                    r |= field_of(x, depth + 1)
                return r or {"?"}
            if o.kind == "expr" and (o.detail or "").startswith("cast") and o.stmt is not None and depth < 3:
                pos = [(bl.idx, i) for bl in b.blocks for i, st in enumerate(bl.stmts) if st is o.stmt]
                r = set()
                if pos:
                    for x in T.origins_of_operand(b, pos[0][0], pos[0][1], o.stmt.rv_operands()[0]):
                        r |= field_of(x, depth + 1)
                return r or {"?"}
            return {repr(o)}

        flds = set()
        for o in ro:
            flds |= {str(x) for x in field_of(o)}
        if flds == {fld}:
            out.append(holds("C15.R4", key, b.where(), "%s() is the %s field of the wrapped stat result" % (acc, fld)))
        else:
            out.append(violated("C15.R4", key, b.where(), "%s() of the crate's Metadata returns %s, not %s" % (acc, sorted(flds), fld)))
    cls = F.closures_of("resolvers::opath::imp::PROTECTED_SYMLINKS_SYSCTL")
    key = "sysctl:no-fail-open-default"
    if not cls:
        out.append(violated("C15.R4", key, "", "initialiser of PROTECTED_SYMLINKS_SYSCTL not found"))
    def expand(o, depth=0):
        """look through the combinators that supply a fallback value"""
        if o.kind != "call" or depth > 4:
            return [o]
        m = (o.term.callee or "").rsplit("::", 1)[-1]
        if m in ("unwrap_or", "map_or"):
            res = []
            for i in range(len(o.term.args)):
                for x in T.origins_of_arg(o.term, i):
                    res.extend(expand(x, depth + 1))
            return res
        if m in ("unwrap_or_default",):
            return ["default"] + [y for x in T.origins_of_arg(o.term, 0) for y in expand(x, depth + 1)]
        if m in ("unwrap_or_else", "map_or_else", "or_else"):
            res = [y for x in T.origins_of_arg(o.term, 0) for y in expand(x, depth + 1)]
            for a in T.origins_of_arg(o.term, 1):
                if a.kind == "agg" and a.detail and a.detail.startswith("closure ") and F.has(a.detail[len("closure "):]):
                    for x in T.return_origins(F.body(a.detail[len("closure "):])):
                        res.extend(expand(x, depth + 1))
            return res
        if m in ("unwrap", "expect", "ok", "into", "from"):
            inner = [y for x in T.origins_of_arg(o.term, 0) for y in expand(x, depth + 1)]
            return inner or [o]
        return [o]

    for cb in cls[:1]:
        ro = [y for o in T.return_origins(cb) for y in expand(o)]
        zero = [o for o in ro if o == "default" or (o.kind == "const" and o.const_int() == 0)]
        ro = [o for o in ro if o != "default"]
        reads = [o for o in ro if o.kind == "call"]
        if zero:
            out.append(violated("C15.R4", key, cb.where(), "an unreadable fs.protected_symlinks is replaced by the constant 0: the emulated resolver then follows every link where the kernel (sysctl = 1) refuses"))
        elif not reads:
            out.append(violated("C15.R4", key, cb.where(), "the cached value does not come from reading the sysctl: %s" % sorted({repr(o) for o in ro})[:3]))
        else:
            out.append(holds("C15.R4", key, cb.where(), "cached value = what was read; no constant 0 default"))
    return out


RULES = [
    ("C15.R1", r1_decision_table, 3, False),
    ("C15.R2", r2_call_placement, 2, False),
    ("C15.R3", r3_sysctl_source, 2, False),
    ("C15.R4", r4_live_inputs, 4, False),
]
