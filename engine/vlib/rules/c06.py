"""C06 — procfs calls return only genuine procfs objects under over-mounts: every fd that is
returned or used as a directory has passed the mount-identity checks on all paths."""
import re

from ..cfg import cfg_of
from ..common import *
from ..cut import bool_edges, origin_keys, result_edges
from ..engine import holds, unproven, violated
from ..facts import Operand, Place
from ..guards import closure_guards_param, guard_calls, source_uses, unguarded_uses
from .c05 import shared, _cls

EXPLANATION = ("C06: typestate rules on MIR: lookup results in ProcfsHandle::open/open_base, every step and the final reopen "
               "of the emulated procfs walk, the magic-link parent in open_follow and every constructed handle are used or "
               "returned only behind the success edge of the mount-id / fstype verification; the comparisons fail closed; "
               "constructor preference order; kernel path uses RESOLVE_NO_XDEV|BENEATH (C05.R4).")
ASSUMPTIONS = ["which object the kernel returns under a given mount table, and racing mounts, are not decided"]

PH = "procfs::ProcfsHandle"
VERIFY = ("procfs::ProcfsHandle::verify_same_procfs_mnt",)
VSM = ("procfs::verify_same_mnt",)
LOOKUP = ("resolvers::procfs::ProcfsResolver::resolve",)


def r1_open_verified(ctx):
    F = ctx.facts
    T = ctx.tracer
    out = []
    # every raw procfs lookup in procfs.rs is verified before its result is used or returned
    fns = sorted({b.path for b in F.fn_bodies() if b.file == "src/procfs.rs" and list(b.calls(*LOOKUP))})
    if len(fns) < 2:
        out.append(violated("C06.R1", "procfs.rs:lookups", "", "expected resolver lookups in at least open_base and the open path, found %s" % fns))
    for fn in fns:
        b = F.body(fn)
        srcs = list(b.calls(*LOOKUP))
        for n, s in enumerate(srcs):
            key = "%s:lookup:%d" % (fn_key(b), n)
            # idiom 2: result consumed by and_then(verifying closure)
            consumer = None
            for t in b.calls("std::result::Result::<T, E>::and_then"):
                o = T.origins_of_arg(t, 0)
                if any(x.kind == "call" and x.term is s for x in o):
                    consumer = t
            if consumer is not None:
                cl = None
                for o in T.origins_of_arg(consumer, 1):
                    if o.kind == "agg" and o.detail and o.detail.startswith("closure "):
                        cl = o.detail[len("closure "):]
                if cl and F.has(cl):
                    ok, why = closure_guards_param(F, T, F.body(cl), 2, VERIFY)
                    # no other consumer of the raw result
                    others = [u for u in source_uses(b, T, s, exclude=[consumer]) if not (u[0] == "call" and u[2].bb == consumer.bb)]
                    # uses downstream of and_then carry the verified value: only accept calls that consume and_then's result
                    raw_other = []
                    for u in others:
                        if u[0] == "call":
                            via = any(any(x.kind == "call" and x.term is s for x in T.origins_of_arg(u[2], i)) for i in range(len(u[2].args)))
                            # is the use dominated by the and_then call?
                            if consumer.bb in cfg_of(b).dominators().get(u[1], set()):
                                continue
                            raw_other.append(u)
                    if ok and not raw_other:
                        out.append(holds("C06.R1", key, s.where(), "lookup result only flows through and_then(verify_same_procfs_mnt)"))
                    else:
                        out.append(violated("C06.R1", key, s.where(), "lookup result is not verified on every path: %s %s" % (why, [repr(u[2]) for u in raw_other])))
                    continue
            uses, guards, bad, _ = unguarded_uses(b, T, s, VERIFY)
            if not guards:
                out.append(violated("C06.R1", key, s.where(), "the descriptor returned by the procfs lookup is never passed to verify_same_procfs_mnt"))
            elif bad:
                out.append(violated("C06.R1", key, s.where(), "lookup result used/returned before verify_same_procfs_mnt succeeded: %s" % [repr(u[2]) for u in bad]))
            else:
                out.append(holds("C06.R1", key, s.where(), "all %d uses behind the success edge of verify_same_procfs_mnt" % len(uses)))
    # verify_same_procfs_mnt = verify_same_mnt(self.mnt_id, fd, "") AND verify_is_procfs(fd)
    vb = F.body(PH + "::verify_same_procfs_mnt")
    c1 = list(vb.calls("procfs::verify_same_mnt"))
    c2 = list(vb.calls("procfs::verify_is_procfs"))
    ok = False
    why = "missing call"
    if c1 and c2:
        m = T.origins_of_arg(c1[0], 0)
        okid = bool(m) and all(o.kind == "param" and o.detail == 1 and o.fpath[-1:] == ("mnt_id",) for o in m)
        p = [o.const_bytes() for o in T.origins_of_arg(c1[0], 2) if o.kind == "const"]
        r = result_edges(vb, c1[0])
        # verify_is_procfs is the tail value or ?-propagated; verify_same_mnt must be ?-propagated before
        cfg = cfg_of(vb)
        dom = r is not None and c2[0].bb not in cfg.reachable(cfg.entry, cut_edges=[e.key() for e in r["all_ok"]])
        ro = T.return_origins(vb)
        tail = any(o.kind == "call" and o.term is c2[0] for o in ro) or result_edges(vb, c2[0]) is not None
        # no success return other than the fstype check's own result
        own_ok = [s for blk in vb.blocks if not blk.cleanup for s in blk.stmts
                  if s.kind == "assign" and s.lhs.local == 0 and s.rv["k"] == "agg" and s.rv.get("variant") == "Ok"]
        only_tail = True
        if own_ok:
            # an explicit Ok(()) is acceptable only behind the success edge of verify_is_procfs
            r2 = result_edges(vb, c2[0])
            if r2 is None:
                only_tail = False
            else:
                reach = cfg.reachable(cfg.entry, cut_edges=[e.key() for e in r2["all_ok"]])
                for blk in vb.blocks:
                    if blk.idx in reach and any(s in own_ok for s in blk.stmts):
                        only_tail = False
        ok = okid and p == [""] and dom and tail and only_tail
        why = "mnt_id-from-self=%s path=%r mnt-check-dominates=%s fstype-check-propagated=%s no-early-success=%s" % (okid, p, dom, tail, only_tail)
    (out.append(holds("C06.R1", "verify_same_procfs_mnt:both-checks", vb.where(), why)) if ok else
     out.append(violated("C06.R1", "verify_same_procfs_mnt:both-checks", vb.where(), "mount-id and fstype checks are not both enforced: " + why)))
    return out


def r2_opath_steps(ctx):
    F = ctx.facts
    T = ctx.tracer
    out = []
    b = F.body("resolvers::procfs::opath_resolve")
    opens = list(b.calls("syscalls::openat"))
    if len(opens) < 2:
        out.append(violated("C06.R2", "opath_resolve:opens", b.where(), "expected the step open and the final reopen"))
    # root mount id comes from fetch_mnt_id(root, "")
    for n, s in enumerate(opens):
        key = "opath_resolve:openat:%d" % n
        uses, guards, bad, _ = unguarded_uses(b, T, s, VSM, arg_index=1)
        good = []
        for (g, r) in guards:
            m = T.origins_of_arg(g, 0)
            okm = bool(m) and all(o.kind == "call" and o.term.callee == "utils::fd::fetch_mnt_id" for o in m)
            if okm:
                fm = m[0].term
                ro = T.origins_of_arg(fm, 0)
                okm = all(o.kind == "param" and o.detail == 1 for o in ro) and [o.const_bytes() for o in T.origins_of_arg(fm, 1)] == [""]
            p = [o.const_bytes() for o in T.origins_of_arg(g, 2) if o.kind == "const"]
            if okm and p == [""]:
                good.append(g)
        if not guards:
            out.append(violated("C06.R2", key, s.where(), "fd opened by the emulated procfs walk is never checked with verify_same_mnt"))
        elif len(good) != len(guards):
            out.append(violated("C06.R2", key, s.where(), "verify_same_mnt is not comparing against fetch_mnt_id(root, \"\") of the walk's root"))
        elif bad:
            out.append(violated("C06.R2", key, s.where(), "fd used/adopted/returned before verify_same_mnt succeeded: %s" % sorted({(repr(u[2])[:80] if u[0] == "call" else "return value") for u in bad})))
        else:
            out.append(holds("C06.R2", key, s.where(), "%d uses behind verify_same_mnt(root_mnt_id, fd, \"\")" % len(uses)))
    return out


def r3_open_follow(ctx):
    F = ctx.facts
    T = ctx.tracer
    out = []
    b = F.body(PH + "::open_follow")
    cfg = cfg_of(b)
    sinks = list(b.calls("syscalls::openat_follow"))
    if len(sinks) != 1:
        return [violated("C06.R3", "open_follow:sink", b.where(), "expected one following open")]
    s = sinks[0]
    par = T.origins_of_arg(s, 0)
    nme = T.origins_of_arg(s, 1)
    okp = bool(par) and all(o.kind == "call" and o.term.callee == PH + "::open" for o in par)
    if not okp:
        out.append(violated("C06.R3", "open_follow:parent", s.where(), "magic-link parent is not obtained through ProcfsHandle::open: %r" % par))
        return out
    popen = par[0].term
    # parent opened O_PATH|O_DIRECTORY
    ipa, pp = shared(ctx)
    bits = ipa.bits_of(b.path)
    v = bits.arg_value(popen, 3) if bits else None
    if v is not None and v.has(O_PATH | O_DIRECTORY):
        out.append(holds("C06.R3", "open_follow:parent-flags", popen.where(), "parent opened O_PATH|O_DIRECTORY through the verified open"))
    else:
        out.append(violated("C06.R3", "open_follow:parent-flags", popen.where(), "parent open flags %r" % v))
    # verify_same_mnt(parent_mnt_id, &parent, trailing)? dominates the sink
    guards = []
    for g in b.calls("procfs::verify_same_mnt"):
        a1 = T.origins_of_arg(g, 1)
        a2 = T.origins_of_arg(g, 2)
        a0 = T.origins_of_arg(g, 0)
        ok1 = bool(a1) and all(o.kind == "call" and o.term is popen for o in a1)
        ok2 = origin_keys(a2) == origin_keys(nme) and bool(a2)
        ok0 = bool(a0) and all(o.kind == "call" and o.term.callee == "utils::fd::fetch_mnt_id" for o in a0)
        if ok0:
            fm = a0[0].term
            f0 = T.origins_of_arg(fm, 0)
            ok0 = all(o.kind == "call" and o.term is popen for o in f0) and [o.const_bytes() for o in T.origins_of_arg(fm, 1)] == [""]
        if ok1 and ok2 and ok0:
            r = result_edges(b, g)
            if r:
                guards.append((g, r))
    if not guards:
        out.append(violated("C06.R3", "open_follow:link-mount-check", s.where(),
                            "no verify_same_mnt(fetch_mnt_id(parent), parent, name) on the magic-link before it is followed"))
    else:
        cut = [e.key() for (_g, r) in guards for e in r["all_ok"]]
        if s.bb in cfg.reachable(cfg.entry, cut_edges=cut):
            out.append(violated("C06.R3", "open_follow:link-mount-check", s.where(), "the following open is reachable without a successful mount-id check of the link"))
        else:
            out.append(holds("C06.R3", "open_follow:link-mount-check", s.where(), "verify_same_mnt(parent_mnt_id, parent, name)? dominates the following open"))
    return out


def r4_fail_closed(ctx):
    F = ctx.facts
    T = ctx.tracer
    out = []
    # verify_same_mnt
    b = F.body("procfs::verify_same_mnt")
    cfg = cfg_of(b)
    okb = [blk.idx for blk in b.blocks if not blk.cleanup for s in blk.stmts
           if s.kind == "assign" and s.lhs.local == 0 and s.rv["k"] == "agg" and s.rv.get("variant") == "Ok"]
    tests = []
    for t in b.calls("std::cmp::PartialEq::ne", "std::cmp::PartialEq::eq"):
        tys = t.argtys
        a0, a1 = T.origins_of_arg(t, 0), T.origins_of_arg(t, 1)
        be = bool_edges(b, t)
        if be is None:
            continue
        differ, same = (be["true"], be["false"]) if t.callee.endswith("::ne") else (be["false"], be["true"])
        tests.append((t, a0, a1, differ, same, tys))
    good = False
    for (t, a0, a1, differ, same, tys) in tests:
        both = a0 + a1
        haspar = any(o.kind == "param" and o.detail == 1 and not o.fpath for o in both)
        hasfetch = any(o.kind == "call" and o.term.callee == "utils::fd::fetch_mnt_id" and o.fpath == ("0",) for o in both)
        whole = all("std::option::Option<u64>" in ty for ty in tys)
        if not (haspar and hasfetch):
            continue
        r1 = cfg.reachable(cfg.entry, cut_edges=[e.key() for e in same])
        r2 = cfg.edge_targets_reachable(differ)
        errs = {o.const_int(True) for c in b.calls("std::io::Error::from_raw_os_error") if c.bb in r2 for o in T.origins_of_arg(c, 0)}
        if not whole:
            out.append(violated("C06.R4", "verify_same_mnt:compare", t.where(), "mount ids are not compared as whole Option<u64> values (unknown vs known must be a mismatch)"))
        elif any(o in r1 for o in okb) or any(o in r2 for o in okb):
            out.append(violated("C06.R4", "verify_same_mnt:compare", t.where(), "Ok(()) reachable without the mount ids being equal"))
        elif errs != {EXDEV}:
            out.append(violated("C06.R4", "verify_same_mnt:compare", t.where(), "mismatch errno is %s, expected EXDEV" % sorted(errs)))
        else:
            out.append(holds("C06.R4", "verify_same_mnt:compare", t.where(), "Option<u64> != Option<u64> -> EXDEV; equality required for Ok"))
        good = True
    if not good:
        out.append(violated("C06.R4", "verify_same_mnt:compare", b.where(), "comparison of the expected mount id with fetch_mnt_id(dirfd, path) not found"))
    # fetch_mnt_id arguments are the function's own (dirfd, path)
    for t in b.calls("utils::fd::fetch_mnt_id"):
        ok = all(o.kind == "param" and o.detail == 2 for o in T.origins_of_arg(t, 0)) and all(o.kind == "param" and o.detail == 3 for o in T.origins_of_arg(t, 1))
        (out.append(holds("C06.R4", "verify_same_mnt:fetch-args", t.where(), "mount id of (dirfd, path) as given")) if ok else
         out.append(violated("C06.R4", "verify_same_mnt:fetch-args", t.where(), "fetch_mnt_id is not applied to the function's own (dirfd, path)")))
    # verify_is_procfs: f_type != PROC_SUPER_MAGIC -> EXDEV
    pb = F.body("procfs::verify_is_procfs")
    pcfg = cfg_of(pb)
    okb = [blk.idx for blk in pb.blocks if not blk.cleanup for s in blk.stmts
           if s.kind == "assign" and s.lhs.local == 0 and s.rv["k"] == "agg" and s.rv.get("variant") == "Ok"]
    found = False
    for blk in pb.blocks:
        if blk.cleanup:
            continue
        for i, s in enumerate(blk.stmts):
            if s.kind == "assign" and s.rv["k"] == "bin" and s.rv["op"] in ("Ne", "Eq"):
                ops = s.rv_operands()
                cs = [o.int_value(True) for o in ops if o.is_const]
                if 0x9fa0 not in cs:
                    continue
                from ..cut import stmt_bool_edges
                be = stmt_bool_edges(pb, blk.idx, i)
                if be is None:
                    continue
                differ, same = (be["true"], be["false"]) if s.rv["op"] == "Ne" else (be["false"], be["true"])
                other = [o for o in ops if not o.is_const]
                src = T.origins_of_operand(pb, blk.idx, i, other[0]) if other else []
                okt = bool(src) and all(o.kind == "call" and o.term.callee == "syscalls::fstatfs" and o.fpath[-1:] == ("f_type",) for o in src)
                r1 = pcfg.reachable(pcfg.entry, cut_edges=[e.key() for e in same])
                r2 = pcfg.edge_targets_reachable(differ)
                errs = {o.const_int(True) for c in pb.calls("std::io::Error::from_raw_os_error") if c.bb in r2 for o in T.origins_of_arg(c, 0)}
                found = True
                if okt and not any(o in r1 for o in okb) and not any(o in r2 for o in okb) and errs == {EXDEV}:
                    out.append(holds("C06.R4", "verify_is_procfs:magic", "%s:%d" % (pb.file, s.line), "fstatfs(fd).f_type != PROC_SUPER_MAGIC -> EXDEV"))
                else:
                    out.append(violated("C06.R4", "verify_is_procfs:magic", "%s:%d" % (pb.file, s.line), "fstype check does not fail closed (f_type source ok=%s, errno %s)" % (okt, sorted(errs))))
    if not found:
        out.append(violated("C06.R4", "verify_is_procfs:magic", pb.where(), "comparison with PROC_SUPER_MAGIC (0x9fa0) not found"))
    for t in pb.calls("syscalls::fstatfs"):
        ok = all(o.kind == "param" and o.detail == 1 for o in T.origins_of_arg(t, 0))
        (out.append(holds("C06.R4", "verify_is_procfs:fd", t.where(), "fstatfs of the given fd")) if ok else
         out.append(violated("C06.R4", "verify_is_procfs:fd", t.where(), "fstatfs is not applied to the function's own fd")))
    return out


def r5_constructors(ctx):
    F = ctx.facts
    T = ctx.tracer
    out = []
    b = F.body(PH + "::try_from_fd")
    cfg = cfg_of(b)
    lits = [(blk.idx, s, i) for blk in b.blocks if not blk.cleanup for i, s in enumerate(blk.stmts)
            if s.kind == "assign" and s.rv["k"] == "agg" and s.rv.get("adt") == "procfs::ProcfsHandle"]
    # struct literal only in try_from_fd
    others = []
    for fb in F.fn_bodies():
        if fb is b:
            continue
        for blk in fb.blocks:
            for s in blk.stmts:
                if s.kind == "assign" and s.rv["k"] == "agg" and s.rv.get("adt") == "procfs::ProcfsHandle":
                    others.append(fn_key(fb))
    if others:
        out.append(violated("C06.R5", "ProcfsHandle:literal-sites", "", "ProcfsHandle constructed outside try_from_fd: %s" % others))
    else:
        out.append(holds("C06.R5", "ProcfsHandle:literal-sites", b.where(), "ProcfsHandle { .. } is built only in try_from_fd"))
    if len(lits) != 1:
        out.append(violated("C06.R5", "try_from_fd:literal", b.where(), "expected one struct literal, found %d" % len(lits)))
        return out
    lb, ls, li = lits[0]
    # dominated by verify_is_procfs(inner)? and by ino == PROC_ROOT_INO
    cuts = []
    vi = [t for t in b.calls("procfs::verify_is_procfs")]
    okv = False
    for t in vi:
        r = result_edges(b, t)
        if r and lb not in cfg.reachable(cfg.entry, cut_edges=[e.key() for e in r["all_ok"]]):
            okv = True
    (out.append(holds("C06.R5", "try_from_fd:fstype", b.where(), "verify_is_procfs? dominates the handle construction")) if okv else
     out.append(violated("C06.R5", "try_from_fd:fstype", b.where(), "a handle can be constructed without the procfs fstype check")))
    # inode test
    from ..cut import stmt_bool_edges
    oki = False
    for blk in b.blocks:
        if blk.cleanup:
            continue
        for i, s in enumerate(blk.stmts):
            if s.kind == "assign" and s.rv["k"] == "bin" and s.rv["op"] in ("Ne", "Eq"):
                ops = s.rv_operands()
                consts = [o for o in ops if o.is_const]
                if not consts or consts[0].int_value() != 1:
                    continue
                other = [o for o in ops if not o.is_const]
                src = T.origins_of_operand(b, blk.idx, i, other[0]) if other else []
                if not any(o.kind == "call" and o.term.callee.endswith("MetadataExt::ino") for o in src):
                    continue
                be = stmt_bool_edges(b, blk.idx, i)
                if be is None:
                    continue
                same = be["false"] if s.rv["op"] == "Ne" else be["true"]
                if lb not in cfg.reachable(cfg.entry, cut_edges=[e.key() for e in same]):
                    oki = True
    (out.append(holds("C06.R5", "try_from_fd:root-inode", b.where(), "ino == PROC_ROOT_INO (1) required for construction")) if oki else
     out.append(violated("C06.R5", "try_from_fd:root-inode", b.where(), "handle construction not dominated by the PROC_ROOT_INO test")))
    # mnt_id field from fetch_mnt_id(inner, "")
    names = ls.rv.get("fields", [])
    ops = ls.rv_operands()
    fld = dict(zip(names, ops))
    mo = T.origins_of_operand(b, lb, li, fld["mnt_id"]) if "mnt_id" in fld else []
    okm = bool(mo) and all(o.kind == "call" and o.term.callee == "utils::fd::fetch_mnt_id" for o in mo)
    (out.append(holds("C06.R5", "try_from_fd:mnt_id", b.where(), "mnt_id = fetch_mnt_id(inner, \"\")")) if okm else
     out.append(violated("C06.R5", "try_from_fd:mnt_id", b.where(), "mnt_id field has another origin: %r" % mo)))
    # all constructors go through try_from_fd
    for fn in ("new_fsopen", "new_open_tree", "new_unsafe_open"):
        fb = F.body(PH + "::" + fn)
        uses_tf = False
        for blk in fb.blocks:
            ops2 = []
            for s in blk.stmts:
                ops2.extend(s.rv_operands())
            if blk.term.kind == "call":
                ops2.extend(blk.term.args)
                if blk.term.callee == PH + "::try_from_fd":
                    uses_tf = True
            for o in ops2:
                if o.is_const and o.fn() == PH + "::try_from_fd":
                    uses_tf = True
        (out.append(holds("C06.R5", "%s:via-try_from_fd" % fn, fb.where(), "result goes through try_from_fd")) if uses_tf else
         out.append(violated("C06.R5", "%s:via-try_from_fd" % fn, fb.where(), "constructor does not pass its descriptor through try_from_fd")))
    return out


def r6_constructor_order(ctx):
    F = ctx.facts
    T = ctx.tracer
    ipa, pp = shared(ctx)
    out = []
    want = {
        # which masking options the fsopen instance gets is C08.R5's business; here only the order of preference
        # (private instance, then a clone of /proc, then the host's /proc) and the recursion flag of the clone matter
        PH + "::new": [("new_fsopen", ""), ("new_open_tree", "AT_RECURSIVE"), ("new_unsafe_open", "")],
        PH + "::new_unmasked": [("new_fsopen", ""), ("new_open_tree", "non-recursive"), ("new_unsafe_open", "")],
    }
    for fn, seq in want.items():
        b = F.body(fn)
        got = []
        # first: direct call in the body ; then or_else closures in order
        firsts = [t for t in b.calls(re.compile(r"^procfs::ProcfsHandle::new_"))]
        # constructors called in the body itself run in control-flow order (explicit `if let Ok(..) = A {return} ; B` form)
        cfg_b = cfg_of(b)
        firsts.sort(key=lambda t: sum(1 for u in firsts if u is not t and t.target is not None and u.bb in cfg_b.reachable(t.target)), reverse=True)
        chain = []
        for t in firsts:
            chain.append((t, b))
        # or_else calls in block order
        ors = sorted(b.calls("std::result::Result::<T, E>::or_else"), key=lambda t: t.bb)
        # order them by data dependence: the one whose arg0 is the direct call comes first
        ordered = []
        cur_src = firsts[0] if firsts else None
        remaining = list(ors)
        while remaining and cur_src is not None:
            nxt = None
            for o in remaining:
                if any(x.kind == "call" and x.term is cur_src for x in _shallow(ctx, o)):
                    nxt = o
            if nxt is None:
                break
            ordered.append(nxt)
            remaining.remove(nxt)
            cur_src = nxt
        for o in ordered:
            for a in T.origins_of_arg(o, 1):
                if a.kind == "agg" and a.detail and a.detail.startswith("closure "):
                    cb = F.body(a.detail[len("closure "):])
                    for t in cb.calls(re.compile(r"^procfs::ProcfsHandle::new_")):
                        chain.append((t, cb))
        desc = []
        for (t, body) in chain:
            nm = t.callee.split("::")[-1]
            extra = ""
            if nm == "new_fsopen":
                vals = {o.const_int() for o in T.origins_of_arg(t, 0) if o.kind == "const"}
                others = [o for o in T.origins_of_arg(t, 0) if o.kind != "const"]
                extra = ""
            elif nm == "new_open_tree":
                bits = ipa.bits_of(body.path)
                v = bits.arg_value(t, 0) if bits else None
                if v is not None and v.has(AT_RECURSIVE):
                    extra = "AT_RECURSIVE"
                elif v is not None and v.lacks(AT_RECURSIVE):
                    # which other bits the caller spells (OPEN_TREE_CLONE is R8's business) does not matter here
                    extra = "non-recursive"
                else:
                    # the flags come through a helper shared by both constructors (one body, two callers): which value
                    # belongs to which caller is not decided here, so neither expectation is contradicted
                    extra = "*"
            desc.append((nm, extra))
        if len(desc) == len(seq) and all(d[0] == w[0] and (d[1] == w[1] or d[1] == "*") for d, w in zip(desc, seq)):
            out.append(holds("C06.R6", "%s:order" % fn, b.where(), "fsopen -> open_tree -> plain open (%s)" % desc))
        else:
            out.append(violated("C06.R6", "%s:order" % fn, b.where(), "constructor preference order is %s, expected %s" % (desc, seq)))
    return out


def _shallow(ctx, term):
    """Origins of arg0 without expanding or_else combinators (one hop)."""
    from ..dataflow import Tracer
    key = "shallow_tracer"
    if key not in ctx.cache:
        class _T(Tracer):
            pass
        ctx.cache[key] = None
    # plain lookup: which call defines the local passed as arg0
    body = term.body
    a0 = term.args[0]
    if a0.place is None:
        return []
    from ..dataflow import defuse, Origin
    du = defuse(body)
    res = []
    for site in du.defs_at(a0.place.local, term.bb, len(body.blocks[term.bb].stmts)):
        if site[0] == "c":
            res.append(Origin("call", body, term=body.blocks[site[1]].term))
    return res


def r7_base_through_resolver(ctx):
    """The base directory (self / thread-self / .) is itself looked up by the restricted procfs resolver
    (RESOLVE_NO_XDEV|BENEATH or the per-step emulation), and lookups start from it."""
    F = ctx.facts
    T = ctx.tracer
    out = []
    ob = F.body(PH + "::open_base")
    ro = [o for o in T.return_origins(ob, OKP)]
    ok = bool(ro) and all(o.kind == "call" and o.term.callee in LOOKUP for o in ro)
    (out.append(holds("C06.R7", "open_base:via-resolver", ob.where(), "base directory comes from ProcfsResolver::resolve on the handle's own root")) if ok else
     out.append(violated("C06.R7", "open_base:via-resolver", ob.where(), "the procfs base directory is not looked up through the restricted resolver: %r" % ro)))
    for t in ob.calls(*LOOKUP):
        r0 = T.origins_of_arg(t, 1)
        okr = bool(r0) and all(o.kind == "param" and o.detail == 1 and o.fpath[-1:] == ("inner",) for o in r0)
        (out.append(holds("C06.R7", "open_base:from-own-root", t.where(), "lookup starts at the handle's own procfs root fd")) if okr else
         out.append(violated("C06.R7", "open_base:from-own-root", t.where(), "base lookup does not start from the handle's root fd: %r" % r0)))
    # the thread-self candidate is probed inside the handle's own procfs, never through the host's /proc:
    # into_path(None) (which consults /proc of the mount namespace) is for diagnostics only
    from ..variants import Variants
    V = Variants(F)
    for b in F.fn_bodies():
        for t in b.calls("procfs::ProcfsBase::into_path"):
            toks = V.of_operand(b, t.bb, len(b.blocks[t.bb].stmts), t.args[1])
            fk = fn_key(b)
            key = "%s:into_path-root" % fk
            if toks == {("variant", "Some", 1)}:
                out.append(holds("C06.R7", key, t.where(), "base candidates are probed relative to a procfs root fd"))
            elif fk == "<Fd as utils::fd::FdExt>::as_unsafe_path_unchecked":
                out.append(holds("C06.R7", key, t.where(), "host /proc consulted for diagnostics only (FrozenFd)"))
            else:
                out.append(violated("C06.R7", key, t.where(),
                                    "the procfs base path is chosen by probing the host's /proc (into_path without the handle's root: %s): an over-mounted /proc decides which directory of the private procfs is used" % sorted(toks)))
    n = 0
    for b in F.fn_bodies():
        if b.file != "src/procfs.rs" or b is ob:
            continue
        for t in b.calls(*LOOKUP):
            n += 1
            r0 = T.origins_of_arg(t, 1)
            okb = bool(r0) and all(o.kind == "call" and o.term.callee == PH + "::open_base" for o in r0)
            key = "%s:lookup-root" % fn_key(b)
            (out.append(holds("C06.R7", key, t.where(), "sub-path lookup starts at the verified base directory")) if okb else
             out.append(violated("C06.R7", key, t.where(), "sub-path lookup does not start at open_base()'s verified directory: %r" % r0)))
    return out


STATX_MNT_ID = 0x1000
STATX_MNT_ID_UNIQUE = 0x4000
STATX_BASIC = 0x7ff
OPEN_TREE_CLONE = 1


def r8_mount_identity_available(ctx):
    """Every comparison of R1-R4 is vacuous when the mount id is 'unknown' on both sides (None == None), and a private
    handle is private only if the kernel was asked for a detached clone.  (a) fetch_mnt_id answers Some(id) whenever
    the kernel filled the field in -- with the classic STATX_MNT_ID bit alone (Linux 5.8-6.7) as well as with
    STATX_MNT_ID_UNIQUE -- and None when it reported neither (the field is then zero for every file).
    (b) every open_tree() carries OPEN_TREE_CLONE on all call paths: without it the result is a plain O_PATH
    descriptor of the host's /proc, over-mounts included."""
    F = ctx.facts
    T = ctx.tracer
    ipa, pp = shared(ctx)
    out = []
    b = F.body("utils::fd::fetch_mnt_id")
    cfg = cfg_of(b)
    bits = ipa.bits_of(b.path)
    some_b, none_b = set(), set()
    for blk in b.blocks:
        if blk.cleanup:
            continue
        for st in blk.stmts:
            if st.kind == "assign" and st.rv["k"] == "agg" and st.rv.get("adt") == "std::option::Option":
                (some_b if st.rv.get("variant") == "Some" else none_b).add(blk.idx)
    from ..cut import stmt_bool_edges
    # the test on the returned mask, in any of its spellings -> (where, description, predicate on the mask, the bool's
    # consumer: ("edges", {true, false}) or ("then", call))
    tests = []

    def full_const(v):
        return v is not None and len(v.alts) == 1 and (v.alts[0].s | v.alts[0].c) & 0xffff == 0xffff

    for t in b.calls():
        m = (t.callee or "").rsplit("::", 1)[-1]
        if m not in ("intersects", "contains") or "StatxFlags" not in " ".join(t.argtys):
            continue
        k = bits.arg_value(t, 1) if bits else None
        if not full_const(k):
            tests.append((t.where(), m, None, None))
            continue
        K = k.alts[0].s & 0xffffffff
        pred = (lambda g, K=K: (g & K) != 0) if m == "intersects" else (lambda g, K=K: (g & K) == K)
        cons = None
        for c in b.calls():
            if (c.callee or "").rsplit("::", 1)[-1] in ("then_some", "then") and c.argtys and "bool" in c.argtys[0]:
                o = T.origins_of_arg(c, 0)
                if o and all(x.kind == "call" and x.term is t for x in o):
                    cons = ("then", c)
        if cons is None:
            be = bool_edges(b, t)
            cons = ("edges", be) if be else None
        tests.append((t.where(), "%s(%#x)" % (m, K), pred, cons))
    # `mask.bits() & K != 0` and friends
    for blk in b.blocks:
        if blk.cleanup:
            continue
        for idx, st in enumerate(blk.stmts):
            if st.kind != "assign" or st.rv["k"] != "bin" or st.rv["op"] not in ("Ne", "Eq"):
                continue
            ops = st.rv_operands()
            cv = [o for o in ops if o.is_const]
            other = [o for o in ops if not o.is_const]
            if len(cv) != 1 or len(other) != 1 or cv[0].int_value() is None:
                continue
            andk = None
            for o in T.origins_of_operand(b, blk.idx, idx, other[0]):
                if o.kind == "expr" and (o.detail or "").startswith("bin:BitAnd") and o.stmt is not None:
                    pos = [(bl.idx, i2) for bl in b.blocks for i2, s2 in enumerate(bl.stmts) if s2 is o.stmt]
                    stt = bits.at_stmt(*pos[0]) if pos and bits else None
                    if stt is None:
                        continue
                    for x in o.stmt.rv_operands():
                        v = bits.val_op(stt, x)
                        if full_const(v) and (v.alts[0].s & (STATX_MNT_ID | STATX_MNT_ID_UNIQUE)):
                            andk = v.alts[0].s & 0xffffffff
            if andk is None:
                continue
            C = cv[0].int_value()
            pred = (lambda g, K=andk, C=C: (g & K) != C) if st.rv["op"] == "Ne" else (lambda g, K=andk, C=C: (g & K) == C)
            be = stmt_bool_edges(b, blk.idx, idx)
            tests.append(("%s:%s" % (b.file, st.line), "mask & %#x %s %#x" % (andk, "!=" if st.rv["op"] == "Ne" else "==", C), pred, ("edges", be) if be else None))
    key = "fetch_mnt_id:mask-test"
    GENS = (("STATX_MNT_ID only (Linux 5.8-6.7)", STATX_BASIC | STATX_MNT_ID, True),
            ("STATX_MNT_ID_UNIQUE only (Linux 6.8+)", STATX_BASIC | STATX_MNT_ID_UNIQUE, True),
            ("both bits", STATX_BASIC | STATX_MNT_ID | STATX_MNT_ID_UNIQUE, True),
            ("neither bit (pre-5.8)", STATX_BASIC, False))
    if len(tests) != 1 or tests[0][2] is None or tests[0][3] is None:
        out.append(unproven("C06.R8", key, b.where(), "cannot evaluate how fetch_mnt_id decides whether the kernel reported a mount id (%d mask tests: %s)" % (len(tests), [x[1] for x in tests])))
    else:
        where, desc, pred, cons = tests[0]
        bad = []
        if cons[0] == "then":
            ro = [x for x in T.return_origins(b, OKP) if not (x.kind == "call" and x.term.callee == "std::ops::FromResidual::from_residual")]
            if not any(x.kind == "call" and x.term is cons[1] for x in ro):
                bad.append("the Option built from the test is not what fetch_mnt_id returns")
        elif not some_b or not none_b:
            bad.append("no Some/None construction behind the test")
        for name, g, want_some in GENS:
            truth = pred(g)
            if cons[0] == "then":
                got_some, got_none = truth, not truth
            else:
                reach = cfg.edge_targets_reachable(cons[1]["true"] if truth else cons[1]["false"])
                got_some, got_none = bool(reach & some_b), bool(reach & none_b)
            if want_some and (not got_some or got_none):
                bad.append("kernel reports %s -> mount id treated as unknown" % name)
            if not want_some and got_some:
                bad.append("kernel reports %s -> a zero field is taken for a mount id" % name)
        if bad:
            out.append(violated("C06.R8", key, where, "%s on the returned statx mask: %s; with the id unknown on both sides every mount comparison passes" % (desc, "; ".join(bad))))
        else:
            out.append(holds("C06.R8", key, where, "%s: Some(id) for MNT_ID, MNT_ID_UNIQUE or both, None for neither" % desc))
    items = []
    for fb in F.fn_bodies():
        if fb.file == "src/syscalls.rs":
            continue
        for t in fb.calls("syscalls::open_tree"):
            items.append((fn_key(fb), "open_tree", t))
    from .c05 import ordinal_keys
    for k2, t in ordinal_keys(items):
        bb = ipa.bits_of(t.body.path)
        v = bb.arg_value(t, 2) if bb else None
        if v is not None and v.has(OPEN_TREE_CLONE):
            out.append(holds("C06.R8", k2 + ":clone", t.where(), "OPEN_TREE_CLONE set on every call path (must-set %#x)" % v.must_set))
        else:
            out.append(violated("C06.R8", k2 + ":clone", t.where(), "open_tree() can be reached without OPEN_TREE_CLONE (flags %r): the handle is then the host's /proc itself, not a private clone" % (v,)))
    if not items:
        out.append(violated("C06.R8", "open_tree:sites", "", "no open_tree call site found"))
    return out


def r9_constructors_always_try(ctx):
    """'privileged callers get a private instance': whether a private instance can be had is found out by trying, every
    time -- no constructor gives up before its own system call because of something remembered from an earlier call
    (a cached 'unsupported' decided while an unprivileged thread, a full fd table or a seccomp'd sibling first used
    the library would pin every later handle to the host's /proc)."""
    F = ctx.facts
    out = []
    for fn, sc in ((PH + "::new_fsopen", "syscalls::fsopen"), (PH + "::new_open_tree", "syscalls::open_tree"), (PH + "::new_unsafe_open", "syscalls::openat")):
        key = "%s:always-tries" % fn.split("::")[-1]
        if not F.has(fn):
            out.append(violated("C06.R9", key, "", "%s not found" % fn))
            continue
        b = F.body(fn)
        cfg = cfg_of(b)
        calls = list(b.calls(sc))
        if not calls:
            out.append(violated("C06.R9", key, b.where(), "%s no longer calls %s" % (fn, sc)))
            continue
        rets = set(cfg.return_blocks())
        bypass = set(cfg.reachable(cfg.entry, cut_nodes=[c.bb for c in calls])) & rets
        if bypass:
            out.append(violated("C06.R9", key, b.where(), "%s can return without attempting %s: the decision not to try does not come from this call's own attempt" % (fn.split("::")[-1], sc)))
        else:
            out.append(holds("C06.R9", key, calls[0].where(), "every path through %s attempts %s" % (fn.split("::")[-1], sc)))
    return out


RULES = [
    ("C06.R7", r7_base_through_resolver, 3, False),
    ("C06.R1", r1_open_verified, 3, False),
    ("C06.R2", r2_opath_steps, 2, False),
    ("C06.R3", r3_open_follow, 2, False),
    ("C06.R4", r4_fail_closed, 4, False),
    ("C06.R5", r5_constructors, 7, False),
    ("C06.R6", r6_constructor_order, 2, False),
    ("C06.R8", r8_mount_identity_available, 2, False),
    ("C06.R9", r9_constructors_always_try, 3, False),
]
