"""C07 — procfs lookups stay inside procfs and follow only the requested final link."""
from ..cfg import cfg_of
from ..common import *
from ..cut import bool_edges, origin_keys, result_edges
from ..engine import holds, unproven, violated
from ..facts import Operand, Place
from .c03 import excl
from .c05 import shared, _cls

EXPLANATION = ("C07: in the emulated procfs walk '..' (EXDEV) and absolute link bodies (ELOOP) are refused before any open / "
               "queue growth, NO_SYMLINKS and the link budget precede the readlink; ProcfsHandle::open forces O_NOFOLLOW; "
               "open_follow follows exactly the split-off last component; at every open sink reachable with caller-supplied "
               "flags the flag value provably lacks O_CREAT, O_EXCL and O_TMPFILE.")
ASSUMPTIONS = ["equality of outcomes between the kernel and the emulated procfs resolver is not decided"]

OPR = "resolvers::procfs::opath_resolve"
PH = "procfs::ProcfsHandle"
CREATION = (("O_CREAT", O_CREAT), ("O_EXCL", O_EXCL), ("O_TMPFILE", O_TMPFILE))


def walk_rules(ctx, fn, rid, want_dotdot_errno=None):
    """Shared shape of a symlink-following component walk (used by C07 for the procfs walk)."""
    F = ctx.facts
    T = ctx.tracer
    out = []
    b = F.body(fn)
    cfg = cfg_of(b)
    short = fn.split("::")[-1]
    pre = list(b.calls("utils::path::RawComponents::<'_>::prepend"))
    rl = list(b.calls("syscalls::readlinkat"))
    if not pre or not rl:
        return [violated(rid, "%s:walk-shape" % short, b.where(), "walk has no readlinkat/prepend (anchor drift)")]
    for n, p in enumerate(pre):
        # absolute-link refusal: prepend unreachable unless is_absolute(link_target) was false
        lt = T.origins_of_arg(p, 0)   # RawComponents of the link target
        tests = []
        for t in b.calls("std::path::Path::is_absolute"):
            o = T.origins_of_arg(t, 0)
            if any(x.kind == "call" and x.term in rl for x in o):
                be = bool_edges(b, t)
                if be:
                    tests.append((t, be))
        if want_dotdot_errno is not None:
            key = "%s:absolute-link-refusal:%d" % (short, n)
            cut = [e.key() for (_t, be) in tests for e in be["false"]]
            if not tests:
                out.append(violated(rid, key, p.where(), "link bodies are spliced into the walk without an absolute-target test"))
            elif p.bb in cfg.reachable(cfg.entry, cut_edges=cut):
                out.append(violated(rid, key, p.where(), "an absolute link target can be spliced into the procfs walk"))
            else:
                # errno on the true edge
                reach = cfg.edge_targets_reachable([e for (_t, be) in tests for e in be["true"]])
                errs = {o.const_int(True) for c in b.calls("std::io::Error::from_raw_os_error") if c.bb in reach for o in T.origins_of_arg(c, 0)}
                if ELOOP in errs and not any(x.bb in reach for x in pre):
                    out.append(holds(rid, key, p.where(), "absolute link target -> ELOOP before the queue grows"))
                else:
                    out.append(violated(rid, key, p.where(), "absolute link refusal does not end in ELOOP (errnos %s)" % sorted(errs)))
    for n, r in enumerate(rl):
        key = "%s:no-symlinks:%d" % (short, n)
        tests = []
        for t in b.calls():
            if t.callee and t.callee.endswith("ResolverFlags>::contains"):
                v = [o.const_int() for o in T.origins_of_arg(t, 1)]
                if v == [RESOLVE_NO_SYMLINKS]:
                    po = T.origins_of_arg(t, 0)
                    be = bool_edges(b, t)
                    if be and any(o.kind == "param" for o in po):
                        tests.append(be)
        cut = [e.key() for be in tests for e in be["false"]]
        if not tests:
            out.append(violated(rid, key, r.where(), "symlinks are followed without consulting ResolverFlags::NO_SYMLINKS"))
        elif r.bb in cfg.reachable(cfg.entry, cut_edges=cut):
            out.append(violated(rid, key, r.where(), "a link body can be read although NO_SYMLINKS was requested"))
        else:
            out.append(holds(rid, key, r.where(), "NO_SYMLINKS test dominates the readlink"))
    return out


def r1_walk(ctx):
    F = ctx.facts
    T = ctx.tracer
    X = excl(ctx)
    out = []
    b = F.body(OPR)
    cfg = cfg_of(b)
    for n, t in enumerate(b.calls("syscalls::openat")):
        ex, proofs = X.excluded_for_arg(t, 1)
        key = "opath_resolve:dotdot-refusal:%d" % n
        if ".." in ex:
            out.append(holds("C07.R1", key, t.where(), "'..' cannot reach the open: %s" % proofs.get("..")))
        else:
            out.append(violated("C07.R1", key, t.where(), "a '..' component can be opened by the restricted procfs walk"))
    # errno of the refusal
    from ..cut import const_eq_tests
    tests = const_eq_tests(b, T, "..")
    errs = set()
    for t in tests:
        reach = cfg.edge_targets_reachable(t["true"])
        opens = [c for c in b.calls("syscalls::openat") if c.bb in reach]
        for c in b.calls("std::io::Error::from_raw_os_error"):
            if c.bb in reach:
                for o in T.origins_of_arg(c, 0):
                    errs.add(o.const_int(True))
    if tests and EXDEV in errs:
        out.append(holds("C07.R1", "opath_resolve:dotdot-errno", b.where(), "'..' -> EXDEV"))
    else:
        out.append(violated("C07.R1", "opath_resolve:dotdot-errno", b.where(), "'..' refusal errno set is %s, expected EXDEV" % sorted(errs)))
    out.extend(walk_rules(ctx, OPR, "C07.R1", want_dotdot_errno=EXDEV))
    return out


def r2_forced_nofollow(ctx):
    F = ctx.facts
    T = ctx.tracer
    ipa, pp = shared(ctx)
    out = []
    n = 0
    for b in F.fn_bodies():
        if b.file != "src/procfs.rs":
            continue
        bits = ipa.bits_of(b.path)
        for t in b.calls("resolvers::procfs::ProcfsResolver::resolve"):
            v = bits.arg_value(t, 3) if bits else None
            key = "%s:lookup-flags" % fn_key(b)
            if v is None:
                continue
            n += 1
            if fn_key(b) == PH + "::open_base":
                # the base (self / thread-self) is a procfs symlink that has to be followed; constant flags
                ok = v.all(lambda a: (a.s | a.c) == (1 << 64) - 1 and a.s == (O_PATH | O_DIRECTORY))
                (out.append(holds("C07.R2", key, t.where(), "base directory lookup uses the constant O_PATH|O_DIRECTORY")) if ok else
                 out.append(violated("C07.R2", key, t.where(), "base lookup flags are not the constant O_PATH|O_DIRECTORY: %r" % v)))
                continue
            if v.has(O_NOFOLLOW):
                out.append(holds("C07.R2", key, t.where(), "O_NOFOLLOW forced on every flow into the lookup"))
            else:
                out.append(violated("C07.R2", key, t.where(), "a procfs lookup can follow a trailing symlink (flags %r)" % v))
    if n < 2:
        out.append(violated("C07.R2", "procfs.rs:lookups", "", "expected at least two resolver lookups in procfs.rs"))
    # ProcfsHandle::open itself forces the flag before anything else uses the flags
    ob = F.body(PH + "::open")
    obits = ipa.bits_of(ob.path)
    for t in ob.calls():
        if t.callee and t.callee.startswith(PH + "::") and len(t.args) >= 4 and "OpenFlags" in (t.argtys[3] if len(t.argtys) > 3 else ""):
            v = obits.arg_value(t, 3)
            if v is not None and v.has(O_NOFOLLOW):
                out.append(holds("C07.R2", "ProcfsHandle::open:forces-nofollow", t.where(), "open() passes O_NOFOLLOW-forced flags on"))
            else:
                out.append(violated("C07.R2", "ProcfsHandle::open:forces-nofollow", t.where(), "open() passes flags without O_NOFOLLOW: %r" % v))
    rb = F.body(PH + "::readlink")
    rbits = ipa.bits_of(rb.path)
    for t in rb.calls(PH + "::open"):
        v = rbits.arg_value(t, 3)
        if v is not None and v.has(O_PATH):
            out.append(holds("C07.R2", "ProcfsHandle::readlink:O_PATH", t.where(), "readlink opens the link O_PATH (never followed)"))
        else:
            out.append(violated("C07.R2", "ProcfsHandle::readlink:O_PATH", t.where(), "readlink does not open O_PATH: %r" % v))
    # the emulated final open keeps O_NOFOLLOW
    ob = F.body(OPR)
    obits = ipa.bits_of(ob.path)
    out.extend(final_link_not_followed_under_nofollow(ctx))
    return out


def final_link_not_followed_under_nofollow(ctx, rid="C07.R2"):
    """Emulated procfs walk specialised on `oflags ⊇ O_NOFOLLOW` (what ProcfsHandle::open always passes): once the
    component queue is empty, no path decided by the flag tests leads to reading the link body -- the final component
    is returned (or refused) as it is, never followed. Decided by the BITS facts about the oflags parameter
    (contains / intersection-compare tests), the variant-pruned CFG, and a reachability cut at the loop header."""
    from ..bits import Bits, Val, BV, M64
    F = ctx.facts
    b = F.body(OPR)
    cfg = cfg_of(b)
    key = "opath_resolve:final-link-not-followed-under-nofollow"
    rl = list(b.calls("syscalls::readlinkat"))
    gates = []
    for t in b.calls():
        c = t.callee or ""
        if c.startswith("std::collections::VecDeque") and c.endswith("::is_empty"):
            be = bool_edges(b, t)
            if be:
                gates.append((t, be))
    pidx = [i + 1 for i, ty in enumerate(b.param_tys) if ty.endswith("OpenFlags")] if hasattr(b, "param_tys") else []
    if not pidx:
        pidx = [l for l in range(1, b.argc + 1) if (b.local_tys[l] or "").endswith("OpenFlags")]
    if not rl or not gates or len(pidx) != 1:
        return [violated(rid, key, b.where(), "walk has no readlinkat / queue-emptiness test / single OpenFlags parameter (anchor drift)")]
    p = pidx[0]
    bits = Bits(b, entry={(p, ()): Val([BV(O_NOFOLLOW, 0, (), M64, ("param", b.path, p))])})
    feas = bits.feasible_edges()
    dead = [e.key() for bb in cfg.succ for e in cfg.succ[bb] if e.key() not in feas]
    hdrs = list(cfg.natural_loops())
    start = [e for (_t, be) in gates for e in be["true"] if e.key() in feas]
    # precise_reach: only paths consistent with the enum variants built on them (Ok(Some(fd)) is not matched by a None arm)
    reach = cfg.precise_reach(start, cut_nodes=hdrs, cut_edges=dead)
    bad = [r for r in rl if r.bb in reach]
    if bad:
        return [violated(rid, key, bad[0].where(), "with O_NOFOLLOW in the open flags the emulated procfs walk can still read and follow the body of the final component (a trailing symlink is followed although the caller forbade it)")]
    return [holds(rid, key, gates[0][0].where(), "oflags ⊇ O_NOFOLLOW: after the last component no feasible path reaches readlinkat (%d edges decided by flag facts)" % len(dead))]


def creation_flag_sinks(ctx):
    """(key, term, value) for every open sink that can receive caller-supplied flags through the procfs / reopen entry points."""
    F = ctx.facts
    ipa, pp = shared(ctx)
    res = []
    for (fn, callee, argi, fields) in (
            (OPR, "syscalls::openat", 2, ()),
            ("resolvers::procfs::openat2_resolve", "syscalls::openat2", 2, ("flags",)),
            (PH + "::open_follow", "syscalls::openat_follow", 2, ())):
        b = F.body(fn)
        bits = ipa.bits_of(b.path)
        for n, t in enumerate(b.calls(callee)):
            v = bits.arg_value(t, argi, fields) if bits else None
            res.append(("%s:%s:%d" % (fn_key(b), callee.split("::")[1], n), t, v))
    return res


def r3_creation_flags(ctx, rid="C07.R3"):
    out = []
    for key, t, v in creation_flag_sinks(ctx):
        if v is None:
            out.append(holds(rid, key, t.where(), "unreachable"))
            continue
        # sinks whose flags are fully library-chosen are not in scope
        if not any(a.src is not None for a in v.alts):
            okc = v.all(lambda a: (a.c & (O_CREAT | O_EXCL)) == (O_CREAT | O_EXCL) and a.lacks(O_TMPFILE))
            if okc:
                out.append(holds(rid, key, t.where(), "library-chosen flags without creation bits"))
                continue
        bad = []
        for a in v.alts:
            for nm, m in CREATION:
                if not a.lacks(m):
                    bad.append(nm)
        if bad:
            out.append(violated(rid, key, t.where(),
                                "caller-supplied open flags reach this open without %s having been refused" % "/".join(sorted(set(bad))),
                                {"value": repr(v)}))
        else:
            out.append(holds(rid, key, t.where(), "O_CREAT, O_EXCL, O_TMPFILE proven absent on every disjunct"))
    return out


def r4_follow_last_only(ctx):
    F = ctx.facts
    T = ctx.tracer
    ipa, pp = shared(ctx)
    out = []
    # "open_follow follows exactly the trailing link": whether it follows at all is decided by the readlink probe, whose
    # discipline (follow whenever the probe shows a link, no-follow open only for ENOENT) is C09.R5
    from .c09 import r5_probe_discipline
    for i_ in r5_probe_discipline(ctx):
        if i_.key.startswith("open_follow:"):
            i_.rule = "C07.R4"
            i_.key = "probe:" + i_.key
            out.append(i_)
    b = F.body(PH + "::open_follow")
    cfg = cfg_of(b)
    sinks = list(b.calls("syscalls::openat_follow"))
    for t in sinks:
        pc = _cls(pp.classify_path_arg(t, 1))
        if pc == {"component"}:
            out.append(holds("C07.R4", "open_follow:last-component", t.where(), "followed name is the base of path_split"))
        else:
            out.append(violated("C07.R4", "open_follow:last-component", t.where(), "followed open takes %s" % sorted(pc)))
        # parent = open(base, split dir, O_PATH|O_DIRECTORY) on the same split
        par = T.origins_of_arg(t, 0)
        okp = False
        for o in par:
            if o.kind == "call" and o.term.callee == PH + "::open":
                d = T.origins_of_arg(o.term, 2)
                if d and all(x.kind == "call" and x.term.callee == "utils::path::path_split" and x.fpath[:2] == ("0", "0") for x in d):
                    n_ = T.origins_of_arg(t, 1)
                    if n_ and all(x.kind == "call" and x.term is d[0].term for x in n_):
                        okp = True
        (out.append(holds("C07.R4", "open_follow:parent-of-same-split", t.where(), "parent and name are the two halves of one path_split")) if okp else
         out.append(violated("C07.R4", "open_follow:parent-of-same-split", t.where(), "parent directory and followed name do not come from the same split")))
    # trailing None base -> InvalidArgument ; non-link targets go through the no-follow open
    ok_none = False
    for t in b.calls("std::option::Option::<T>::ok_or_else", "std::option::Option::<T>::ok_or"):
        r = result_edges(b, t)
        if r and sinks and sinks[0].bb not in cfg.reachable(cfg.entry, cut_edges=[e.key() for e in r["all_ok"]]):
            ok_none = True
    # ... or an explicit match / if-let on the Option half of the split
    for blk in b.blocks:
        if blk.cleanup or blk.term.kind != "switch":
            continue
        for i, st in enumerate(blk.stmts):
            if st.kind == "assign" and st.rv["k"] == "discr":
                pl = Place(st.rv["p"])
                if "std::option::Option<&" not in b.local_tys[pl.local]:
                    continue
                o = T.origins(b, blk.idx, i, pl)
                if o and all(x.kind == "call" and x.term.callee == "utils::path::path_split" and tuple(x.fpath[:2]) == ("0", "1") for x in o):
                    some = [e for e in cfg.succ.get(blk.idx, []) if e.label == ("sw", 1)]
                    if some and sinks and sinks[0].bb not in cfg.reachable(cfg.entry, cut_edges=[e.key() for e in some]):
                        ok_none = True
    (out.append(holds("C07.R4", "open_follow:none-base", b.where(), "missing final component -> error before the following open")) if ok_none else
     out.append(violated("C07.R4", "open_follow:none-base", b.where(), "following open reachable without a final component")))
    # fallback for non-links uses self.open (forced O_NOFOLLOW): when the readlink probe fails, the following open
    # is reachable only if the failure says "this is a link whose body cannot be read" (ENAMETOOLONG)
    from ..cut import errno_branches, failure_edges
    fb = [t for t in b.calls(PH + "::open")]
    rl = [t for t in b.calls(PH + "::readlink")]
    okfb = False
    brs = errno_branches(b, T)
    link_eq = [e.key() for br in brs if br["errno"] == ENAMETOOLONG for e in br["eq"]]
    for r_ in rl:
        fe = failure_edges(b, T, r_)
        if not fe:
            continue
        reach = cfg.precise_reach(fe[0], cut_edges=link_eq)
        if sinks and sinks[0].bb not in reach and any(x.bb in reach for x in fb):
            okfb = True
    (out.append(holds("C07.R4", "open_follow:non-link-fallback", b.where(), "targets that are not links are opened through the no-follow ProcfsHandle::open")) if okfb else
     out.append(violated("C07.R4", "open_follow:non-link-fallback", b.where(), "non-link targets can reach the following open")))
    return out


def r5_trailing_slash(ctx):
    """The emulated procfs walk keeps empty components (opened as '.'), so 'environ/' is ENOTDIR and
    'cwd/' is refused like the kernel does -- trailing-slash fidelity of the two procfs resolvers."""
    from .c01 import r4_empty_component
    out = []
    for i in r4_empty_component(ctx):
        if i.key.startswith("opath_resolve:"):
            i.rule = "C07.R5"
            out.append(i)
    return out


def r6_kernel_errors(ctx):
    """'the outcome is the same with the kernel and the emulated procfs resolver' includes failures: where a system
    call of the emulated walk fails, the caller sees that failure (the kernel resolver would have hit the same one),
    not an errno the walk makes up for it."""
    from .c04 import error_swaps
    return error_swaps(ctx, "C07.R6", lambda b: b.file in ("src/resolvers/procfs.rs", "src/procfs.rs"))


def r7_no_normalisation(ctx):
    """'a magic-link used as a path component fails', 'trailing / decorations': the procfs entry points hand the
    caller's sub-path to the probe, the split and the resolvers byte for byte (C01.R8 restricted to the procfs files)."""
    from .c01 import no_lexical_normalisation
    return no_lexical_normalisation(ctx, "C07.R7", files=("src/procfs.rs", "src/resolvers/procfs.rs", "src/utils/path.rs"))


RULES = [
    ("C07.R5", r5_trailing_slash, 1, False),
    ("C07.R1", r1_walk, 5, False),
    ("C07.R2", r2_forced_nofollow, 3, False),
    ("C07.R3", r3_creation_flags, 4, False),
    ("C07.R4", r4_follow_last_only, 4, False),
    ("C07.R6", r6_kernel_errors, 1, False),
    ("C07.R7", r7_no_normalisation, 1, False),
]
