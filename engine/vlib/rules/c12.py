"""C12 — mkdir_all creates exactly the missing directories and converges under races."""
import re

from ..cfg import cfg_of
from ..common import *
from ..cut import bool_edges, origin_keys, result_edges
from ..dataflow import defuse
from ..engine import holds, unproven, violated
from ..facts import Operand, Place
from .c03 import excl
from .c05 import shared, _cls

EXPLANATION = ("C12: mode validation (no bits outside 0o1777) reaches the lookup and every mkdirat (flag-bit analysis with "
               "branch refinement); only EEXIST is tolerated from mkdirat; the step open is O_DIRECTORY|O_NOFOLLOW on the same "
               "(dirfd, name) as the mkdirat; '.', '..' and '' never reach the creation loop; the returned handle is the last "
               "step open; partial lookups become (handle, remaining) only for ENOENT; the emulated walk never re-creates or assigns "
               "its symlink stack (a dangling link is reported at the link, as openat2 does, so nothing is created through it).")
ASSUMPTIONS = ["whole-tree frame condition and convergence of concurrent callers are not decided (they need executions)"]

MK = "root::RootRef::<'_>::mkdir_all"
M32 = 0xffffffff


def r1_mode_validation(ctx):
    F = ctx.facts
    ipa, pp = shared(ctx)
    out = []
    b = F.body(MK)
    bits = ipa.bits_of(b.path)
    need = (~0o1777) & M32
    src = ("param", b.path, 3)
    sites = list(b.calls("syscalls::mkdirat"))
    if not sites:
        return [violated("C12.R1", "mkdir_all:mkdirat", b.where(), "mkdir_all no longer calls mkdirat")]
    for n, t in enumerate(sites):
        v = bits.arg_value(t, 2)
        key = "mkdir_all:mkdirat:%d:mode" % n
        if v is None:
            out.append(holds("C12.R1", key, t.where(), "unreachable"))
            continue
        if (v.must_clear & need) != need:
            out.append(violated("C12.R1", key, t.where(), "mkdirat mode may contain bits outside 0o1777 (validated-clear mask %#o)" % (v.must_clear & M32)))
        elif (v.keep_of(src) & 0o1777) != 0o1777:
            out.append(violated("C12.R1", key, t.where(), "mkdirat mode is not the caller's perm.mode() unchanged: %r" % v))
        else:
            out.append(holds("C12.R1", key, t.where(), "mode = perm.mode(), bits outside 0o1777 proven clear"))
    # validation precedes the lookup
    for t in b.calls("resolvers::Resolver::resolve_partial"):
        st = bits.at_call(t)
        v = st.get((3, ())) if st else None
        if v is not None and (v.must_clear & need) == need:
            out.append(holds("C12.R1", "mkdir_all:validate-before-lookup", t.where(), "mode validated before the first lookup"))
        else:
            out.append(violated("C12.R1", "mkdir_all:validate-before-lookup", t.where(), "lookup starts before the mode has been validated"))
    return out


def r2_creation_loop_inputs(ctx):
    """'.', '..' and '' are excluded for both the mkdirat and the step open."""
    F = ctx.facts
    X = excl(ctx)
    out = []
    b = F.body(MK)
    for nm in ("syscalls::mkdirat", "syscalls::openat"):
        for n, t in enumerate(b.calls(nm)):
            ex, proofs = X.excluded_for_arg(t, 1)
            key = "mkdir_all:%s:%d:names" % (nm.split("::")[1], n)
            miss = [c for c in ("..", ".", "") if c not in ex]
            if miss:
                out.append(violated("C12.R2", key, t.where(), "creation loop can be handed %s" % ", ".join(repr(m) for m in miss), proofs))
            else:
                out.append(holds("C12.R2", key, t.where(), "'.', '..', '' excluded", proofs))
    # the '..' refusal yields ENOENT
    T = ctx.tracer
    for t in b.calls("std::iter::Iterator::any"):
        be = bool_edges(b, t)
        if not be:
            continue
        cfg = cfg_of(b)
        reach = cfg.edge_targets_reachable(be["true"])
        errs = set()
        for c in b.calls("std::io::Error::from_raw_os_error"):
            if c.bb in reach:
                for o in T.origins_of_arg(c, 0):
                    errs.add(o.const_int(True))
        sinks = [c for c in b.calls("syscalls::mkdirat", "syscalls::openat") if c.bb in reach]
        if errs == {ENOENT} and not sinks:
            out.append(holds("C12.R2", "mkdir_all:dotdot-refusal-errno", t.where(), "'..' in the unexisting tail -> ENOENT, nothing created"))
        else:
            out.append(violated("C12.R2", "mkdir_all:dotdot-refusal-errno", t.where(), "'..' refusal: errno %s, sinks after it %s" % (errs, [s.callee for s in sinks])))
    # partial resolution precedes, reopened with O_DIRECTORY
    ipa, pp = shared(ctx)
    bits = ipa.bits_of(b.path)
    for t in b.calls("handle::Handle::reopen"):
        v = bits.arg_value(t, 1)
        o = T.origins_of_arg(t, 0)
        okh = bool(o) and all(x.kind == "call" and x.term.callee in ("resolvers::Resolver::resolve_partial", "std::result::Result::<T, E>::and_then") for x in o)
        if v is not None and v.has(O_DIRECTORY) and okh:
            out.append(holds("C12.R2", "mkdir_all:reopen-directory", t.where(), "deepest existing handle reopened with O_DIRECTORY"))
        else:
            out.append(violated("C12.R2", "mkdir_all:reopen-directory", t.where(), "partial-lookup handle not reopened O_DIRECTORY (%r, %r)" % (v, o)))
    return out


def r3_eexist_only(ctx):
    F = ctx.facts
    T = ctx.tracer
    out = []
    b = F.body(MK)
    cfg = cfg_of(b)
    for n, t in enumerate(b.calls("syscalls::mkdirat")):
        key = "mkdir_all:mkdirat:%d:tolerance" % n
        r = result_edges(b, t)
        if r is None or not r["err"]:
            out.append(unproven("C12.R3", key, t.where(), "cannot find the error edge of mkdirat"))
            continue
        # on the error edge: which errno values let execution reach the step open?
        step = [c for c in b.calls("syscalls::openat")]
        after = cfg.edge_targets_reachable(r["err"])
        tests = []
        for c in b.calls("std::cmp::PartialEq::ne", "std::cmp::PartialEq::eq"):
            if c.bb not in after:
                continue
            errnos = set()
            isit = False
            for i in (0, 1):
                for o in T.origins_of_arg(c, i):
                    if o.kind == "call" and o.term.callee in ("syscalls::Error::errno",):
                        isit = True
                    e = errno_of_origin(o)
                    if e is not None:
                        errnos.add(e)
            if isit:
                tests.append((c, errnos))
        if len(tests) != 1:
            out.append(violated("C12.R3", key, t.where(), "expected one errno test on the mkdirat error path, found %d" % len(tests)))
            continue
        c, errnos = tests[0]
        be = bool_edges(b, c)
        equal = be["false"] if c.callee.endswith("::ne") else be["true"]
        differ = be["true"] if c.callee.endswith("::ne") else be["false"]
        cont_eq = any(s.bb in cfg.edge_targets_reachable(equal) for s in step)
        # the 'differ' edge must propagate: it must not reach the step open of the same iteration
        loops = cfg.natural_loops()
        hdrs = [h for h, blks in loops.items() if t.bb in blks]
        cont_ne = any(s.bb in cfg.edge_targets_reachable(differ, cut_nodes=hdrs) for s in step)
        if errnos == {EEXIST} and cont_eq and not cont_ne:
            out.append(holds("C12.R3", key, c.where(), "only EEXIST continues to the step open; other errors propagate"))
        else:
            out.append(violated("C12.R3", key, c.where(), "mkdirat error tolerance: errno set %s, equal-continues=%s, other-continues=%s" % (sorted(errnos), cont_eq, cont_ne)))
        # the Err edge without any test must not skip straight to the open
        direct = any(s.bb in cfg.edge_targets_reachable(r["err"], cut_nodes=[c.bb] + hdrs) for s in step)
        if direct:
            out.append(violated("C12.R3", key + ":untested", t.where(), "a mkdirat error can reach the step open without the errno test"))
    return out


def r4_step_open(ctx):
    F = ctx.facts
    T = ctx.tracer
    ipa, pp = shared(ctx)
    out = []
    b = F.body(MK)
    bits = ipa.bits_of(b.path)
    mk = list(b.calls("syscalls::mkdirat"))
    for n, t in enumerate(b.calls("syscalls::openat")):
        key = "mkdir_all:step-open:%d" % n
        v = bits.arg_value(t, 2)
        if v is None or not v.has(O_DIRECTORY):
            out.append(violated("C12.R4", key, t.where(), "step open without O_DIRECTORY: %r" % v))
            continue
        # same (dirfd, name) as the mkdirat
        same = False
        for m in mk:
            if origin_keys(T.origins_of_arg(m, 0)) == origin_keys(T.origins_of_arg(t, 0)) and \
               origin_keys(T.origins_of_arg(m, 1)) == origin_keys(T.origins_of_arg(t, 1)):
                same = True
        if not same:
            out.append(violated("C12.R4", key, t.where(), "step open does not use the (dirfd, name) that was passed to mkdirat"))
            continue
        out.append(holds("C12.R4", key, t.where(), "O_DIRECTORY(|O_NOFOLLOW via wrapper) open of the component just created"))
    return out


def r5_returned_handle(ctx):
    F = ctx.facts
    T = ctx.tracer
    out = []
    b = F.body(MK)
    ro = T.return_origins(b, OKP)
    ok = bool(ro) and all(o.kind == "call" and o.term.callee in ("syscalls::openat", "handle::Handle::reopen") and o.term.body is b for o in ro)
    if ok:
        out.append(holds("C12.R5", "mkdir_all:returned-handle", b.where(), "handle = last step open, or the reopened existing directory"))
    else:
        out.append(violated("C12.R5", "mkdir_all:returned-handle", b.where(), "returned handle has another origin: %r" % ro))
    return out


def r6_partial_conversion(ctx):
    F = ctx.facts
    out = []
    p = "<resolvers::PartialLookup<handle::Handle> as std::convert::TryInto<(handle::Handle, std::option::Option<std::path::PathBuf>)>>::try_into"
    b = F.body(p)
    cfg = cfg_of(b)
    # Ok((handle, Some(remaining))) block
    okb = None
    for blk in b.blocks:
        if blk.cleanup:
            continue
        somes = [s for s in blk.stmts if s.kind == "assign" and s.rv["k"] == "agg" and s.rv.get("adt") == "std::option::Option" and s.rv.get("variant") == "Some"]
        oks = [s for s in blk.stmts if s.kind == "assign" and s.lhs.local == 0 and s.rv["k"] == "agg" and s.rv.get("variant") == "Ok"]
        if somes and oks:
            okb = blk.idx
    if okb is None:
        return [violated("C12.R6", "try_into:partial-ok", b.where(), "Ok((handle, Some(remaining))) construction not found")]
    # which errno values lead to it (switch arms and equality tests alike)
    from ..cut import errno_branches
    brs = errno_branches(b, ctx.tracer)
    errnos = {br["errno"] for br in brs if okb in cfg.edge_targets_reachable(br["eq"])}
    # reaching it at all requires passing one of those "equal" edges
    bypass = okb in cfg.reachable(cfg.entry, cut_edges=[e.key() for br in brs for e in br["eq"]])
    if errnos == {ENOENT} and not bypass:
        out.append(holds("C12.R6", "try_into:partial-ok", b.where(), "Partial -> (handle, Some(remaining)) only for ENOENT"))
    else:
        out.append(violated("C12.R6", "try_into:partial-ok", b.where(), "partial lookups are turned into creatable remainders for errno set %s (bypass=%s)" % (sorted(map(str, errnos)), bypass)))
    return out


PURE = re.compile(r"(PartialEq::(eq|ne)$|<impl \[T\]>::contains$|syscalls::Error::errno$|OsStrExt::as_bytes$|::is_empty$|::len$|Try::branch$|::map_err$|::as_ref$|Deref::deref$|AsRef::as_ref$)")


def _leaves(T, b, origins, depth=0, seen=None):
    """Flatten a condition's provenance to the calls/parameters/constants it is computed from."""
    seen = seen if seen is not None else set()
    out = []
    for o in origins:
        k = o.key()
        if k in seen or depth > 10:
            continue
        seen.add(k)
        if o.kind == "expr" and o.stmt is not None:
            for blk in b.blocks:
                for si, s_ in enumerate(blk.stmts):
                    if s_ is o.stmt:
                        pl = s_.rv_place()
                        if pl is not None:
                            out += _leaves(T, b, T.origins(b, blk.idx, si, pl), depth + 1, seen)
                        for op in s_.rv_operands():
                            if op.place is not None:
                                out += _leaves(T, b, T.origins_of_operand(b, blk.idx, si, op), depth + 1, seen)
        elif o.kind == "call" and o.term.body is b and PURE.search(o.term.callee or ""):
            for i in range(len(o.term.args)):
                out += _leaves(T, b, T.origins_of_arg(o.term, i), depth + 1, seen)
        else:
            out.append(o)
    return out


def r7_refusals_in_loop(ctx):
    """Convergence: inside the creation loop mkdir_all may refuse (synthesise an error) only because of the component
    name, the errno of its own mkdirat, or the result of the step open.  A refusal computed from anything else it
    observes about the directory (mode, owner, emptiness ...) fails callers that lost a mkdirat race to a concurrent
    mkdir_all with other arguments -- the library documents that an existing directory is reused as it is."""
    F = ctx.facts
    T = ctx.tracer
    out = []
    b = F.body(MK)
    cfg = cfg_of(b)
    mk = list(b.calls("syscalls::mkdirat"))
    loops = cfg.natural_loops()
    inl = [(h, blks) for h, blks in loops.items() if mk and mk[0].bb in blks]
    if not inl:
        return [violated("C12.R7", "mkdir_all:creation-loop", b.where(), "mkdirat is not inside a loop (anchor drift)")]
    h, blks = min(inl, key=lambda x: len(x[1]))
    step = [t for t in b.calls("syscalls::openat") if t.bb in blks]
    region = cfg.reachable(h, cut_nodes=[]) if False else None
    # blocks executed as part of one iteration, including its error exits
    body_starts = [e.dst for e in cfg.succ.get(h, []) if e.dst in blks]
    region = set()
    for st in body_starts:
        region |= cfg.reachable(st, cut_nodes=[h])
    cd = cfg.control_deps()
    allowed_calls = {id(t) for t in mk + step}
    n = 0
    for x in sorted(region):
        blk = b.blocks[x]
        if blk.cleanup:
            continue
        for s_ in blk.stmts:
            if not (s_.kind == "assign" and s_.rv["k"] == "agg" and s_.rv.get("adt") == "error::ErrorImpl"):
                continue
            n += 1
            key = "mkdir_all:loop-refusal:%s:%d" % (s_.rv.get("variant"), sum(1 for i in out if i.key.startswith("mkdir_all:loop-refusal:%s" % s_.rv.get("variant"))))
            bad = []
            # transitive control dependences inside the iteration (a refusal behind `if helper(..)? { .. }` depends on
            # whatever decided the helper's answer, too)
            deps, work = [], [x]
            seen_cd = {x}
            while work:
                y = work.pop()
                for (a, _ek) in cd.get(y, ()):
                    if (a not in region and a != h) or a in seen_cd:
                        continue
                    # same iteration only: the decision lies on a path to the refusal that does not go round the loop
                    if a != h and x not in cfg.reachable(a, cut_nodes=[h]):
                        continue
                    seen_cd.add(a)
                    deps.append(a)
                    if a != h:
                        work.append(a)
            for a in deps:
                term = b.blocks[a].term
                if term.kind != "switch":
                    continue
                d = Operand(term.raw["d"])
                if d.place is None:
                    continue
                for lf in _leaves(T, b, T.origins_of_operand(b, a, len(b.blocks[a].stmts), d)):
                    if lf.kind == "const":
                        continue
                    if lf.kind == "call" and id(lf.term) in allowed_calls:
                        continue
                    if lf.kind == "call" and (lf.term.callee or "").rsplit("::", 1)[-1] in ("next", "peek", "next_if", "len", "is_empty") and \
                            re.search(r"OsStr|Components", " ".join(lf.term.argtys[:1])):
                        continue   # the component itself / the queue of components (not any iterator: a directory scan is an observation)
                    bad.append(lf)
            w = "%s:%d" % (b.file, s_.line)
            if bad:
                out.append(violated("C12.R7", key, w, "mkdir_all refuses with %s depending on %s: concurrent mkdir_all callers (or a directory that already existed) make this call fail although the directory is there"
                                    % (s_.rv.get("variant"), sorted({repr(x_) for x_ in bad})[:3])))
            else:
                out.append(holds("C12.R7", key, w, "refusal depends only on the component name / mkdirat errno / step open"))
    if n == 0:
        out.append(violated("C12.R7", "mkdir_all:loop-refusal", b.where(), "no error construction found in the creation loop (anchor drift)"))
    return out


def r8_base_directory(ctx):
    """The directory the missing components are created in is the reopened handle of the partial lookup: that reopen
    goes by descriptor through thread-self/fd/<n> (C09.R1) -- through another thread's or the leader's descriptor
    table it would name some unrelated directory."""
    from .c09 import reopen_by_descriptor
    return reopen_by_descriptor(ctx, "C12.R8")


def r9_partial_lookup_reports_the_link(ctx):
    """mkdir_all creates the tail of (handle, remaining) that the partial lookup reports: for a dangling link that must be
    the link's directory and the link itself (refused), which the emulated walk reads off its symlink stack."""
    from .c04 import symlink_stack_discipline
    return symlink_stack_discipline(ctx, "C12.R9")


def r10_never_removes(ctx):
    """Convergence: a mkdir_all that fails never takes back a directory it (or a racing caller that tolerated EEXIST)
    created -- no unlink/rmdir/rename is reachable from mkdir_all or its closures."""
    F = ctx.facts
    out = []
    bodies = [b for b in F.bodies if b.path == MK or b.path.startswith(MK + "::{closure")]
    bad = []
    for b in bodies:
        for t in b.calls():
            c = t.callee or ""
            if c.startswith("syscalls::") and c.split("::")[1] in ("unlinkat", "renameat", "renameat2") or c.startswith("utils::dir::remove") or c.endswith("::remove_all") or c.endswith("::remove_dir") or c.endswith("::remove_file"):
                bad.append(t)
    if not bodies:
        return [violated("C12.R10", "mkdir_all:never-removes", "", "mkdir_all not found (anchor drift)")]
    if bad:
        out.append(violated("C12.R10", "mkdir_all:never-removes", bad[0].where(), "mkdir_all removes/renames an entry (%s): a concurrent caller that saw EEXIST or already resolved the directory has reported success for a path that is then taken away" % bad[0].callee))
    else:
        out.append(holds("C12.R10", "mkdir_all:never-removes", bodies[0].where(), "no unlink/rmdir/rename in mkdir_all and its %d closures" % (len(bodies) - 1)))
    return out


RULES = [
    ("C12.R1", r1_mode_validation, 2, False),
    ("C12.R2", r2_creation_loop_inputs, 4, False),
    ("C12.R3", r3_eexist_only, 1, False),
    ("C12.R4", r4_step_open, 1, False),
    ("C12.R5", r5_returned_handle, 1, False),
    ("C12.R6", r6_partial_conversion, 1, False),
    ("C12.R7", r7_refusals_in_loop, 2, False),
    ("C12.R8", r8_base_directory, 2, False),
    ("C12.R9", r9_partial_lookup_reports_the_link, 1, False),
    ("C12.R10", r10_never_removes, 1, False),
]
