"""C17 — the C boundary validates arguments and respects caller buffers."""
import re

from ..cfg import cfg_of
from ..common import *
from ..cut import bool_edges, result_edges, stmt_bool_edges
from ..engine import holds, unproven, violated
from ..facts import Operand, Place

EXPLANATION = ("C17: every extern \"C\" parameter is classified by type: fd parameters flow only into "
               "CBorrowedFd::try_as_borrowed_fd (negative -> InvalidArgument before borrow_raw), path pointers only into "
               "parse_path (NULL -> InvalidArgument before CStr::from_ptr), output buffers only into copy_path_into_buffer "
               "with their own size (copy of min(len, bufsize) bytes under non-NULL and non-zero guards, full length "
               "returned); no Rust enum crosses the boundary; unknown procfs base -> InvalidArgument.")
ASSUMPTIONS = ["the C caller passes NUL-terminated strings and buffers of at least the stated size (the usual C contract)"]


def _externs(ctx):
    return [e for e in ctx.facts.externs if e["no_mangle"]]


def _param_flows(ctx, body, local, depth=0):
    """All call sites (in body and its closures) that receive the given parameter local (possibly
    through closure capture): list of (term, arg index)."""
    F = ctx.facts
    T = ctx.tracer
    out = []
    bodies = [body] + F.closures_of(body.path)
    for b in bodies:
        for t in b.calls():
            for i, a in enumerate(t.args):
                if a.place is None:
                    continue
                for o in T.origins_of_arg(t, i):
                    if o.kind == "param" and o.body is body and o.detail == local and not o.fpath:
                        out.append((t, i))
    return out


def r1_fd_params(ctx):
    F = ctx.facts
    T = ctx.tracer
    out = []
    n = 0
    for ex in _externs(ctx):
        b = F.body(ex["path"])
        for i, p in enumerate(ex["params"]):
            if "CBorrowedFd" not in p["ty"]:
                continue
            n += 1
            key = "%s:%s" % (ex["symbol"], ex["param_names"][i] or i)
            flows = _param_flows(ctx, b, i + 1)
            bad = []
            for (t, ai) in flows:
                if t.callee == "capi::utils::CBorrowedFd::<'fd>::try_as_borrowed_fd" and ai == 0:
                    continue
                if t.callee in {e["path"] for e in F.externs}:
                    continue  # forwarded unchanged to another extern function
                bad.append(t.callee)
            if not flows:
                out.append(violated("C17.R1", key, b.where(), "fd parameter is never validated/used"))
            elif bad:
                out.append(violated("C17.R1", key, b.where(), "raw fd parameter used other than through try_as_borrowed_fd: %s" % bad))
            else:
                out.append(holds("C17.R1", key, b.where(), "only use: try_as_borrowed_fd()?"))
    # try_as_borrowed_fd: borrow_raw on the non-negative edge only
    tb = F.body("capi::utils::CBorrowedFd::<'fd>::try_as_borrowed_fd")
    cfg = cfg_of(tb)
    br = list(tb.calls("rustix::fd::BorrowedFd::<'_>::borrow_raw"))
    guards = []
    for t in tb.calls("core::num::<impl i32>::is_negative"):
        be = bool_edges(tb, t)
        if be:
            guards.append(be)
    # comparison forms
    for blk in tb.blocks:
        for i, s in enumerate(blk.stmts):
            if s.kind == "assign" and s.rv["k"] == "bin" and s.rv["op"] in ("Lt", "Ge"):
                a, c = Operand(s.rv["a"]), Operand(s.rv["b"])
                if c.is_const and c.int_value(True) == 0:
                    be = stmt_bool_edges(tb, blk.idx, i)
                    if be:
                        guards.append(be if s.rv["op"] == "Lt" else {"true": be["false"], "false": be["true"], "bb": be["bb"]})
    if len(br) == 1 and guards:
        cut = [e.key() for g in guards for e in g["false"]]
        neg_reach = cfg.edge_targets_reachable([e for g in guards for e in g["true"]])
        if br[0].bb in cfg.reachable(cfg.entry, cut_edges=cut) or br[0].bb in neg_reach:
            out.append(violated("C17.R1", "try_as_borrowed_fd:guard", br[0].where(), "BorrowedFd::borrow_raw reachable for a negative descriptor"))
        else:
            inv = any(s.kind == "assign" and s.rv["k"] == "agg" and s.rv.get("variant") == "InvalidArgument" for x in neg_reach for s in tb.blocks[x].stmts)
            (out.append(holds("C17.R1", "try_as_borrowed_fd:guard", br[0].where(), "negative -> InvalidArgument; borrow_raw only for fd >= 0")) if inv else
             out.append(violated("C17.R1", "try_as_borrowed_fd:guard", br[0].where(), "negative descriptors are not answered with InvalidArgument")))
    else:
        out.append(violated("C17.R1", "try_as_borrowed_fd:guard", tb.where(), "expected one borrow_raw behind a sign test"))
    # field `inner` is read only in try_as_borrowed_fd / From impl
    readers = set()
    for b in F.fn_bodies():
        for blk in b.blocks:
            for s in blk.stmts:
                pls = [o.place for o in s.rv_operands() if o.place is not None]
                rp = s.rv_place()
                if rp is not None:
                    pls.append(rp)
                for pl in pls:
                    if "inner" in pl.fields() and "CBorrowedFd" in b.local_tys[pl.local]:
                        readers.add(fn_key(b))
    extra = readers - {"capi::utils::CBorrowedFd::<'fd>::try_as_borrowed_fd", "<capi::utils::CBorrowedFd<'fd> as std::fmt::Debug>::fmt",
                       "<capi::utils::CBorrowedFd<'fd> as std::clone::Clone>::clone"}
    (out.append(holds("C17.R1", "CBorrowedFd.inner:readers", "", "raw number read only by %s" % sorted(readers))) if not extra else
     out.append(violated("C17.R1", "CBorrowedFd.inner:readers", "", "raw descriptor number read outside the validator: %s" % sorted(extra))))
    if n < 14:
        out.append(violated("C17.R1", "fd-param-count", "", "only %d CBorrowedFd parameters found" % n))
    return out


def r2_path_params(ctx):
    F = ctx.facts
    out = []
    n = 0
    for ex in _externs(ctx):
        b = F.body(ex["path"])
        for i, p in enumerate(ex["params"]):
            if p.get("pointee") != "i8" or p.get("ptr_mut"):
                continue
            n += 1
            key = "%s:%s" % (ex["symbol"], ex["param_names"][i] or i)
            flows = _param_flows(ctx, b, i + 1)
            bad = [t.callee for (t, ai) in flows if not (t.callee == "capi::utils::parse_path" and ai == 0) and t.callee not in {e["path"] for e in F.externs}]
            if not flows:
                out.append(violated("C17.R2", key, b.where(), "path pointer is never parsed"))
            elif bad:
                out.append(violated("C17.R2", key, b.where(), "C string pointer used other than through parse_path: %s" % bad))
            else:
                out.append(holds("C17.R2", key, b.where(), "only use: parse_path()?"))
    pb = F.body("capi::utils::parse_path")
    cfg = cfg_of(pb)
    fp = list(pb.calls("std::ffi::CStr::from_ptr"))
    nul = [bool_edges(pb, t) for t in pb.calls("std::ptr::const_ptr::<impl *const T>::is_null")]
    nul = [x for x in nul if x]
    if len(fp) == 1 and nul:
        cut = [e.key() for g in nul for e in g["false"]]
        nr = cfg.edge_targets_reachable([e for g in nul for e in g["true"]])
        inv = any(s.kind == "assign" and s.rv["k"] == "agg" and s.rv.get("variant") == "InvalidArgument" for x in nr for s in pb.blocks[x].stmts)
        if fp[0].bb in cfg.reachable(cfg.entry, cut_edges=cut) or fp[0].bb in nr or not inv:
            out.append(violated("C17.R2", "parse_path:null", fp[0].where(), "CStr::from_ptr reachable for a NULL pointer (or NULL is not InvalidArgument)"))
        else:
            out.append(holds("C17.R2", "parse_path:null", fp[0].where(), "NULL -> InvalidArgument; from_ptr only for non-NULL"))
    else:
        out.append(violated("C17.R2", "parse_path:null", pb.where(), "expected one CStr::from_ptr behind an is_null test"))
    if n < 18:
        out.append(violated("C17.R2", "path-param-count", "", "only %d const char* parameters found" % n))
    return out


def r3_bounded_copy(ctx):
    F = ctx.facts
    T = ctx.tracer
    out = []
    cb = F.body("capi::utils::copy_path_into_buffer")
    cfg = cfg_of(cb)
    cp = [t for t in cb.calls() if re.search(r"ptr::(copy_nonoverlapping|copy|write_bytes|write)$|slice::from_raw_parts_mut$|copy_from_slice$|copy_to_nonoverlapping$|copy_to$", t.callee or "")]
    if len(cp) != 1 or cp[0].callee != "std::ptr::copy_nonoverlapping":
        out.append(violated("C17.R3", "copy_path_into_buffer:copy", cb.where(), "expected exactly one ptr::copy_nonoverlapping, found %s" % [t.callee for t in cp]))
        return out
    t = cp[0]
    cnt = T.origins_of_arg(t, 2)
    okmin = False
    for o in cnt:
        if o.kind == "call" and o.term.callee in ("std::cmp::min", "std::cmp::Ord::min", "core::cmp::min", "core::cmp::Ord::min"):     # min(a, b) / a.min(b)
            a = T.origins_of_arg(o.term, 0) + T.origins_of_arg(o.term, 1)
            has_size = any(x.kind == "param" and x.detail == 3 for x in a)
            has_len = any(x.kind == "call" and x.term.callee in ("core::slice::<impl [T]>::len",) for x in a)
            okmin = has_size and has_len and len(cnt) == 1
    dst = T.origins_of_arg(t, 1)
    okdst = bool(dst) and all(o.kind == "param" and o.detail == 2 for o in dst)
    (out.append(holds("C17.R3", "copy_path_into_buffer:count", t.where(), "count = min(path_len, bufsize), destination = buf")) if okmin and okdst else
     out.append(violated("C17.R3", "copy_path_into_buffer:count", t.where(), "copy count is not min(link length, buffer size) into the caller buffer: count %r dst %r" % (cnt, dst))))
    # guards: !buf.is_null() and bufsize > 0
    gn = [bool_edges(cb, x) for x in cb.calls("std::ptr::mut_ptr::<impl *mut T>::is_null")]
    gn = [g for g in gn if g]
    cutn = [e.key() for g in gn for e in g["false"]]   # false = not null
    okn = bool(gn) and t.bb not in cfg.reachable(cfg.entry, cut_edges=cutn) and t.bb not in cfg.edge_targets_reachable([e for g in gn for e in g["true"]])
    gz = []   # edge sets on which bufsize is known to be non-zero
    for blk in cb.blocks:
        for i, s in enumerate(blk.stmts):
            if s.kind == "assign" and s.rv["k"] == "bin" and s.rv["op"] in ("Gt", "Ne", "Lt", "Eq", "Le", "Ge"):
                a, c = Operand(s.rv["a"]), Operand(s.rv["b"])
                if c.is_const and c.int_value() == 0 and not a.is_const:
                    var, flipped = a, False
                elif a.is_const and a.int_value() == 0 and not c.is_const:
                    var, flipped = c, True
                else:
                    continue
                vo = T.origins_of_operand(cb, blk.idx, i, var)
                if not any(x.kind == "param" and x.detail == 3 for x in vo):
                    continue
                be = stmt_bool_edges(cb, blk.idx, i)
                if not be:
                    continue
                op = s.rv["op"]
                # truth of the comparison for x == 0 (unsigned): the other edge is the non-zero one
                l, r = (0, 0)
                truth_at_zero = {"Gt": False, "Ne": False, "Lt": False, "Eq": True, "Le": True, "Ge": True}[op]
                if op in ("Ge",) and not flipped:
                    continue   # x >= 0 says nothing
                if op in ("Le",) and flipped:
                    continue   # 0 <= x says nothing
                nonzero = be["false"] if truth_at_zero else be["true"]
                gz.append(nonzero)
    okz = bool(gz) and t.bb not in cfg.reachable(cfg.entry, cut_edges=[e.key() for g in gz for e in g])
    (out.append(holds("C17.R3", "copy_path_into_buffer:guards", t.where(), "copy only for non-NULL buffer and bufsize > 0")) if okn and okz else
     out.append(violated("C17.R3", "copy_path_into_buffer:guards", t.where(), "copy not guarded by non-NULL (%s) and non-zero size (%s)" % (okn, okz))))
    # nothing else touches the caller's buffer: the pointer goes to is_null() and, as destination, to the one copy;
    # no other call receives it (add/offset/write..) and nothing is stored through it
    extra = []
    for (c, ai) in _param_flows(ctx, cb, 2):
        if c.callee == "std::ptr::mut_ptr::<impl *mut T>::is_null" and ai == 0:
            continue
        if c is t and ai == 1:
            continue
        extra.append("%s(arg %d)" % (c.callee, ai))
    for blk in cb.blocks:
        if blk.cleanup:
            continue
        for i, s_ in enumerate(blk.stmts):
            if s_.kind == "assign" and "*" in s_.lhs.proj and "*mut" in cb.local_tys[s_.lhs.local]:
                extra.append("store through %s at line %d" % (cb.local_tys[s_.lhs.local], s_.line))
    (out.append(holds("C17.R3", "copy_path_into_buffer:only-write", t.where(), "the buffer is written by the bounded copy only")) if not extra else
     out.append(violated("C17.R3", "copy_path_into_buffer:only-write", t.where(),
                         "the caller's buffer is touched outside the bounded copy (%s): more than min(length, size) bytes are written" % ", ".join(extra))))
    # return = full length
    ro = T.return_origins(cb, OKP)
    okr = bool(ro) and all(o.kind == "call" and o.term.callee == "core::slice::<impl [T]>::len" for o in ro)
    (out.append(holds("C17.R3", "copy_path_into_buffer:returns-full-length", cb.where(), "returns the link length, not the copied count")) if okr else
     out.append(violated("C17.R3", "copy_path_into_buffer:returns-full-length", cb.where(), "return value is %r" % ro)))
    # each char* buffer parameter goes only to this helper together with its own size parameter
    n = 0
    for ex in _externs(ctx):
        b = F.body(ex["path"])
        for i, p in enumerate(ex["params"]):
            if p.get("pointee") != "i8" or not p.get("ptr_mut"):
                continue
            n += 1
            key = "%s:%s" % (ex["symbol"], ex["param_names"][i] or i)
            flows = _param_flows(ctx, b, i + 1)
            ok = bool(flows)
            for (c, ai) in flows:
                if c.callee != "capi::utils::copy_path_into_buffer" or ai != 1:
                    ok = False
                    continue
                so = T.origins_of_arg(c, 2)
                if not (so and all(o.kind == "param" and o.body is b and o.detail == i + 2 for o in so)):
                    ok = False
            (out.append(holds("C17.R3", key, b.where(), "buffer passed only to copy_path_into_buffer with its own size")) if ok else
             out.append(violated("C17.R3", key, b.where(), "output buffer used other than copy_path_into_buffer(buf, its size): %s" % [(c.callee, ai) for c, ai in flows])))
    if n < 2:
        out.append(violated("C17.R3", "buffer-param-count", "", "expected the two readlink buffers"))
    return out


def _table_lookup_conversion(ctx, tb, vals, want, vn):
    """The conversion written as a lookup in a constant table:
    TABLE.iter().find(|(c, _)| *c == given).map(|(_, b)| b).ok_or[_else](InvalidArgument).
    -> instance, or None when the function is not of this form."""
    F = ctx.facts
    T = ctx.tracer
    finds = list(tb.calls("std::iter::Iterator::find"))
    oks = list(tb.calls("std::option::Option::<T>::ok_or_else", "std::option::Option::<T>::ok_or"))
    if len(finds) != 1 or len(oks) != 1:
        return None
    find, okc = finds[0], oks[0]
    # the table: a promoted/named constant array of (value, base) pairs
    raw = None
    for o in T.origins_of_arg(find, 0):
        if o.kind == "call" and (o.term.callee or "").endswith("::iter"):
            for o2 in T.origins_of_arg(o.term, 0):
                if o2.kind == "const" and "CProcfsBase" in (o2.op.const.get("ty") or "") and o2.const_bytes() is not None:
                    raw = decode_bytes(o2.const_bytes())
        elif o.kind == "const" and "CProcfsBase" in (o.op.const.get("ty") or "") and o.const_bytes() is not None:
            raw = decode_bytes(o.const_bytes())
    if raw is None or len(raw) % 16 != 0:
        return None
    table = {}
    for k in range(len(raw) // 16):
        table[int.from_bytes(raw[16 * k:16 * k + 8], "little")] = raw[16 * k + 8]
    expect = {vals[n]: vn.index(want[n]) for n in want if n in vals and want[n] in vn}
    # the predicate compares the table key with the value being converted; the result is find -> map -> ok_or -> return
    pred_ok = False
    for a in T.origins_of_arg(find, 1):
        if a.kind == "agg" and a.detail and a.detail.startswith("closure ") and F.has(a.detail[8:]):
            cb = F.body(a.detail[8:])
            cmp_calls = list(cb.calls("std::cmp::PartialEq::eq"))
            cmp_stmts = [s_ for bl in cb.blocks for s_ in bl.stmts if s_.kind == "assign" and s_.rv["k"] == "bin" and s_.rv["op"] == "Eq"]
            ro = T.return_origins(cb)
            pred_ok = (len(cmp_calls) + len(cmp_stmts)) == 1 and bool(ro) and not any(
                o.kind == "expr" and o.stmt is not None and o.stmt.rv.get("k") == "un" for o in ro)
    inv = False
    for a2 in T.origins_of_arg(okc, 1):
        if a2.kind == "agg" and a2.detail and a2.detail.startswith("closure ") and F.has(a2.detail[8:]):
            cb2 = F.body(a2.detail[8:])
            inv = any(s_.kind == "assign" and s_.rv["k"] == "agg" and s_.rv.get("variant") == "InvalidArgument" for bl in cb2.blocks for s_ in bl.stmts)
        if a2.kind == "agg" and a2.detail == "error::ErrorImpl::InvalidArgument":
            inv = True

    def chain(os_, depth=0):
        if not os_ or depth > 4:
            return False
        for o in os_:
            if o.kind == "call" and o.term is find:
                continue
            if o.kind == "call" and (o.term.callee or "").rsplit("::", 1)[-1] in ("map", "copied", "cloned", "ok_or_else", "ok_or") and chain(T.origins_of_arg(o.term, 0), depth + 1):
                continue
            return False
        return True

    ret_ok = chain(T.return_origins(tb)) and chain(T.origins_of_arg(okc, 0))
    # no ProcfsBase is made up outside the table
    made = any(s_.kind == "assign" and s_.rv["k"] == "agg" and s_.rv.get("adt") == "procfs::ProcfsBase" for bl in tb.blocks for s_ in bl.stmts)
    if table == expect and len(expect) == 3 and pred_ok and inv and ret_ok and not made:
        return holds("C17.R4", "CProcfsBase:conversion", tb.where(), "lookup in a constant table of the 3 known values; anything else -> find() is None -> InvalidArgument")
    return violated("C17.R4", "CProcfsBase:conversion", tb.where(),
                    "procfs base conversion table broken (table %s, expected %s, predicate-is-equality=%s, miss->InvalidArgument=%s, result-is-the-lookup=%s)"
                    % ({hex(k): v for k, v in table.items()}, {hex(k): v for k, v in expect.items()}, pred_ok, inv, ret_ok))


def r4_no_rust_enums(ctx):
    F = ctx.facts
    out = []
    for ex in _externs(ctx):
        for i, p in enumerate(ex["params"]):
            ty = p["ty"].replace("&", "").strip()
            a = F.adts.get(re.sub(r"<.*>$", "", ty))
            key = "%s:%s:type" % (ex["symbol"], ex["param_names"][i] or i)
            if a is not None and a["kind"] == "Enum":
                out.append(violated("C17.R4", key, ex["span"], "a Rust enum (%s) is taken by value from C: an invalid discriminant is undefined behaviour" % ty))
            elif a is not None and not (a["repr_c"] or a["repr_transparent"] or a["repr_int"]):
                out.append(violated("C17.R4", key, ex["span"], "non-repr(C) type %s at the C boundary" % ty))
            else:
                out.append(holds("C17.R4", key, ex["span"], "parameter type %s" % ty))
    # CProcfsBase: open enum (newtype) with wildcard -> InvalidArgument
    tb = F.body("capi::procfs::<impl std::convert::TryFrom<capi::procfs::CProcfsBase> for procfs::ProcfsBase>::try_from")
    cfg = cfg_of(tb)
    sw = [blk for blk in tb.blocks if not blk.cleanup and blk.term.kind == "switch" and blk.term.raw["dty"] == "u64"]
    a = F.adts.get("capi::procfs::CProcfsBase")
    okadt = a is not None and a["kind"] == "Struct" and (a["repr_transparent"] or a["repr_c"] or True)
    vals = {}
    for c in F.consts.values():
        if c["path"].startswith("capi::procfs::CProcfsBase::PATHRS_"):
            vals[c["path"].split("::")[-1]] = c["u"]
    want = {"PATHRS_PROC_ROOT": "ProcRoot", "PATHRS_PROC_SELF": "ProcSelf", "PATHRS_PROC_THREAD_SELF": "ProcThreadSelf"}
    pb = F.adts.get("procfs::ProcfsBase")
    vn = [v["name"] for v in pb["variants"]]
    # value-keyed branches: arms of a u64 switch and `== CONST` tests alike
    T = ctx.tracer
    branches = []      # (value, [edges taken when the base equals the value])
    for blk in tb.blocks:
        if blk.cleanup or blk.term.kind != "switch" or blk.term.raw["dty"] != "u64":
            continue
        for e in cfg.succ.get(blk.idx, []):
            if isinstance(e.label[1], int):
                branches.append((e.label[1], [e]))
    for t2 in tb.calls("std::cmp::PartialEq::eq", "std::cmp::PartialEq::ne"):
        val = None
        for i2 in (0, 1):
            for o in T.origins_of_arg(t2, i2):
                if o.kind == "const" and "CProcfsBase" in (o.op.const.get("ty") or ""):
                    raw = decode_bytes(o.const_bytes() or "")
                    if len(raw) == 8:
                        val = int.from_bytes(raw, "little")
                    elif o.const_int() is not None:
                        val = o.const_int()
        if val is None:
            continue
        be = bool_edges(tb, t2)
        if be:
            branches.append((val, be["true"] if t2.callee.endswith("::eq") else be["false"]))

    def made_on(edges, cut=()):
        made = set()
        rch = cfg.precise_reach(edges, cut_edges=cut)
        for x in rch:
            for s_ in tb.blocks[x].stmts:
                if s_.kind == "assign" and s_.rv["k"] == "agg" and s_.rv.get("adt") == "procfs::ProcfsBase":
                    made.add(s_.rv["variant"])
                if s_.kind == "assign" and s_.rv["k"] == "use" and s_.rv_operands() and s_.rv_operands()[0].is_const and "ProcfsBase" in (s_.rv_operands()[0].const.get("ty") or "") \
                        and "CProcfsBase" not in (s_.rv_operands()[0].const.get("ty") or ""):
                    vi = s_.rv_operands()[0].int_value()
                    if vi is not None and vi < len(vn):
                        made.add(vn[vi])
        return made, rch

    if branches:
        ok = True
        alleq = [e.key() for (_v, es) in branches for e in es]
        byval = {}
        for v, es in branches:
            byval.setdefault(v, []).extend(es)
        for v, es in byval.items():
            # edges of the other values are cut: what this value alone produces
            made, _r = made_on(es, cut=[k for k in alleq if k not in [e.key() for e in es]])
            nm = [k for k, vv in vals.items() if vv == v]
            if not nm or made != {want[nm[0]]}:
                ok = False
        if set(byval) != set(vals.values()):
            ok = False
        # anything else: entry with every value edge cut
        e0 = [e for e in cfg.succ.get(cfg.entry, [])]
        rch = cfg.reachable(cfg.entry, cut_edges=alleq)
        made_other = set()
        for x in rch:
            for s_ in tb.blocks[x].stmts:
                if s_.kind == "assign" and s_.rv["k"] == "agg" and s_.rv.get("adt") == "procfs::ProcfsBase":
                    made_other.add(s_.rv["variant"])
        inv = any(s_.kind == "assign" and s_.rv["k"] == "agg" and s_.rv.get("variant") == "InvalidArgument" for x in rch for s_ in tb.blocks[x].stmts)
        for t2 in tb.calls("std::option::Option::<T>::ok_or_else", "std::option::Option::<T>::ok_or"):
            if t2.bb in rch:
                for a2 in T.origins_of_arg(t2, 1):
                    if a2.kind == "agg" and a2.detail and a2.detail.startswith("closure ") and F.has(a2.detail[8:]):
                        cb2 = F.body(a2.detail[8:])
                        if any(s_.kind == "assign" and s_.rv["k"] == "agg" and s_.rv.get("variant") == "InvalidArgument" for bl in cb2.blocks for s_ in bl.stmts):
                            inv = True
                    if a2.kind == "agg" and a2.detail == "error::ErrorImpl::InvalidArgument":
                        inv = True
        other_ok = inv and not made_other
        if ok and other_ok and len(vals) == 3:
            out.append(holds("C17.R4", "CProcfsBase:conversion", tb.where(), "3 known values map to their bases; anything else -> InvalidArgument"))
        else:
            out.append(violated("C17.R4", "CProcfsBase:conversion", tb.where(), "procfs base conversion table broken (known=%s, wildcard->InvalidArgument=%s)" % (vals, other_ok)))
    else:
        tbl = _table_lookup_conversion(ctx, tb, vals, want, vn)
        if tbl is not None:
            out.append(tbl)
        else:
            out.append(unproven("C17.R4", "CProcfsBase:conversion", tb.where(), "no value-keyed branch found in the conversion"))
    # every CProcfsBase parameter goes through try_into
    for ex in _externs(ctx):
        b = F.body(ex["path"])
        for i, p in enumerate(ex["params"]):
            if "CProcfsBase" not in p["ty"]:
                continue
            flows = _param_flows(ctx, b, i + 1)
            bad = [t.callee for (t, ai) in flows if t.callee not in ("std::convert::TryInto::try_into", "std::convert::TryFrom::try_from")]
            key = "%s:%s" % (ex["symbol"], ex["param_names"][i] or i)
            (out.append(holds("C17.R4", key, b.where(), "base validated through TryFrom")) if flows and not bad else
             out.append(violated("C17.R4", key, b.where(), "procfs base used without conversion/validation: %s" % bad)))
    return out


def r5_lent_descriptors(ctx):
    """'never close or modify descriptors they were lent': no C API body turns a borrowed descriptor number into an
    owner (from_raw_fd) or releases ownership by hand (into_raw_fd) outside the one audited return path -- the
    ownership escape hatches of C11.R1, restricted to src/capi."""
    from .c11 import r1_escape_hatches
    out = []
    for i in r1_escape_hatches(ctx):
        if i.key.startswith("capi::") or "capi::" in i.key:
            i.rule = "C17.R5"
            out.append(i)
    return out


PATH_MAX = 4096


def r6_readlink_buffer(ctx):
    """'returns the full length of the link': pathrs_*_readlink reports the length of the body the wrapper read.  The
    wrapper detects truncation by an unused tail in its scratch buffer, so the buffer has to be longer than the longest
    body the kernel can return (PATH_MAX-1 bytes; d_path() output for magic-links included): at least PATH_MAX."""
    F = ctx.facts
    T = ctx.tracer
    fn = "syscalls::readlinkat"
    if not F.has(fn):
        return [violated("C17.R6", "readlinkat:buffer", "", "%s not found" % fn)]
    b = F.body(fn)
    sizes = []
    for ty in b.local_tys:
        m = re.fullmatch(r"\[(std::mem::MaybeUninit<u8>|u8); (\d+)\]", ty)
        if m:
            sizes.append(int(m.group(2)))
    for t in b.calls():
        c = t.callee or ""
        if c.endswith("Vec::<T>::with_capacity") or c.endswith("vec::from_elem"):
            ai = 0 if c.endswith("with_capacity") else 1
            for o in T.origins_of_arg(t, ai):
                if o.kind == "const" and o.const_int() is not None:
                    sizes.append(o.const_int())
    raw = list(b.calls("rustix::fs::readlinkat_raw", "rustix::fs::readlinkat", "libc::readlinkat"))
    if not raw:
        return [violated("C17.R6", "readlinkat:buffer", b.where(), "the readlink wrapper no longer calls readlinkat")]
    if any((t.callee or "").endswith("rustix::fs::readlinkat") for t in raw) and not sizes:
        return [holds("C17.R6", "readlinkat:buffer", raw[0].where(), "rustix::fs::readlinkat grows its buffer until the body fits")]
    if not sizes:
        return [unproven("C17.R6", "readlinkat:buffer", raw[0].where(), "cannot determine the size of the buffer the link body is read into")]
    if min(sizes) >= PATH_MAX:
        return [holds("C17.R6", "readlinkat:buffer", raw[0].where(), "scratch buffer of %d bytes >= PATH_MAX: a maximal body (PATH_MAX-1) leaves the byte that distinguishes it from a truncated one" % min(sizes))]
    return [violated("C17.R6", "readlinkat:buffer", raw[0].where(), "scratch buffer of %d bytes: a link body of %d..%d bytes fills it completely and is reported as ENAMETOOLONG (or cut short) instead of with its full length" % (min(sizes), min(sizes), PATH_MAX - 1))]


def r7_mode_arguments(ctx):
    """'invalid arguments yield an error id': the mode of pathrs_inroot_mkdir_all is validated by RootRef::mkdir_all
    before anything is looked up or created, on every path -- also when nothing needs creating (C12.R1)."""
    from .c12 import r1_mode_validation
    out = []
    for i in r1_mode_validation(ctx):
        i.rule = "C17.R7"
        out.append(i)
    return out


RULES = [
    ("C17.R1", r1_fd_params, 16, True),
    ("C17.R2", r2_path_params, 19, True),
    ("C17.R3", r3_bounded_copy, 5, True),
    ("C17.R5", r5_lent_descriptors, 1, True),
    ("C17.R4", r4_no_rust_enums, 40, True),
    ("C17.R6", r6_readlink_buffer, 1, False),
    ("C17.R7", r7_mode_arguments, 2, True),
]
