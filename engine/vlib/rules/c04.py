"""C04 — kernel and emulated resolver backends are observationally equivalent (thin structural claim)."""
import re

from ..bits import Bits, compose
from ..cfg import cfg_of
from ..common import *
from ..cut import bool_edges, result_edges
from ..engine import holds, unproven, violated
from ..facts import Operand, Place
from . import c05
from .c05 import shared, _cls, _local_bits
from .c07 import CREATION

EXPLANATION = ("C04: necessary structural conditions of backend equivalence: (R1) along both chains from the one-shot open's "
               "flags parameter to the raw open, access-mode and I/O-status bits are preserved and only O_CLOEXEC/O_NOCTTY/"
               "O_NOFOLLOW(/O_DIRECTORY for a trailing slash) are forced, identically on both backends; (R2) argument "
               "validation precedes the backend dispatch and the backend field is read only by the dispatch functions; (R3) "
               "every errno the emulation synthesises is tabulated against what openat2 returns in that situation; (R4) both "
               "backends hand the caller's path bytes to the kernel unmodified or fail (interior NUL, empty path).")
ASSUMPTIONS = ["equivalence of outcomes for concrete trees, partial-lookup results and the symlink stack are not decided: one of the two siblings is the kernel"]

STATUS_BITS = O_ACCMODE | O_APPEND | O_NONBLOCK | 0o10000 | 0o4010000 | 0o40000 | 0o1000000 | O_TRUNC | O_PATH   # + DSYNC SYNC DIRECT NOATIME
M32 = 0xffffffff

# chains: (function, callee, argument index, field, parameter local that carries the flags)
EMULATED_CHAIN = [
    ("resolvers::Resolver::open", "handle::Handle::reopen", 1, (), None),
    ("handle::Handle::reopen", "handle::HandleRef::<'_>::reopen", 1, (), 2),
    ("handle::HandleRef::<'_>::reopen", "utils::fd::FdExt::reopen", 2, (), 2),
    ("<Fd as utils::fd::FdExt>::reopen", "procfs::ProcfsHandle::open_follow", 3, (), 3),
    ("procfs::ProcfsHandle::open_follow", "syscalls::openat_follow", 2, (), 4),
    ("syscalls::openat_follow", "rustix::fs::openat", 2, (), 3),
]
KERNEL_CHAIN = [
    ("resolvers::Resolver::open", "resolvers::openat2::open", 3, (), None),
    ("resolvers::openat2::open", "syscalls::openat2", 2, ("flags",), 4),
    ("syscalls::openat2", "libc::syscall", 3, ("flags",), 3),
]


def _chain(ctx, chain, name):
    F = ctx.facts
    out = []
    forced = 0
    cleared_possible = 0
    for (fn, callee, ai, fields, plocal) in chain:
        b = F.body(fn)
        lb = _local_bits(ctx, fn)
        sites = list(b.calls(callee))
        key = "%s:%s->%s" % (name, fn_key(b), callee.split("::")[-1])
        if not sites:
            out.append(violated("C04.R1", key, b.where(), "link of the %s flag chain disappeared: %s no longer calls %s" % (name, fn_key(b), callee)))
            continue
        for t in sites:
            v = lb.arg_value(t, ai, fields)
            if v is None:
                continue
            # which source carries the caller's flags in this function
            srcs = {a.src for a in v.alts if a.src is not None}
            keep = M32
            for a in v.alts:
                keep &= a.keep if a.src is not None else 0
            lost = STATUS_BITS & ~keep & M32
            added = v.must_set & M32
            maybe_added = 0
            for a in v.alts:
                maybe_added |= a.s & ~(a.keep if a.src is not None else 0)
            clr = 0
            for a in v.alts:
                clr |= a.c & ~a.keep
            clr &= M32
            forced |= maybe_added
            bad = []
            if lost:
                bad.append("does not pass on caller bits %#o" % lost)
            if maybe_added & ~(O_CLOEXEC | O_NOCTTY | O_NOFOLLOW | O_DIRECTORY) & M32:
                bad.append("forces extra bits %#o" % (maybe_added & ~(O_CLOEXEC | O_NOCTTY | O_NOFOLLOW | O_DIRECTORY) & M32))
            if clr & ~O_NOFOLLOW:
                bad.append("clears bits %#o" % (clr & ~O_NOFOLLOW))
            if bad:
                out.append(violated("C04.R1", key, t.where(), "; ".join(bad)))
            else:
                out.append(holds("C04.R1", key, t.where(), "status/access bits preserved; forced %#o cleared %#o" % (maybe_added & M32, clr)))
    return out, forced & M32


def r1_flag_preservation(ctx):
    out = []
    o1, f1 = _chain(ctx, EMULATED_CHAIN, "emulated")
    o2, f2 = _chain(ctx, KERNEL_CHAIN, "kernel")
    out.extend(o1)
    out.extend(o2)
    # both backends force the same descriptor flags (O_NOFOLLOW/O_DIRECTORY are lookup-control bits and not part of the outcome)
    d1 = f1 & (O_CLOEXEC | O_NOCTTY)
    d2 = f2 & (O_CLOEXEC | O_NOCTTY)
    if d1 == d2 == (O_CLOEXEC | O_NOCTTY):
        out.append(holds("C04.R1", "forced-bits-agree", "", "both backends force O_CLOEXEC|O_NOCTTY"))
    else:
        out.append(violated("C04.R1", "forced-bits-agree", "", "descriptor flags forced by the backends differ: emulated %#o, kernel %#o" % (d1, d2)))
    return out


def r2_validation_before_dispatch(ctx):
    F = ctx.facts
    T = ctx.tracer
    ipa, pp = shared(ctx)
    out = []
    b = F.body("resolvers::Resolver::open")
    lb = _local_bits(ctx, b.path)
    for (callee, ai) in (("resolvers::openat2::open", 3), ("resolvers::Resolver::resolve", None), ("handle::Handle::reopen", 1)):
        for t in b.calls(callee):
            key = "Resolver::open:%s" % callee.split("::")[-1]
            # value of the flags local at this call: use the value passed, or the flags local's state
            v = lb.arg_value(t, ai) if ai is not None else None
            if v is None:
                st = lb.at_call(t)
                # find the OpenFlags-typed local holding the converted parameter
                cands = [k for k, val in (st or {}).items() if isinstance(k[0], int) and "OpenFlags" in b.local_tys[k[0]] and k[1] == () and any(a.src for a in val.alts)]
                v = st[cands[0]] if cands else None
            bad = []
            if v is None:
                bad = ["unknown"]
            else:
                for a in v.alts:
                    for nm, m in CREATION:
                        if not a.lacks(m):
                            bad.append(nm)
            if bad:
                out.append(violated("C04.R2", key, t.where(), "the backend is entered before %s has been refused: the two backends treat creation flags differently" % "/".join(sorted(set(bad)))))
            else:
                out.append(holds("C04.R2", key, t.where(), "O_CREAT/O_EXCL/O_TMPFILE refused before either backend runs"))
    # who reads the backend field
    readers = set()
    for fb in F.fn_bodies():
        if is_bitflags_generated(fb):
            continue
        for blk in fb.blocks:
            for s in blk.stmts:
                pls = [o.place for o in s.rv_operands() if o.place is not None]
                rp = s.rv_place()
                if rp is not None:
                    pls.append(rp)
                for pl in pls:
                    for pr in pl.proj:
                        if isinstance(pr, dict) and pr.get("n") == "backend" and "ResolverBackend" in pr.get("ty", ""):
                            readers.add(fn_key(fb))
    allowed = {"resolvers::Resolver::open", "resolvers::Resolver::resolve", "resolvers::Resolver::resolve_partial",
               "<resolvers::Resolver as std::clone::Clone>::clone", "<resolvers::Resolver as std::fmt::Debug>::fmt", "<resolvers::Resolver as std::cmp::PartialEq>::eq",
               "<resolvers::Resolver as std::cmp::Eq>::assert_fields_are_eq"}
    extra = readers - allowed
    if extra:
        out.append(violated("C04.R2", "backend-field:readers", "", "operations other than the three dispatch functions depend on the backend: %s" % sorted(extra)))
    else:
        out.append(holds("C04.R2", "backend-field:readers", "", "Resolver::backend is read only by open/resolve/resolve_partial (+derives): %s" % sorted(readers)))
    return out


# (function, errno) -> situation and what openat2 returns there
ERRNO_TABLE = {
    ("resolvers::opath::imp::do_resolve", ELOOP): "NO_SYMLINKS hit / link budget exhausted / absolute link on a magic-link filesystem: openat2 returns ELOOP",
    ("resolvers::opath::imp::do_resolve", ENOENT): "empty path: openat2 returns ENOENT",
    ("resolvers::opath::imp::may_follow_link", EACCES): "fs.protected_symlinks: the kernel returns EACCES",
    ("resolvers::Resolver::open", ENOTDIR): "O_DIRECTORY on a trailing symlink with O_NOFOLLOW: openat2 returns ENOTDIR",
    ("resolvers::Resolver::open", ELOOP): "O_NOFOLLOW (without O_PATH) on a trailing symlink: openat2 returns ELOOP",
    ("root::RootRef::mkdir_all", ENOENT): "'..' in the not-yet-existing tail: lookup through a missing component is ENOENT",
    ("<Fd as utils::fd::FdExt>::reopen", ELOOP): "reopen of a symlink handle (no kernel counterpart; documented)",
    ("procfs::verify_same_mnt", EXDEV): "RESOLVE_NO_XDEV: openat2 returns EXDEV",
    ("procfs::verify_is_procfs", EXDEV): "RESOLVE_NO_XDEV analogue for the fstype check",
    ("resolvers::procfs::opath_resolve", EXDEV): "'..' in the restricted procfs walk (RESOLVE_BENEATH analogue)",
    ("resolvers::procfs::opath_resolve", ELOOP): "NO_SYMLINKS / budget / absolute (magic) link: RESOLVE_NO_MAGICLINKS returns ELOOP",
    ("root::RootRef::create_file", 21): "creating open of a final '..': the kernel returns EISDIR (open_last_lookups: last_type != LAST_NORM with O_CREAT); "
                                        "synthesised because under O_PATH the kernel would ignore O_CREAT and open '..' (F16)",
}
# rows that describe one admissible repair among several: present -> must match the table, absent -> nothing to say
OPTIONAL_ROWS = {("root::RootRef::create_file", 21)}


def r3_synthesised_errnos(ctx):
    F = ctx.facts
    T = ctx.tracer
    out = error_swaps(ctx, "C04.R3")
    seen = set()
    for b in F.fn_bodies():
        if is_bitflags_generated(b) or b.file == "src/syscalls.rs" or b.file.startswith("src/capi"):
            continue
        for t in b.calls("std::io::Error::from_raw_os_error"):
            es = {o.const_int(True) for o in T.origins_of_arg(t, 0) if o.kind == "const"}
            fk = fn_key(b)
            if b.kind == "closure":
                fk = fn_key(F.body(b.parent)) if F.has(b.parent) else fk
            for e in es or {None}:
                key = "%s:errno:%s" % (fk, e)
                if (fk, e) in ERRNO_TABLE:
                    if key not in seen:
                        out.append(holds("C04.R3", key, t.where(), ERRNO_TABLE[(fk, e)]))
                    seen.add(key)
                else:
                    out.append(violated("C04.R3", key, t.where(), "emulation synthesises errno %s in %s, which has no row in the kernel-behaviour table" % (e, fk)))
    for (fk, e) in ERRNO_TABLE:
        if "%s:errno:%s" % (fk, e) not in seen and (fk, e) not in OPTIONAL_ROWS:
            out.append(violated("C04.R3", "%s:errno:%s" % (fk, e), "", "expected synthesised errno %s in %s is gone (the emulation no longer reproduces this kernel result)" % (e, fk)))
    return out


def r4_path_bytes(ctx):
    out = []
    for i in c05.r8_path_fidelity(ctx):
        i.rule = "C04.R4"
        out.append(i)
    return out


# ------------------------------------------------------------------------------------------ R5 one-shot emulation
def r5_oneshot_emulation(ctx, rule="C04.R5"):
    """Shape of the emulated one-shot open (resolve + reopen) that reproduces openat2(path, flags):
    the trailing-symlink mode of the lookup is exactly O_NOFOLLOW; the lookup handle is returned as the result
    (no reopen, i.e. without applying the caller's other flags) only for a symlink that was asked for with O_PATH."""
    F = ctx.facts
    T = ctx.tracer
    out = []
    b = F.body("resolvers::Resolver::open")
    cfg = cfg_of(b)
    res = list(b.calls("resolvers::Resolver::resolve"))
    if len(res) != 1:
        return [violated(rule, "Resolver::open:shape", b.where(), "expected one resolve() in the emulated one-shot open")]
    r = res[0]
    o = T.origins_of_arg(r, 3)
    okm = bool(o)
    for x in o:
        if not (x.kind == "call" and (x.term.callee or "").endswith("OpenFlags>::contains") and x.term.args[1].is_const and
                x.term.args[1].int_value() == O_NOFOLLOW):
            okm = False
    if okm:
        out.append(holds(rule, "Resolver::open:nofollow-mode", r.where(), "trailing-symlink mode of the lookup = flags.contains(O_NOFOLLOW)"))
    else:
        out.append(violated(rule, "Resolver::open:nofollow-mode", r.where(),
                            "the trailing-symlink mode of the emulated one-shot open is not exactly 'O_NOFOLLOW requested' (%s): openat2 decides it from O_NOFOLLOW alone" % (o,)))
    # direct returns of the lookup handle
    sym = [t for t in b.calls("utils::fd::Metadata::is_symlink")]
    sym_true = [e.key() for t in sym for e in (bool_edges(b, t) or {"true": []})["true"]]
    opath_true = []
    for t in b.calls(re.compile(r"OpenFlags>::contains$")):
        if t.args[1].is_const and t.args[1].int_value() == O_PATH:
            be = bool_edges(b, t)
            if be:
                opath_true += [e.key() for e in be["true"]]
    direct = []
    after = cfg.reachable(r.target) if r.target is not None else set()
    # Ok(..) aggregates that flow into the return value (directly, or through the return slot of an inlined helper)
    ok_aggs = {id(o.stmt) for o in T.return_origins(b) if o.kind == "agg" and (o.detail or "").endswith("Result::Ok") and o.stmt is not None}
    for blk in b.blocks:
        if blk.cleanup or blk.idx not in after:
            continue
        for s_ in blk.stmts:
            if s_.kind == "assign" and s_.rv["k"] == "agg" and s_.rv.get("variant") == "Ok" and \
                    ((s_.lhs.is_local and s_.lhs.local == 0) or id(s_) in ok_aggs):
                direct.append((blk.idx, s_))
    if not sym or not opath_true:
        out.append(violated(rule, "Resolver::open:direct-return", b.where(), "the emulated one-shot open no longer tests is_symlink()/O_PATH (anchor drift)"))
    for (bb, s_) in direct:
        w = "%s:%d" % (b.file, s_.line)
        by_sym = bb in cfg.reachable(cfg.entry, cut_edges=sym_true)
        by_path = bb in cfg.reachable(cfg.entry, cut_edges=opath_true)
        if by_sym or by_path:
            out.append(violated(rule, "Resolver::open:direct-return", w,
                                "the lookup handle is returned without the reopen that applies the caller's flags although %s: O_PATH|O_DIRECTORY on a file succeeds and the result lacks the requested flags, unlike openat2"
                                % ("the target need not be a symlink" if by_sym else "O_PATH need not have been requested")))
        else:
            out.append(holds(rule, "Resolver::open:direct-return", w, "lookup handle returned as-is only for a symlink opened with O_PATH|O_NOFOLLOW"))
    # every other success goes through reopen with the caller's flags
    ro = T.return_origins(b, OKP)
    others = [x for x in ro if not (x.kind == "call" and x.term.callee in ("handle::Handle::reopen", "resolvers::openat2::open", "resolvers::Resolver::resolve"))]
    if others:
        out.append(violated(rule, "Resolver::open:result-origin", b.where(), "result of the one-shot open has another origin: %s" % others))
    else:
        out.append(holds(rule, "Resolver::open:result-origin", b.where(), "result = openat2::open | reopen(flags) | the symlink handle"))
    return out


# ------------------------------------------------------------------------------------------ R6 component queue
DROPPING = re.compile(r"std::iter::(Filter|FilterMap|SkipWhile|TakeWhile|Skip|Take|StepBy|Flatten|Peekable<std::iter::Filter)<")


def r6_component_queue(ctx, rule="C04.R6"):
    """The emulated walk must see every raw component ('' , '.', '..' included) of the path and of every link body:
    no dropping adaptor between the splitter and the queue."""
    F = ctx.facts
    out = []
    n = 0
    # (a) RawComponents::prepend pushes every item: no dropping adaptor, and every component obtained from the
    #     splitter reaches push_front (iterator-chain and explicit-loop spellings alike)
    pb = F.body("utils::path::RawComponents::<'_>::prepend")
    bodies = [pb] + F.closures_of(pb.path)
    drops = []
    for cb in bodies:
        for t in cb.calls():
            c = t.callee or ""
            if c.startswith(("std::iter::Iterator::", "std::iter::DoubleEndedIterator::")):
                tys = " ".join([t.f.get("full") or ""] + list(t.argtys or []))
                m = DROPPING.search(tys)
                if m or c.rsplit("::", 1)[-1] in ("filter", "filter_map", "skip_while", "take_while", "skip", "take", "step_by", "nth", "last", "find"):
                    drops.append((t, m.group(0) if m else c))
    n += 1
    if drops:
        for (t, what) in drops:
            out.append(violated(rule, "prepend:%s" % t.callee.rsplit("::", 1)[-1], t.where(), "components of a link body are dropped before they reach the walk (%s): a link to 'file/' then resolves where openat2 returns ENOTDIR" % what))
    else:
        out.append(holds(rule, "prepend:no-dropping-adaptor", pb.where(), "no dropping adaptor between the splitter and the queue"))
    pushed = False
    for cb in bodies:
        pushes = list(cb.calls(re.compile(r"VecDeque::<T, A>::push_front$")))
        if not pushes:
            continue
        pushed = True
        cfg = cfg_of(cb)
        n += 1
        if cb.kind == "closure":
            skip = any(x in cfg.reachable(cfg.entry, cut_nodes=[p_.bb for p_ in pushes]) for x in cfg.return_blocks())
        else:
            # explicit loop: from the edge on which next()/next_back() produced a component, the loop header is not
            # reachable again without passing a push
            skip = False
            loops = cfg.natural_loops()
            for t in cb.calls("std::iter::Iterator::next", "std::iter::DoubleEndedIterator::next_back"):
                r_ = result_edges(cb, t)
                hs = [h for h, blks in loops.items() if t.bb in blks]
                if not r_ or not hs:
                    continue
                some = r_.get("all_ok") or r_.get("ok") or []
                if any(hs[0] in cfg.edge_targets_reachable(some, cut_nodes=[p_.bb for p_ in pushes]) for _ in (0,)):
                    skip = True
        (out.append(violated(rule, "prepend:push", cb.where(), "a component taken from the splitter can be dropped without being pushed to the queue")) if skip else
         out.append(holds(rule, "prepend:push", cb.where(), "every component is pushed")))
    if not pushed:
        out.append(violated(rule, "prepend:push", pb.where(), "prepend no longer pushes to the front of the queue"))
    # (b) the initial queue of both walks
    for fn in ("resolvers::opath::imp::do_resolve", "resolvers::procfs::opath_resolve"):
        b = F.body(fn)
        for t in b.calls("std::iter::Iterator::collect"):
            ty = (t.argtys or [""])[0]
            if "RawComponents" not in ty or "VecDeque" not in (t.rty or ""):
                continue
            n += 1
            key = "%s:initial-queue" % fn.split("::")[-1]
            m = DROPPING.search(ty)
            (out.append(violated(rule, key, t.where(), "components of the path are dropped before the walk (%s)" % m.group(0))) if m else
             out.append(holds(rule, key, t.where(), "queue = every raw component of the path")))
    if n < 4:
        out.append(violated(rule, "component-queue:anchors", "", "queue producers not found (anchor drift)"))
    return out


# ------------------------------------------------------------------------------------------ R7 symlink stack
def symlink_stack_discipline(ctx, rule="C04.R7"):
    """The walk keeps the symlink stack in step with the component queue: inside do_resolve the stack is touched only
    through pop_part (a consumed component) and swap_link (a followed link) -- never re-created, cleared or assigned.
    (resolve_partial reports (handle, remaining) from the stack's top link, like openat2 does for a dangling link.)"""
    F = ctx.facts
    out = []
    b = F.body("resolvers::opath::imp::do_resolve")
    cfg = cfg_of(b)
    SS = "resolvers::opath::symlink_stack::SymlinkStack"
    allowed = ("::pop_part", "::swap_link")
    others = [t for t in b.calls(cleanup=False) if (t.callee or "").startswith(SS) and not (t.callee or "").endswith(allowed)]
    # assignments through the &mut Option<&mut SymlinkStack> parameter
    writes = []
    stack_ty = [l for l, ty in enumerate(b.local_tys) if ty and "SymlinkStack" in ty]
    for blk in b.blocks:
        if blk.cleanup:
            continue
        for s_ in blk.stmts:
            if s_.kind == "assign" and s_.lhs is not None and not s_.lhs.is_local and s_.lhs.local in stack_ty and "*" in [str(x) for x in s_.lhs.fields() if isinstance(x, str)] :
                writes.append(blk)
    key = "do_resolve:symlink-stack-only-pop-and-swap"
    if others or writes:
        w = others[0].where() if others else b.where()
        out.append(violated(rule, key, w, "the walk re-creates / assigns the symlink stack (%s): the (handle, remaining) reported for a dangling link no longer matches openat2" % (", ".join(sorted({t.callee.rsplit('::', 1)[-1] for t in others})) or "store through the stack reference")))
    else:
        out.append(holds(rule, key, b.where(), "stack touched only through pop_part/swap_link"))
    return out
    # tests `if let Some(stack) = symlink_stack`: the None edges legitimately skip the update
    none_edges = []
    for blk in b.blocks:
        if blk.cleanup or blk.term.kind != "switch":
            continue
        d = Operand(blk.term.raw["d"])
        if d.place is None:
            continue
        for o in ctx.tracer.origins(b, blk.idx, len(blk.stmts), d.place):
            if o.kind == "param" and o.detail == 5:
                none_edges += [e.key() for e in cfg.succ.get(blk.idx, []) if e.label == ("sw", 0)]
    hdr = [h for h, blks in loops.items() if pops[0].bb in blks]
    start = pops[0].target if hasattr(pops[0], "target") else None
    bad = False
    if hdr and start is not None:
        reach = cfg.reachable(start, cut_nodes=marks, cut_edges=none_edges, through_start=True)
        # a back edge source reachable without an update (and with a stack present)?
        back = [e for e in cfg.back_edges() if e.dst in hdr]
        bad = any(e.src in reach and e.src not in marks for e in back)
    (out.append(violated(rule, key2, pops[0].where(), "an iteration of the walk can consume a component without pop_part/swap_link although a symlink stack was supplied")) if bad else
     out.append(holds(rule, key2, pops[0].where(), "with a stack supplied, every path back to the loop header passes pop_part or swap_link")))
    return out


def r7_symlink_stack_tables(ctx, rule="C04.R7"):
    """Writer/reader agreement of the symlink stack: the components do_push() drops from a recorded link body are
    exactly those the walk never pops ('' is walked as '.', and do_pop() ignores '.'); '..' is recorded and popped."""
    F = ctx.facts
    from .c03 import excl
    X = excl(ctx)
    T = ctx.tracer
    out = []
    push = [b for b in F.fn_bodies() if b.path.endswith("SymlinkStack::<F>::do_push")]
    pop = [b for b in F.fn_bodies() if b.path.endswith("SymlinkStack::<F>::do_pop")]
    if not push or not pop:
        return [violated(rule, "symlink-stack:anchors", "", "do_push/do_pop not found")]
    pb, qb = push[0], pop[0]
    cls = []
    for t in pb.calls("std::iter::Iterator::collect"):
        cls += [c for c in X._closures_in_type((t.argtys or [""])[0], pb) if "Filter" in (t.argtys or [""])[0]]
    # only the closures that are filter predicates (bool-returning)
    cls = [c for c in cls if c.local_tys[0] == "bool"]
    dropped = {c for c in ("", ".", "..") if any(X._closure_rejects(cl, c) for cl in cls)}
    # do_pop: constants whose equality test leads to Ok(()) without touching the stack
    cfg = cfg_of(qb)
    touch = [t.bb for t in qb.calls(re.compile(r"VecDeque::<T, A>::(pop_front|front|get_mut|len)$"))]
    noop = set()
    for c in (".", "..", ""):
        for tst in const_eq_tests_(qb, T, c):
            tg = cfg.edge_targets_reachable(tst["true"], cut_nodes=touch)
            if any(x in tg for x in cfg.return_blocks()) and not any(x in cfg.edge_targets_reachable(tst["true"]) for x in touch):
                noop.add(c)
    want_dropped = noop | {""}
    if dropped == want_dropped and ".." not in dropped:
        out.append(holds(rule, "symlink-stack:noop-components", pb.where(), "do_push drops %s; do_pop ignores %s ('' is walked as '.')" % (sorted(dropped), sorted(noop))))
    else:
        out.append(violated(rule, "symlink-stack:noop-components", pb.where(),
                            "do_push drops %s from recorded link bodies but the walk never pops %s: the stack desynchronises from the walk and partial lookups "
                            "(mkdir_all through such a link) fail or report the wrong remainder on the emulated backend only" % (sorted(dropped), sorted(want_dropped))))
    out.extend(symlink_stack_discipline(ctx, rule))
    return out


def const_eq_tests_(b, T, c):
    from ..cut import const_eq_tests
    return const_eq_tests(b, T, c)


def error_swaps(ctx, rule, want=lambda b: True):
    """A failing system call is reported as what it was: on the paths that exist only because a wrapper call failed
    (its Err arm, or an error-mapping closure applied to its result) no errno is made up from a constant.  The
    emulations synthesise kernel errnos for *situations* they detect themselves (table of R3), never as a
    re-labelling of another failure -- the kernel would have reported that failure itself."""
    from ..cut import failure_edges
    F = ctx.facts
    T = ctx.tracer
    out = []
    n = 0
    for b in F.fn_bodies():
        if is_bitflags_generated(b) or b.file == "src/syscalls.rs" or b.file.startswith("src/capi") or not want(b):
            continue
        fabs = [t for t in b.calls("std::io::Error::from_raw_os_error", "rustix::io::Errno::from_raw_os_error")
                if any(o.kind == "const" for o in T.origins_of_arg(t, 0))]
        fk = fn_key(b)
        if b.kind == "closure":
            # an error-mapping closure: takes the error of a failed call and answers with a constant errno
            n += 1
            takes_err = any(re.search(r"(syscalls::Error|std::io::Error|rustix::io::Errno|error::Error)\b", ty or "") for ty in b.local_tys[1:b.argc + 1])
            if fabs and takes_err:
                out.append(violated(rule, "%s:swap" % fk, fabs[0].where(), "an error-mapping closure replaces the error it is given with a constant errno (%s)" %
                                    sorted({o.const_int(True) for t in fabs for o in T.origins_of_arg(t, 0) if o.kind == "const"})))
            continue
        if not fabs:
            continue
        cfg = cfg_of(b)
        for t in b.calls():
            c = t.callee or ""
            if not (RX_WRAPPER.search(c) or os_entry_class(t)):
                continue
            fe = failure_edges(b, T, t)
            if not fe or not fe[0]:
                continue
            n += 1
            # blocks every path to which passes a failure edge of this call
            only_fail = set(cfg.precise_reach(fe[0])) - set(cfg.reachable(cfg.entry, cut_edges=[e.key() for e in fe[0]]))
            hit = [f for f in fabs if f.bb in only_fail]
            if hit:
                out.append(violated(rule, "%s:%s:swap" % (fk, c), hit[0].where(),
                                    "when %s fails, the caller is given a made-up errno (%s) instead of the failure the kernel reported" %
                                    (c, sorted({o.const_int(True) for f in hit for o in T.origins_of_arg(f, 0) if o.kind == "const"}))))
    if not out:
        out.append(holds(rule, "no-error-swap", "", "no constant errno is constructed on a path that exists only because a system call failed (%d failure paths / error closures examined)" % n))
    return out


PROBE = "syscalls::OPENAT2_IS_SUPPORTED::{closure#0}"


def r8_backend_probe(ctx, rule="C04.R8"):
    """Which backend a lookup runs on is decided once, by probing openat2.  The emulated backend exists for hosts
    where openat2 does not work -- missing (ENOSYS) or denied (seccomp EPERM, ...) alike -- so the probe may answer
    "supported" only when the probing call succeeded: whenever it failed the answer is the constant false."""
    from ..cut import failure_edges
    from ..dataflow import defuse
    from ..facts import Place
    F = ctx.facts
    T = ctx.tracer
    if not F.has(PROBE):
        return [violated(rule, "OPENAT2_IS_SUPPORTED:probe", "", "anchor %s not found" % PROBE)]
    b = F.body(PROBE)
    calls = list(b.calls("syscalls::openat2"))
    if len(calls) != 1:
        return [violated(rule, "OPENAT2_IS_SUPPORTED:probe", b.where(), "expected one probing openat2 call, found %d" % len(calls))]
    t = calls[0]
    ro = T.return_origins(b)

    def success_test(o, want="is_ok", depth=0):
        """o is `probe.is_ok()` or `!probe.is_err()`"""
        if o.kind == "call" and o.term.callee.endswith("::" + want):
            return all(x.kind == "call" and x.term is t for x in T.origins_of_arg(o.term, 0))
        if o.kind == "expr" and o.stmt is not None and o.stmt.rv.get("k") == "un" and o.stmt.rv.get("op") == "Not" and depth < 3:
            pos = [(blk.idx, i) for blk in b.blocks for i, st in enumerate(blk.stmts) if st is o.stmt]
            if not pos:
                return False
            inner = T.origins_of_operand(b, pos[0][0], pos[0][1], Operand(o.stmt.rv["a"]))
            return bool(inner) and all(success_test(x, "is_err" if want == "is_ok" else "is_ok", depth + 1) for x in inner)
        return False

    if ro and all(success_test(o) for o in ro):
        return [holds(rule, "OPENAT2_IS_SUPPORTED:probe", t.where(), "supported == the probing call succeeded (is_ok)")]
    fe = failure_edges(b, T, t)
    if fe is None:
        return [violated(rule, "OPENAT2_IS_SUPPORTED:probe", t.where(), "the probe's answer is not derived from success/failure of the probing call: %s" % sorted({repr(o) for o in ro})[:4])]
    cfg = cfg_of(b)
    after_fail = set(cfg.precise_reach(fe[0]))
    du = defuse(b)
    ret = Place({"l": 0, "p": []})
    bad = []
    n = 0
    for site in du.all_defs(0):
        bb = site[1]
        if bb not in after_fail:
            continue
        n += 1
        idx = site[2] + 1 if site[0] == "a" else len(b.blocks[bb].stmts) + 1
        o = T.origins(b, bb, idx, ret)
        if not o or not all(x.kind == "const" and x.const_int() == 0 for x in o):
            bad.append(", ".join(sorted({repr(x) for x in o}))[:200])
    if bad:
        return [violated(rule, "OPENAT2_IS_SUPPORTED:probe", t.where(), "openat2 can be reported as supported although the probing call failed (answer on the failure path: %s): "
                         "a host that denies openat2 would run every lookup on the kernel backend and fail instead of using the emulated one" % "; ".join(bad))]
    if not n:
        return [violated(rule, "OPENAT2_IS_SUPPORTED:probe", t.where(), "no answer is produced on the failure path of the probing call")]
    return [holds(rule, "OPENAT2_IS_SUPPORTED:probe", t.where(), "every answer on the failure path of the probing call is the constant false (%d assignment(s))" % n)]


def r9_emulated_policies(ctx):
    """Two kernel policies the emulated walk has to reproduce for the backends to agree: the number of symlinks a
    lookup may traverse (C01.R7) and the fs.protected_symlinks decision (C15.R1)."""
    from .c01 import r7_budget_vs_kernel
    from .c15 import r1_decision_table
    out = []
    for fn in (r7_budget_vs_kernel, r1_decision_table):
        for i in fn(ctx):
            i.rule = "C04.R9"
            out.append(i)
    return out


RULES = [
    ("C04.R1", r1_flag_preservation, 9, False),
    ("C04.R2", r2_validation_before_dispatch, 3, False),
    ("C04.R3", r3_synthesised_errnos, 10, False),
    ("C04.R4", r4_path_bytes, 18, False),
    ("C04.R5", r5_oneshot_emulation, 3, False),
    ("C04.R6", r6_component_queue, 4, False),
    ("C04.R7", r7_symlink_stack_tables, 1, False),
    ("C04.R8", r8_backend_probe, 1, False),
    ("C04.R9", r9_emulated_policies, 2, False),
]
