"""C04 — kernel and emulated resolver backends are observationally equivalent (thin structural claim)."""
import re

from ..bits import Bits, compose
from ..cfg import cfg_of
from ..common import *
from ..cut import bool_edges, result_edges
from ..engine import holds, unproven, violated
from ..facts import Operand, Place
from . import c05
from .c05 import shared, _cls, _local_bits
from .c07 import CREATION

EXPLANATION = ("C04: necessary structural conditions of backend equivalence: (R1) along both chains from the one-shot open's "
               "flags parameter to the raw open, access-mode and I/O-status bits are preserved and only O_CLOEXEC/O_NOCTTY/"
               "O_NOFOLLOW(/O_DIRECTORY for a trailing slash) are forced, identically on both backends; (R2) argument "
               "validation precedes the backend dispatch and the backend field is read only by the dispatch functions; (R3) "
               "every errno the emulation synthesises is tabulated against what openat2 returns in that situation; (R4) both "
               "backends hand the caller's path bytes to the kernel unmodified or fail (interior NUL, empty path).")
ASSUMPTIONS = ["equivalence of outcomes for concrete trees, partial-lookup results and the symlink stack are not decided: one of the two siblings is the kernel"]

STATUS_BITS = O_ACCMODE | O_APPEND | O_NONBLOCK | 0o10000 | 0o4010000 | 0o40000 | 0o1000000 | O_TRUNC | O_PATH   # + DSYNC SYNC DIRECT NOATIME
M32 = 0xffffffff

# chains: (function, callee, argument index, field, parameter local that carries the flags)
EMULATED_CHAIN = [
    ("resolvers::Resolver::open", "handle::Handle::reopen", 1, (), None),
    ("handle::Handle::reopen", "handle::HandleRef::<'_>::reopen", 1, (), 2),
    ("handle::HandleRef::<'_>::reopen", "utils::fd::FdExt::reopen", 2, (), 2),
    ("<Fd as utils::fd::FdExt>::reopen", "procfs::ProcfsHandle::open_follow", 3, (), 3),
    ("procfs::ProcfsHandle::open_follow", "syscalls::openat_follow", 2, (), 4),
    ("syscalls::openat_follow", "rustix::fs::openat", 2, (), 3),
]
KERNEL_CHAIN = [
    ("resolvers::Resolver::open", "resolvers::openat2::open", 3, (), None),
    ("resolvers::openat2::open", "syscalls::openat2", 2, ("flags",), 4),
    ("syscalls::openat2", "libc::syscall", 3, ("flags",), 3),
]


def _chain(ctx, chain, name):
    F = ctx.facts
    out = []
    forced = 0
    cleared_possible = 0
    for (fn, callee, ai, fields, plocal) in chain:
        b = F.body(fn)
        lb = _local_bits(ctx, fn)
        sites = list(b.calls(callee))
        key = "%s:%s->%s" % (name, fn_key(b), callee.split("::")[-1])
        if not sites:
            out.append(violated("C04.R1", key, b.where(), "link of the %s flag chain disappeared: %s no longer calls %s" % (name, fn_key(b), callee)))
            continue
        for t in sites:
            v = lb.arg_value(t, ai, fields)
            if v is None:
                continue
            # which source carries the caller's flags in this function
            srcs = {a.src for a in v.alts if a.src is not None}
            keep = M32
            for a in v.alts:
                keep &= a.keep if a.src is not None else 0
            lost = STATUS_BITS & ~keep & M32
            added = v.must_set & M32
            maybe_added = 0
            for a in v.alts:
                maybe_added |= a.s & ~(a.keep if a.src is not None else 0)
            clr = 0
            for a in v.alts:
                clr |= a.c & ~a.keep
            clr &= M32
            forced |= maybe_added
            bad = []
            if lost:
                bad.append("does not pass on caller bits %#o" % lost)
            if maybe_added & ~(O_CLOEXEC | O_NOCTTY | O_NOFOLLOW | O_DIRECTORY) & M32:
                bad.append("forces extra bits %#o" % (maybe_added & ~(O_CLOEXEC | O_NOCTTY | O_NOFOLLOW | O_DIRECTORY) & M32))
            if clr & ~O_NOFOLLOW:
                bad.append("clears bits %#o" % (clr & ~O_NOFOLLOW))
            if bad:
                out.append(violated("C04.R1", key, t.where(), "; ".join(bad)))
            else:
                out.append(holds("C04.R1", key, t.where(), "status/access bits preserved; forced %#o cleared %#o" % (maybe_added & M32, clr)))
    return out, forced & M32


def r1_flag_preservation(ctx):
    out = []
    o1, f1 = _chain(ctx, EMULATED_CHAIN, "emulated")
    o2, f2 = _chain(ctx, KERNEL_CHAIN, "kernel")
    out.extend(o1)
    out.extend(o2)
    # both backends force the same descriptor flags (O_NOFOLLOW/O_DIRECTORY are lookup-control bits and not part of the outcome)
    d1 = f1 & (O_CLOEXEC | O_NOCTTY)
    d2 = f2 & (O_CLOEXEC | O_NOCTTY)
    if d1 == d2 == (O_CLOEXEC | O_NOCTTY):
        out.append(holds("C04.R1", "forced-bits-agree", "", "both backends force O_CLOEXEC|O_NOCTTY"))
    else:
        out.append(violated("C04.R1", "forced-bits-agree", "", "descriptor flags forced by the backends differ: emulated %#o, kernel %#o" % (d1, d2)))
    return out


def r2_validation_before_dispatch(ctx):
    F = ctx.facts
    T = ctx.tracer
    ipa, pp = shared(ctx)
    out = []
    b = F.body("resolvers::Resolver::open")
    lb = _local_bits(ctx, b.path)
    for (callee, ai) in (("resolvers::openat2::open", 3), ("resolvers::Resolver::resolve", None), ("handle::Handle::reopen", 1)):
        for t in b.calls(callee):
            key = "Resolver::open:%s" % callee.split("::")[-1]
            # value of the flags local at this call: use the value passed, or the flags local's state
            v = lb.arg_value(t, ai) if ai is not None else None
            if v is None:
                st = lb.at_call(t)
                # find the OpenFlags-typed local holding the converted parameter
                cands = [k for k, val in (st or {}).items() if isinstance(k[0], int) and "OpenFlags" in b.local_tys[k[0]] and k[1] == () and any(a.src for a in val.alts)]
                v = st[cands[0]] if cands else None
            bad = []
            if v is None:
                bad = ["unknown"]
            else:
                for a in v.alts:
                    for nm, m in CREATION:
                        if not a.lacks(m):
                            bad.append(nm)
            if bad:
                out.append(violated("C04.R2", key, t.where(), "the backend is entered before %s has been refused: the two backends treat creation flags differently" % "/".join(sorted(set(bad)))))
            else:
                out.append(holds("C04.R2", key, t.where(), "O_CREAT/O_EXCL/O_TMPFILE refused before either backend runs"))
    # who reads the backend field
    readers = set()
    for fb in F.fn_bodies():
        if is_bitflags_generated(fb):
            continue
        for blk in fb.blocks:
            for s in blk.stmts:
                pls = [o.place for o in s.rv_operands() if o.place is not None]
                rp = s.rv_place()
                if rp is not None:
                    pls.append(rp)
                for pl in pls:
                    for pr in pl.proj:
                        if isinstance(pr, dict) and pr.get("n") == "backend" and "ResolverBackend" in pr.get("ty", ""):
                            readers.add(fn_key(fb))
    allowed = {"resolvers::Resolver::open", "resolvers::Resolver::resolve", "resolvers::Resolver::resolve_partial",
               "<resolvers::Resolver as std::clone::Clone>::clone", "<resolvers::Resolver as std::fmt::Debug>::fmt", "<resolvers::Resolver as std::cmp::PartialEq>::eq",
               "<resolvers::Resolver as std::cmp::Eq>::assert_fields_are_eq"}
    extra = readers - allowed
    if extra:
        out.append(violated("C04.R2", "backend-field:readers", "", "operations other than the three dispatch functions depend on the backend: %s" % sorted(extra)))
    else:
        out.append(holds("C04.R2", "backend-field:readers", "", "Resolver::backend is read only by open/resolve/resolve_partial (+derives): %s" % sorted(readers)))
    return out


# (function, errno) -> situation and what openat2 returns there
ERRNO_TABLE = {
    ("resolvers::opath::imp::do_resolve", ELOOP): "NO_SYMLINKS hit / link budget exhausted / absolute link on a magic-link filesystem: openat2 returns ELOOP",
    ("resolvers::opath::imp::do_resolve", ENOENT): "empty path: openat2 returns ENOENT",
    ("resolvers::opath::imp::may_follow_link", EACCES): "fs.protected_symlinks: the kernel returns EACCES",
    ("resolvers::Resolver::open", ENOTDIR): "O_DIRECTORY on a trailing symlink with O_NOFOLLOW: openat2 returns ENOTDIR",
    ("resolvers::Resolver::open", ELOOP): "O_NOFOLLOW (without O_PATH) on a trailing symlink: openat2 returns ELOOP",
    ("root::RootRef::mkdir_all", ENOENT): "'..' in the not-yet-existing tail: lookup through a missing component is ENOENT",
    ("<Fd as utils::fd::FdExt>::reopen", ELOOP): "reopen of a symlink handle (no kernel counterpart; documented)",
    ("procfs::verify_same_mnt", EXDEV): "RESOLVE_NO_XDEV: openat2 returns EXDEV",
    ("procfs::verify_is_procfs", EXDEV): "RESOLVE_NO_XDEV analogue for the fstype check",
    ("resolvers::procfs::opath_resolve", EXDEV): "'..' in the restricted procfs walk (RESOLVE_BENEATH analogue)",
    ("resolvers::procfs::opath_resolve", ELOOP): "NO_SYMLINKS / budget / absolute (magic) link: RESOLVE_NO_MAGICLINKS returns ELOOP",
}


def r3_synthesised_errnos(ctx):
    F = ctx.facts
    T = ctx.tracer
    out = []
    seen = set()
    for b in F.fn_bodies():
        if is_bitflags_generated(b) or b.file == "src/syscalls.rs" or b.file.startswith("src/capi"):
            continue
        for t in b.calls("std::io::Error::from_raw_os_error"):
            es = {o.const_int(True) for o in T.origins_of_arg(t, 0) if o.kind == "const"}
            fk = fn_key(b)
            if b.kind == "closure":
                fk = fn_key(F.body(b.parent)) if F.has(b.parent) else fk
            for e in es or {None}:
                key = "%s:errno:%s" % (fk, e)
                if (fk, e) in ERRNO_TABLE:
                    if key not in seen:
                        out.append(holds("C04.R3", key, t.where(), ERRNO_TABLE[(fk, e)]))
                    seen.add(key)
                else:
                    out.append(violated("C04.R3", key, t.where(), "emulation synthesises errno %s in %s, which has no row in the kernel-behaviour table" % (e, fk)))
    for (fk, e) in ERRNO_TABLE:
        if "%s:errno:%s" % (fk, e) not in seen:
            out.append(violated("C04.R3", "%s:errno:%s" % (fk, e), "", "expected synthesised errno %s in %s is gone (the emulation no longer reproduces this kernel result)" % (e, fk)))
    return out


def r4_path_bytes(ctx):
    out = []
    for i in c05.r8_path_fidelity(ctx):
        i.rule = "C04.R4"
        out.append(i)
    return out


RULES = [
    ("C04.R1", r1_flag_preservation, 9, False),
    ("C04.R2", r2_validation_before_dispatch, 3, False),
    ("C04.R3", r3_synthesised_errnos, 10, False),
    ("C04.R4", r4_path_bytes, 18, False),
]
