"""Loader for the vdrv fact file: bodies, blocks, calls, constants, tables."""
import json
import re


class AnchorMissing(Exception):
    """A rule names a function/static/callee that does not exist in the analysed tree."""


def parse_span(sp):
    # "src/foo.rs:12:5: 14:10"
    m = re.match(r"^(.*?):(\d+):(\d+): (\d+):(\d+)", sp or "")
    if not m:
        return (sp or "?", 0)
    return (m.group(1), int(m.group(2)))


class FE(str):
    """Field-path element that knows which enum variant the field belongs to."""
    __slots__ = ("hint",)

    def __new__(cls, name, hint=None):
        o = str.__new__(cls, name)
        o.hint = hint
        return o


def hint_of(e):
    return getattr(e, "hint", None)


class Place:
    __slots__ = ("local", "proj")

    def __init__(self, j):
        self.local = j["l"]
        self.proj = j["p"]

    @property
    def is_local(self):
        return not self.proj

    def fields(self):
        """Field path with derefs/downcasts stripped: list of field names/indices.  An element that was reached
        through a downcast (`(x as Ok).0`) remembers the variant as `.hint` (it still compares as a plain str)."""
        out = []
        dc = None
        for p in self.proj:
            if isinstance(p, dict) and "dc" in p:
                dc = p["dc"]
            elif isinstance(p, dict) and "f" in p:
                out.append(FE(p["n"], dc) if dc is not None else p["n"])
                dc = None
        return out

    def key(self):
        return (self.local, json.dumps(self.proj, sort_keys=True))

    def __repr__(self):
        s = "_%d" % self.local
        for p in self.proj:
            if p == "*":
                s = "(*%s)" % s
            elif isinstance(p, dict) and "f" in p:
                s += ".%s" % p["n"]
            elif isinstance(p, dict) and "dc" in p:
                s = "(%s as %s)" % (s, p["dc"])
            elif isinstance(p, dict) and "idx" in p:
                s += "[_%d]" % p["idx"]
            elif isinstance(p, dict) and "ci" in p:
                s += "[%s%d]" % ("-" if p.get("fe") else "", p["ci"])
            else:
                s += "{%s}" % (p,)
        return s


class Operand:
    """kind: 'copy' | 'move' | 'const'."""
    __slots__ = ("kind", "place", "const")

    def __init__(self, j):
        if "c" in j:
            self.kind, self.place, self.const = "copy", Place(j["c"]), None
        elif "m" in j:
            self.kind, self.place, self.const = "move", Place(j["m"]), None
        elif "k" in j:
            self.kind, self.place, self.const = "const", None, j["k"]
        else:
            self.kind, self.place, self.const = "other", None, j

    @property
    def is_const(self):
        return self.kind == "const"

    def int_value(self, signed=False):
        if self.const is None:
            return None
        if signed:
            return self.const.get("i")
        return self.const.get("u")

    def bytes_value(self):
        """Byte string behind a constant (following one pointer hop for &&[u8;N])."""
        c = self.const
        if c is None:
            return None
        return const_bytes(c)

    def static(self):
        if self.const is None:
            return None
        return self.const.get("static")

    def fn(self):
        if self.const is None:
            return None
        return self.const.get("fn")

    def __repr__(self):
        if self.kind == "const":
            c = self.const
            if "u" in c:
                return "const %s:%s" % (c.get("i"), c.get("ty"))
            if "bytes" in c:
                return "const %r" % c["bytes"]
            if "static" in c:
                return "static %s" % c["static"]
            if "fn" in c:
                return "fn %s" % c["fn"]
            return "const<%s>" % c.get("ty")
        return "%s %r" % (self.kind, self.place)


def const_bytes(c):
    if "bytes" in c and not c.get("ptrs"):
        return c["bytes"]
    if c.get("ptrs"):
        # a reference to a reference: follow the first pointer
        p = c["ptrs"][0]
        b = const_bytes(p)
        if b is not None and "fatlen" in p:
            return b[: p["fatlen"]] if "\\x" not in b else b
        return b
    return c.get("bytes")


class Stmt:
    __slots__ = ("kind", "lhs", "rv", "sp", "x", "raw")

    def __init__(self, j):
        self.raw = j
        self.kind = j["k"]
        self.lhs = Place(j["lhs"]) if "lhs" in j else None
        self.rv = j.get("rv")
        self.sp = j.get("sp")
        self.x = j.get("x") or []

    @property
    def line(self):
        return parse_span(self.sp)[1]

    def rv_operands(self):
        rv = self.rv
        if rv is None:
            return []
        k = rv["k"]
        if k in ("use", "repeat", "cast", "un"):
            return [Operand(rv["a"])]
        if k == "bin":
            return [Operand(rv["a"]), Operand(rv["b"])]
        if k == "agg":
            return [Operand(o) for o in rv["ops"]]
        return []

    def rv_place(self):
        rv = self.rv
        if rv is None:
            return None
        if rv["k"] in ("ref", "rawptr", "discr"):
            return Place(rv["p"])
        return None


class Term:
    __slots__ = ("kind", "raw", "body", "bb")

    def __init__(self, j, body, bb):
        self.raw = j or {"k": "none"}
        self.kind = self.raw["k"]
        self.body = body
        self.bb = bb

    # ---- call accessors
    @property
    def f(self):
        return self.raw.get("f") or {}

    @property
    def callee(self):
        """Trait-item / function path as written at the call (visible path)."""
        return self.f.get("path")

    @property
    def resolved(self):
        return self.f.get("rpath") or self.f.get("path")

    @property
    def names(self):
        f = self.f
        return {f.get(k) for k in ("path", "dpath", "rpath", "rdpath") if f.get(k)}

    @property
    def full(self):
        return self.f.get("full")

    @property
    def unresolved(self):
        return bool(self.f.get("unres"))

    @property
    def args(self):
        return [Operand(a) for a in self.raw.get("args", [])]

    @property
    def argtys(self):
        return self.raw.get("argtys", [])

    @property
    def dest(self):
        return Place(self.raw["dest"]) if "dest" in self.raw else None

    @property
    def rty(self):
        return self.raw.get("rty")

    @property
    def target(self):
        return self.raw.get("t")

    @property
    def unwind(self):
        return self.raw.get("u")

    @property
    def sp(self):
        return self.raw.get("sp")

    @property
    def line(self):
        return parse_span(self.raw.get("sp"))[1]

    @property
    def file(self):
        return parse_span(self.raw.get("sp"))[0]

    @property
    def x(self):
        return self.raw.get("x") or []

    @property
    def fx(self):
        return self.raw.get("fx") or []

    def is_call(self, *pats):
        if self.kind != "call":
            return False
        if not pats:
            return True
        ns = self.names
        for p in pats:
            if hasattr(p, "search"):
                if any(p.search(n) for n in ns):
                    return True
            elif p in ns:
                return True
        return False

    def where(self):
        return "%s:%d" % (self.file, self.line)

    def __repr__(self):
        if self.kind == "call":
            return "call %s @%s" % (self.callee or self.f, self.where())
        return "%s @bb%d" % (self.kind, self.bb)


class Block:
    __slots__ = ("idx", "cleanup", "stmts", "term")

    def __init__(self, idx, j, body):
        self.idx = idx
        self.cleanup = j["cleanup"]
        self.stmts = [Stmt(s) for s in j["stmts"]]
        self.term = Term(j["term"], body, idx)


class Body:
    def __init__(self, j):
        self.raw = j
        self.path = j["path"]
        self.kind = j["kind"]
        self.span = j["span"]
        self.file, self.line = parse_span(self.span)
        self.argc = j["argc"]
        self.local_tys = [l["ty"] for l in j["locals"]]
        self.parent = j.get("parent")
        self.upvars = j.get("upvars") or []
        self.blocks = [Block(i, b, self) for i, b in enumerate(j["blocks"])]
        self.names = {}
        self.arg_names = {}
        for d in j.get("dbg", []):
            pl = Place(d["place"])
            if pl.is_local:
                self.names.setdefault(pl.local, d["name"])
            if d.get("arg") is not None and pl.is_local:
                self.arg_names[pl.local] = d["name"]
        self.no_mangle = j.get("no_mangle", False)
        self.abi = j.get("abi")
        self.is_pub = j.get("pub", False)
        self.reachable = j.get("reachable", False)
        self.impl_trait = j.get("impl_trait")
        self.impl_self = j.get("impl_self")

    def calls(self, *pats, cleanup=False):
        for b in self.blocks:
            if b.cleanup and not cleanup:
                continue
            if b.term.kind == "call" and b.term.is_call(*pats):
                yield b.term

    def local_name(self, l):
        return self.names.get(l, "_%d" % l)

    def where(self):
        return "%s:%d" % (self.file, self.line)

    def __repr__(self):
        return "<Body %s>" % self.path


class Facts:
    def __init__(self, path, normalise=True):
        with open(path) as fh:
            text = fh.read()
        self.renames = {}
        self.inlined = {}
        if normalise:
            from .anchors import normalise as _norm
            j, self.renames, self.inlined = _norm(text)
        else:
            j = json.loads(text)
        self.raw = j
        self.nonce = j["nonce"]
        self.bodies = []
        self.by_path = {}
        for bj in j["bodies"]:
            b = Body(bj)
            self.bodies.append(b)
            self.by_path.setdefault(b.path, []).append(b)
        self.consts = {c["path"]: c for c in j["consts"]}
        self.statics = {s["path"]: s for s in j["statics"]}
        self.adts = {a["path"]: a for a in j["adts"]}
        self.externs = j["externs"]
        self.impls = j["impls"]
        # closure children
        self.children = {}
        for b in self.bodies:
            if b.parent:
                self.children.setdefault(b.parent, []).append(b)

    def body(self, path):
        bs = self.by_path.get(path)
        if not bs:
            raise AnchorMissing("function %r not found in the analysed crate" % path)
        return bs[0]

    def has(self, path):
        return path in self.by_path

    def find(self, pat):
        rx = re.compile(pat)
        return [b for b in self.bodies if rx.search(b.path)]

    def fn_bodies(self):
        return [b for b in self.bodies if b.kind in ("fn", "assoc_fn", "closure")]

    def closures_of(self, path, recursive=True):
        out = []
        for c in self.children.get(path, []):
            out.append(c)
            if recursive:
                out.extend(self.closures_of(c.path, True))
        return out

    def const_value(self, path, signed=False):
        c = self.consts.get(path)
        if c is None:
            raise AnchorMissing("constant %r not found" % path)
        return c["i"] if signed else c["u"]

    def impls_of(self, trait):
        return [i for i in self.impls if i["trait"] == trait]

    def impl_methods(self, trait_item):
        """All crate impl items implementing a given trait item path."""
        out = []
        for i in self.impls:
            for m in i["methods"]:
                if m["trait_item"] == trait_item:
                    out.append(m["impl_item"])
        return out
