"""Rename tolerance.  The rules name functions of /repo by path.  A behaviour-preserving rename or move of a
function (and of its call sites) must not turn every rule anchored on it into an 'anchor missing' alarm.

engine/anchors.json holds, for every function of the tree the rules were confirmed on, a fingerprint
(signature, callee multiset).  When a fact file lacks some of those paths and has functions that are not in
the table, the missing ones are matched to the new ones by fingerprint (same signature, most similar callee
multiset, unambiguous); each match is applied by renaming the new path back to the known one everywhere in
the fact file before the rules see it.  No match -> nothing is renamed and the anchored rule fails closed as
before.  The renames applied are reported in the evidence."""
import json
import os
import re

ANCHORS = os.path.join(os.path.dirname(os.path.dirname(os.path.abspath(__file__))), "anchors.json")
KINDS = ("fn", "assoc_fn")
MIN_SCORE = 0.6
MARGIN = 0.1


def fingerprint(bj, rename=None):
    """Signature + callee multiset of a body (JSON form)."""
    callees = {}
    for blk in bj["blocks"]:
        t = blk.get("term") or {}
        if t.get("k") == "call" and not blk.get("cleanup"):
            f = t.get("f") or {}
            n = f.get("rpath") or f.get("path") or "?"
            callees[n] = callees.get(n, 0) + 1
    tys = [l["ty"] for l in bj["locals"][:bj["argc"] + 1]]
    return {"sig": tys, "argc": bj["argc"], "callees": callees, "file": (bj.get("span") or "").split(":")[0],
            "abi": bj.get("abi"), "pub": bj.get("pub", False)}


def build(facts_json):
    out = {}
    for bj in facts_json["bodies"]:
        if bj["kind"] in KINDS:
            out.setdefault(bj["path"], fingerprint(bj))
    return out


def _norm_ty(t, path_map):
    return t


def _score(a, b, aname, bname):
    """Similarity of two fingerprints (0..1); the function's own name inside its callee set (recursion) is
    normalised."""
    if a["argc"] != b["argc"] or a.get("abi") != b.get("abi"):
        return 0.0
    if [re.sub(r"'\w+", "'_", x) for x in a["sig"]] != [re.sub(r"'\w+", "'_", x) for x in b["sig"]]:
        return 0.0
    ca = dict(a["callees"])
    cb = dict(b["callees"])
    if aname in ca:
        ca["<self>"] = ca.pop(aname)
    if bname in cb:
        cb["<self>"] = cb.pop(bname)
    keys = set(ca) | set(cb)
    if not keys:
        # leaf functions: the signature is all there is; accept only when the module is unchanged
        return 0.65 if a["file"] == b["file"] else 0.0
    inter = sum(min(ca.get(k, 0), cb.get(k, 0)) for k in keys)
    union = sum(max(ca.get(k, 0), cb.get(k, 0)) for k in keys)
    s = inter / union if union else 0.0
    if a["file"] == b["file"]:
        s = min(1.0, s + 0.1)
    return s


def detect_renames(facts_json, table):
    present = {bj["path"]: bj for bj in facts_json["bodies"] if bj["kind"] in KINDS}
    missing = [p for p in table if p not in present]
    fresh = [p for p in present if p not in table]
    if not missing or not fresh:
        return {}
    fps = {p: fingerprint(present[p]) for p in fresh}
    # callees of the new functions may themselves mention renamed callees; iterate twice with the partial map
    result = {}
    for _round in range(2):
        inv = {v: k for k, v in result.items()}
        cand = {}
        for m in missing:
            if m in inv:
                continue
            scored = []
            for f in fresh:
                if f in result:
                    continue
                fp = dict(fps[f])
                fp["callees"] = {result.get(k, k): v for k, v in fp["callees"].items()}
                s = _score(table[m], fp, m, result.get(f, f))
                if s > 0:
                    scored.append((s, f))
            scored.sort(reverse=True)
            if scored and scored[0][0] >= MIN_SCORE and (len(scored) == 1 or scored[0][0] - scored[1][0] >= MARGIN):
                cand[m] = scored[0]
        # one new function may be claimed by one missing anchor only
        claimed = {}
        for m, (s, f) in cand.items():
            if f not in claimed or claimed[f][0] < s:
                claimed[f] = (s, m)
        for f, (s, m) in claimed.items():
            result[f] = m
    return result


def apply_renames(raw_text, renames):
    """Textual rename of paths in the fact file (whole path tokens only)."""
    for new, old in sorted(renames.items(), key=lambda kv: -len(kv[0])):
        rx = re.compile(r"(?<![A-Za-z0-9_:])" + re.escape(new) + r"(?![A-Za-z0-9_])")
        raw_text = rx.sub(old.replace("\\", "\\\\"), raw_text)
    return raw_text


def normalise(raw_text):
    """-> (possibly rewritten fact text, {new path: known path})"""
    if not os.path.exists(ANCHORS):
        return raw_text, {}
    try:
        table = json.load(open(ANCHORS))["functions"]
    except Exception:
        return raw_text, {}
    j = json.loads(raw_text)
    ren = detect_renames(j, table)
    if not ren:
        return raw_text, {}
    # JSON-escape aware: paths contain no characters that JSON escapes except none in practice
    return apply_renames(raw_text, ren), ren
