"""Rename tolerance.  The rules name functions of /repo by path.  A behaviour-preserving rename or move of a
function (and of its call sites) must not turn every rule anchored on it into an 'anchor missing' alarm.

engine/anchors.json holds, for every function of the tree the rules were confirmed on, a fingerprint
(signature, callee multiset).  When a fact file lacks some of those paths and has functions that are not in
the table, the missing ones are matched to the new ones by fingerprint (same signature, most similar callee
multiset, unambiguous); each match is applied by renaming the new path back to the known one everywhere in
the fact file before the rules see it.  No match -> nothing is renamed and the anchored rule fails closed as
before.  The renames applied are reported in the evidence."""
import json
import os
import re

ANCHORS = os.path.join(os.path.dirname(os.path.dirname(os.path.abspath(__file__))), "anchors.json")
KINDS = ("fn", "assoc_fn")
MIN_SCORE = 0.6
LOW_SCORE = 0.3
MARGIN = 0.1


NOISE = re.compile(r"^(std|core|alloc)::(result|option|convert|ops|borrow|clone|iter|cmp|fmt|mem|boxed|rc)::|^<[^>]* as (std|core)::(convert|ops|clone|cmp|borrow)::")


def _weight(callee):
    if NOISE.search(callee) or callee.startswith(("<T as std::convert", "std::result::Result::", "std::option::Option::")):
        return 0.3
    if not callee.startswith(("std::", "core::", "alloc::", "<std::", "<core::")):
        return 3.0      # the crate's own functions, rustix and libc entries: what the function is about
    return 1.0


def fingerprint(bj, children=None):
    """Signature + callee multiset of a body (JSON form); `children` maps a path to its closure bodies, whose callees
    are folded in (rewriting a closure chain as explicit control flow must not change the fingerprint much)."""
    callees = {}

    def scan(b):
        for blk in b["blocks"]:
            t = blk.get("term") or {}
            if t.get("k") == "call" and not blk.get("cleanup"):
                f = t.get("f") or {}
                n = f.get("rpath") or f.get("path") or "?"
                callees[n] = callees.get(n, 0) + 1
        for c in (children or {}).get(b["path"], []):
            scan(c)
    scan(bj)
    tys = [l["ty"] for l in bj["locals"][:bj["argc"] + 1]]
    return {"sig": tys, "argc": bj["argc"], "callees": callees, "file": (bj.get("span") or "").split(":")[0],
            "abi": bj.get("abi"), "pub": bj.get("pub", False)}


def _children(facts_json):
    ch = {}
    for bj in facts_json["bodies"]:
        if bj["kind"] == "closure" and bj.get("parent"):
            ch.setdefault(bj["parent"], []).append(bj)
    return ch


def build(facts_json):
    out = {}
    ch = _children(facts_json)
    for bj in facts_json["bodies"]:
        if bj["kind"] in KINDS or bj["kind"] == "closure":
            fp = fingerprint(bj, ch)
            fp["kind"] = bj["kind"]
            out.setdefault(bj["path"], fp)
    return out


def _closure_parent(path):
    return re.sub(r"::\{closure#\d+\}$", "", path)


def _norm_ty(t, path_map):
    return t


def _score(a, b, aname, bname):
    """Similarity of two fingerprints (0..1); the function's own name inside its callee set (recursion) is
    normalised."""
    if a["argc"] != b["argc"] or a.get("abi") != b.get("abi"):
        return 0.0
    penalty = 0.0
    if [re.sub(r"'\w+", "'_", x) for x in a["sig"]] != [re.sub(r"'\w+", "'_", x) for x in b["sig"]]:
        penalty = 0.15      # e.g. a generic parameter replaced by a concrete type
    ca = dict(a["callees"])
    cb = dict(b["callees"])
    if aname in ca:
        ca["<self>"] = ca.pop(aname)
    if bname in cb:
        cb["<self>"] = cb.pop(bname)
    keys = set(ca) | set(cb)
    if not keys:
        # leaf functions: the signature is all there is; accept only when the module is unchanged
        return (0.65 - penalty) if a["file"] == b["file"] else 0.0
    inter = sum(_weight(k) * min(ca.get(k, 0), cb.get(k, 0)) for k in keys)
    union = sum(_weight(k) * max(ca.get(k, 0), cb.get(k, 0)) for k in keys)
    s = inter / union if union else 0.0
    if a["file"] == b["file"]:
        s = min(1.0, s + 0.1)
    return max(0.0, s - penalty)


def detect_renames(facts_json, table):
    present = {bj["path"]: bj for bj in facts_json["bodies"] if bj["kind"] in KINDS}
    missing = [p for p in table if p not in present]
    fresh = [p for p in present if p not in table]
    if not missing or not fresh:
        return {}
    ch = _children(facts_json)
    fps = {p: fingerprint(present[p], ch) for p in fresh}
    # callees of the new functions may themselves mention renamed callees; iterate twice with the partial map
    result = {}
    for _round in range(2):
        inv = {v: k for k, v in result.items()}
        cand = {}
        for m in missing:
            if m in inv:
                continue
            scored = []
            for f in fresh:
                if f in result:
                    continue
                fp = dict(fps[f])
                fp["callees"] = {result.get(k, k): v for k, v in fp["callees"].items()}
                s = _score(table[m], fp, m, result.get(f, f))
                if s > 0:
                    scored.append((s, f))
            scored.sort(reverse=True)
            if scored and scored[0][0] >= MIN_SCORE and (len(scored) == 1 or scored[0][0] - scored[1][0] >= MARGIN):
                cand[m] = scored[0]
            elif scored and scored[0][0] >= LOW_SCORE and (len(scored) == 1 or scored[0][0] - scored[1][0] >= MARGIN) and \
                    table[m]["file"] == fps[scored[0][1]]["file"] and table[m]["sig"][:1] == fps[scored[0][1]]["sig"][:1]:
                # a function of the same file with the same return type whose body was rewritten: accept only as a mutual best match
                f = scored[0][1]
                back = sorted(((_score(table[m2], fps[f], m2, f), m2) for m2 in missing), reverse=True)
                if back and back[0][1] == m and (len(back) == 1 or back[0][0] - back[1][0] >= MARGIN):
                    cand[m] = scored[0]
        # one new function may be claimed by one missing anchor only
        claimed = {}
        for m, (s, f) in cand.items():
            if f not in claimed or claimed[f][0] < s:
                claimed[f] = (s, m)
        for f, (s, m) in claimed.items():
            result[f] = m
    return result


def apply_renames(raw_text, renames):
    """Textual rename of paths in the fact file (whole path tokens only; two-phase, so swaps are safe)."""
    items = sorted(renames.items(), key=lambda kv: -len(kv[0]))
    for n, (new, _old) in enumerate(items):
        rx = re.compile(r"(?<![A-Za-z0-9_:])" + re.escape(new) + r"(?![A-Za-z0-9_])")
        raw_text = rx.sub(lambda _m, n=n: "@@RENAMED%d@@" % n, raw_text)
    for n, (_new, old) in enumerate(items):
        raw_text = raw_text.replace("@@RENAMED%d@@" % n, old)
    return raw_text


def _callee_score(a, b):
    ca, cb = a["callees"], b["callees"]
    keys = set(ca) | set(cb)
    if not keys:
        return 0.0
    inter = sum(_weight(k) * min(ca.get(k, 0), cb.get(k, 0)) for k in keys)
    union = sum(_weight(k) * max(ca.get(k, 0), cb.get(k, 0)) for k in keys)
    return inter / union if union else 0.0


def detect_closure_renames(j, table):
    """Closures whose index changed (a closure was added/removed before them, or they moved with an inlined helper to
    another parent position) and closures that were turned into named functions used as function values."""
    present = {bj["path"]: bj for bj in j["bodies"] if bj["kind"] in KINDS or bj["kind"] == "closure"}
    missing = [p for p, fp in table.items() if fp.get("kind") == "closure" and p not in present]
    if not missing:
        return {}, {}
    fresh_cl = [p for p, bj in present.items() if bj["kind"] == "closure" and p not in table]
    fresh_fn = [p for p, bj in present.items() if bj["kind"] in KINDS and p not in table]
    ren, conv = {}, {}
    ch = _children(j)
    for m in missing:
        par = _closure_parent(m)
        best = []
        for f in fresh_cl:
            if f in ren:
                continue
            if (present[f].get("parent") or _closure_parent(f)) != par:
                continue
            sc = _callee_score(table[m], fingerprint(present[f], ch))
            if not table[m]["callees"] and not fingerprint(present[f], ch)["callees"]:
                sc = 0.6
            best.append((sc, f, "closure"))
        par_body = None
        for bj in j["bodies"]:
            if bj["path"] == par:
                par_body = bj
        par_text = json.dumps(par_body["blocks"]) if par_body is not None else ""
        for f in fresh_fn:
            if f in conv:
                continue
            sc = _callee_score(table[m], fingerprint(present[f], ch))
            # the closure's parent now mentions the function as a value (`Lazy::new(named_fn)`): that is the closure
            if par_text and ('"fn": %s' % json.dumps(f)) in par_text:
                sc = max(sc, 0.9)
            if sc >= 0.75:
                best.append((sc, f, "fn"))
        best.sort(reverse=True)
        if best and best[0][0] >= 0.55 and (len(best) == 1 or best[0][0] - best[1][0] >= 0.05 or best[1][2] != best[0][2]):
            sc, f, kind = best[0]
            if kind == "closure":
                ren[f] = m
            else:
                conv[f] = m
    return ren, conv


def normalise(raw_text):
    """-> (fact dict, {new path: known path}, {fresh helper: [callers it was inlined into]})"""
    if not os.path.exists(ANCHORS):
        return json.loads(raw_text), {}, {}
    try:
        table = json.load(open(ANCHORS))["functions"]
    except Exception:
        return json.loads(raw_text), {}, {}
    j = json.loads(raw_text)
    ftable = {p: fp for p, fp in table.items() if fp.get("kind", "fn") != "closure"}
    allren = {}
    # (1) renamed / moved functions
    ren = detect_renames(j, ftable)
    if ren:
        j = json.loads(apply_renames(json.dumps(j), ren))
        allren.update(ren)
    # (2) closures turned into named functions (used as function values, so they cannot be inlined)
    _r, conv = detect_closure_renames(j, table)
    if conv:
        j = json.loads(apply_renames(json.dumps(j), conv))
        for bj in j["bodies"]:
            if bj["path"] in conv.values() and bj["kind"] in KINDS:
                bj["kind"] = "closure"
                bj["parent"] = _closure_parent(bj["path"])
                bj["converted_from_fn"] = True
        allren.update(conv)
    # (3) new helper functions are analysed inlined into their callers
    fresh = [bj["path"] for bj in j["bodies"] if bj["kind"] in KINDS and bj["path"] not in ftable]
    inl = {}
    if fresh:
        from .inline import inline_fresh
        inl = inline_fresh(j, fresh)
    # (4) closures whose index / parent changed
    cren, _c = detect_closure_renames(j, table)
    if cren:
        j = json.loads(apply_renames(json.dumps(j), cren))
        allren.update(cren)
    # (4b) closures that are called directly where they are defined are local helpers
    from .inline import inline_local_closure_calls
    inline_local_closure_calls(j)
    # (5) named booleans: keep the paths that decided a bool local apart up to the branch on it
    from .inline import decide_linear_bool_switches, split_bool_merges
    for bj in j["bodies"]:
        if bj["kind"] in KINDS or bj["kind"] == "closure":
            split_bool_merges(bj)
            decide_linear_bool_switches(bj)
    return j, allren, inl
