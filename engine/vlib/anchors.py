"""Rename tolerance.  The rules name functions of /repo by path.  A behaviour-preserving rename or move of a
function (and of its call sites) must not turn every rule anchored on it into an 'anchor missing' alarm.

engine/anchors.json holds, for every function of the tree the rules were confirmed on, a fingerprint
(signature, callee multiset).  When a fact file lacks some of those paths and has functions that are not in
the table, the missing ones are matched to the new ones by fingerprint (same signature, most similar callee
multiset, unambiguous); each match is applied by renaming the new path back to the known one everywhere in
the fact file before the rules see it.  No match -> nothing is renamed and the anchored rule fails closed as
before.  The renames applied are reported in the evidence."""
import json
import os
import re

ANCHORS = os.path.join(os.path.dirname(os.path.dirname(os.path.abspath(__file__))), "anchors.json")
KINDS = ("fn", "assoc_fn")
MIN_SCORE = 0.6
LOW_SCORE = 0.3
MARGIN = 0.1


NOISE = re.compile(r"^(std|core|alloc)::(result|option|convert|ops|borrow|clone|iter|cmp|fmt|mem|boxed|rc)::|^<[^>]* as (std|core)::(convert|ops|clone|cmp|borrow)::")


def _weight(callee):
    if NOISE.search(callee) or callee.startswith(("<T as std::convert", "std::result::Result::", "std::option::Option::")):
        return 0.3
    if not callee.startswith(("std::", "core::", "alloc::", "<std::", "<core::")):
        return 3.0      # the crate's own functions, rustix and libc entries: what the function is about
    return 1.0


def fingerprint(bj, children=None):
    """Signature + callee multiset of a body (JSON form); `children` maps a path to its closure bodies, whose callees
    are folded in (rewriting a closure chain as explicit control flow must not change the fingerprint much)."""
    callees = {}

    def scan(b):
        for blk in b["blocks"]:
            t = blk.get("term") or {}
            if t.get("k") == "call" and not blk.get("cleanup"):
                f = t.get("f") or {}
                n = f.get("rpath") or f.get("path") or "?"
                callees[n] = callees.get(n, 0) + 1
        for c in (children or {}).get(b["path"], []):
            scan(c)
    scan(bj)
    tys = [l["ty"] for l in bj["locals"][:bj["argc"] + 1]]
    return {"sig": tys, "argc": bj["argc"], "callees": callees, "file": (bj.get("span") or "").split(":")[0],
            "abi": bj.get("abi"), "pub": bj.get("pub", False)}


def _children(facts_json):
    ch = {}
    for bj in facts_json["bodies"]:
        if bj["kind"] == "closure" and bj.get("parent"):
            ch.setdefault(bj["parent"], []).append(bj)
    return ch


def build(facts_json):
    out = {}
    ch = _children(facts_json)
    for bj in facts_json["bodies"]:
        if bj["kind"] in KINDS or bj["kind"] == "closure":
            fp = fingerprint(bj, ch)
            fp["kind"] = bj["kind"]
            out.setdefault(bj["path"], fp)
    return out


def _closure_parent(path):
    return re.sub(r"::\{closure#\d+\}$", "", path)


def _norm_ty(t, path_map):
    return t


def _score(a, b, aname, bname):
    """Similarity of two fingerprints (0..1); the function's own name inside its callee set (recursion) is
    normalised."""
    if a["argc"] != b["argc"] or a.get("abi") != b.get("abi"):
        return 0.0
    penalty = 0.0
    if [re.sub(r"'\w+", "'_", x) for x in a["sig"]] != [re.sub(r"'\w+", "'_", x) for x in b["sig"]]:
        penalty = 0.15      # e.g. a generic parameter replaced by a concrete type
    ca = dict(a["callees"])
    cb = dict(b["callees"])
    if aname in ca:
        ca["<self>"] = ca.pop(aname)
    if bname in cb:
        cb["<self>"] = cb.pop(bname)
    keys = set(ca) | set(cb)
    if not keys:
        # leaf functions: the signature is all there is; accept only when the module is unchanged
        return (0.65 - penalty) if a["file"] == b["file"] else 0.0
    inter = sum(_weight(k) * min(ca.get(k, 0), cb.get(k, 0)) for k in keys)
    union = sum(_weight(k) * max(ca.get(k, 0), cb.get(k, 0)) for k in keys)
    s = inter / union if union else 0.0
    if a["file"] == b["file"]:
        s = min(1.0, s + 0.1)
    return max(0.0, s - penalty)


def detect_renames(facts_json, table):
    present = {bj["path"]: bj for bj in facts_json["bodies"] if bj["kind"] in KINDS}
    missing = [p for p in table if p not in present]
    fresh = [p for p in present if p not in table]
    if not missing or not fresh:
        return {}
    ch = _children(facts_json)
    fps = {p: fingerprint(present[p], ch) for p in fresh}
    # callees of the new functions may themselves mention renamed callees; iterate twice with the partial map
    result = {}
    for _round in range(2):
        inv = {v: k for k, v in result.items()}
        cand = {}
        for m in missing:
            if m in inv:
                continue
            scored = []
            for f in fresh:
                if f in result:
                    continue
                fp = dict(fps[f])
                fp["callees"] = {result.get(k, k): v for k, v in fp["callees"].items()}
                s = _score(table[m], fp, m, result.get(f, f))
                if s > 0:
                    scored.append((s, f))
            scored.sort(reverse=True)
            if scored and scored[0][0] >= MIN_SCORE and (len(scored) == 1 or scored[0][0] - scored[1][0] >= MARGIN):
                cand[m] = scored[0]
            elif scored and scored[0][0] >= LOW_SCORE and (len(scored) == 1 or scored[0][0] - scored[1][0] >= MARGIN) and \
                    table[m]["file"] == fps[scored[0][1]]["file"] and table[m]["sig"][:1] == fps[scored[0][1]]["sig"][:1]:
                # a function of the same file with the same return type whose body was rewritten: accept only as a mutual best match
                f = scored[0][1]
                back = sorted(((_score(table[m2], fps[f], m2, f), m2) for m2 in missing), reverse=True)
                if back and back[0][1] == m and (len(back) == 1 or back[0][0] - back[1][0] >= MARGIN):
                    cand[m] = scored[0]
        # one new function may be claimed by one missing anchor only
        claimed = {}
        for m, (s, f) in cand.items():
            if f not in claimed or claimed[f][0] < s:
                claimed[f] = (s, m)
        for f, (s, m) in claimed.items():
            result[f] = m
    return result


def apply_renames(raw_text, renames):
    """Textual rename of paths in the fact file (whole path tokens only; two-phase, so swaps are safe)."""
    items = sorted(renames.items(), key=lambda kv: -len(kv[0]))
    for n, (new, _old) in enumerate(items):
        rx = re.compile(r"(?<![A-Za-z0-9_:])" + re.escape(new) + r"(?![A-Za-z0-9_])")
        raw_text = rx.sub(lambda _m, n=n: "@@RENAMED%d@@" % n, raw_text)
    for n, (_new, old) in enumerate(items):
        raw_text = raw_text.replace("@@RENAMED%d@@" % n, old)
    return raw_text


def _callee_score(a, b):
    ca, cb = a["callees"], b["callees"]
    keys = set(ca) | set(cb)
    if not keys:
        return 0.0
    inter = sum(_weight(k) * min(ca.get(k, 0), cb.get(k, 0)) for k in keys)
    union = sum(_weight(k) * max(ca.get(k, 0), cb.get(k, 0)) for k in keys)
    return inter / union if union else 0.0


def detect_closure_renames(j, table):
    """Closures whose index changed (a closure was added/removed before them, or they moved with an inlined helper to
    another parent position) and closures that were turned into named functions used as function values."""
    present = {bj["path"]: bj for bj in j["bodies"] if bj["kind"] in KINDS or bj["kind"] == "closure"}
    missing = [p for p, fp in table.items() if fp.get("kind") == "closure" and p not in present]
    if not missing:
        return {}, {}
    fresh_cl = [p for p, bj in present.items() if bj["kind"] == "closure" and p not in table]
    fresh_fn = [p for p, bj in present.items() if bj["kind"] in KINDS and p not in table]
    ren, conv = {}, {}
    ch = _children(j)
    for m in missing:
        par = _closure_parent(m)
        best = []
        for f in fresh_cl:
            if f in ren:
                continue
            if (present[f].get("parent") or _closure_parent(f)) != par:
                continue
            sc = _callee_score(table[m], fingerprint(present[f], ch))
            if not table[m]["callees"] and not fingerprint(present[f], ch)["callees"]:
                sc = 0.6
            best.append((sc, f, "closure"))
        par_body = None
        for bj in j["bodies"]:
            if bj["path"] == par:
                par_body = bj
        par_text = json.dumps(par_body["blocks"]) if par_body is not None else ""
        # only initialiser closures of statics/consts are looked for among the named functions (`Lazy::new(init_fn)`):
        # a closure of an ordinary function that became a named helper is handled by inlining the helper instead
        par_is_static = par_body is not None and par_body.get("kind") in ("static", "const")
        for f in (fresh_fn if par_is_static else []):
            if f in conv:
                continue
            sc = _callee_score(table[m], fingerprint(present[f], ch))
            # the closure's parent now mentions the function as a value (`Lazy::new(named_fn)`): that is the closure
            if par_text and ('"fn": %s' % json.dumps(f)) in par_text:
                sc = max(sc, 0.9)
            if sc >= 0.75:
                best.append((sc, f, "fn"))
        best.sort(reverse=True)
        if best and best[0][0] >= 0.55 and (len(best) == 1 or best[0][0] - best[1][0] >= 0.05 or best[1][2] != best[0][2]):
            sc, f, kind = best[0]
            if kind == "closure":
                ren[f] = m
            else:
                conv[f] = m
    return ren, conv


def _closure_index(path):
    m = re.search(r"\{closure#(\d+)\}$", path)
    return int(m.group(1)) if m else -1


def _fp_equalish(a, b):
    """Similarity of two closure fingerprints including signature (closures with no calls compare by signature)."""
    sc = _callee_score(a, b)
    if not a["callees"] and not b["callees"]:
        sc = 0.7
    sa = [re.sub(r"'\w+", "'_", x) for x in a["sig"][:1] + a["sig"][2:]]
    sb = [re.sub(r"'\w+", "'_", x) for x in b["sig"][:1] + b["sig"][2:]]
    if a["argc"] != b["argc"] or sa != sb:
        sc -= 0.3
    return sc


def realign_closures(j, table):
    """Closure indices are positional: adding or removing one closure renumbers all later closures of the function.
    For every function whose closures no longer line up with the reference (some closure at index i looks unlike the
    reference closure i), the present closures are matched to the reference closures by fingerprint (ties broken by
    keeping the order); matched ones get the reference index back, unmatched ones (new closures) indices from 100 up."""
    ch = _children(j)
    by_parent = {}
    for bj in j["bodies"]:
        if bj["kind"] == "closure" and bj.get("parent"):
            by_parent.setdefault(bj["parent"], []).append(bj)
    tab_by_parent = {}
    for pth, fp in table.items():
        if fp.get("kind") == "closure":
            tab_by_parent.setdefault(_closure_parent(pth), []).append(pth)
    ren = {}
    for par, cls in by_parent.items():
        tcs = tab_by_parent.get(par)
        if not tcs:
            continue
        if any(c.get("converted_from_fn") for c in cls):
            continue        # matched explicitly a moment ago (named initialiser function of a static)
        cls = sorted(cls, key=lambda b: _closure_index(b["path"]))
        tcs = sorted(tcs, key=_closure_index)
        fps = {c["path"]: fingerprint(c, ch) for c in cls}
        # already aligned?
        aligned = all((c["path"] in table and _fp_equalish(table[c["path"]], fps[c["path"]]) >= 0.6) for c in cls) and len(cls) == len(tcs)
        if aligned:
            continue
        pairs = []
        for ci, c in enumerate(cls):
            for ti, tp in enumerate(tcs):
                sc = _fp_equalish(table[tp], fps[c["path"]])
                if sc >= 0.55:
                    pairs.append((sc, -abs(_closure_index(c["path"]) - _closure_index(tp)), ci, ti))
        pairs.sort(reverse=True)
        usedc, usedt = {}, set()
        for sc, _d, ci, ti in pairs:
            if ci in usedc or ti in usedt:
                continue
            # keep the relative order of the matched closures (an insertion shifts, it does not permute)
            ok = True
            for c2, t2 in usedc.items():
                if (c2 < ci) != (t2 < ti):
                    ok = False
            if not ok:
                continue
            usedc[ci] = ti
            usedt.add(ti)
        nxt = 100
        for ci, c in enumerate(cls):
            if ci in usedc:
                tgt = tcs[usedc[ci]]
            else:
                while ("%s::{closure#%d}" % (par, nxt)) in fps:
                    nxt += 1
                tgt = "%s::{closure#%d}" % (par, nxt)
                nxt += 1
            if tgt != c["path"]:
                ren[c["path"]] = tgt
    return ren


def normalise(raw_text):
    """-> (fact dict, {new path: known path}, {fresh helper: [callers it was inlined into]})"""
    if not os.path.exists(ANCHORS):
        return json.loads(raw_text), {}, {}
    try:
        table = json.load(open(ANCHORS))["functions"]
    except Exception:
        return json.loads(raw_text), {}, {}
    j = json.loads(raw_text)
    ftable = {p: fp for p, fp in table.items() if fp.get("kind", "fn") != "closure"}
    allren = {}
    # (1) renamed / moved functions
    ren = detect_renames(j, ftable)
    if ren:
        # a renamed trait shows as renamed impl methods: `<T as new::Trait>::m` -> `<T as old::Trait>::m`
        trait_ren = {}
        for new, old in ren.items():
            mn = re.match(r"^<(.*) as ([^<>]+)>::(\w+)$", new)
            mo = re.match(r"^<(.*) as ([^<>]+)>::(\w+)$", old)
            if mn and mo and mn.group(1) == mo.group(1) and mn.group(3) == mo.group(3) and mn.group(2) != mo.group(2):
                trait_ren[mn.group(2)] = mo.group(2)
        text = apply_renames(json.dumps(j), ren)
        if trait_ren:
            text = apply_renames(text, trait_ren)
            ren = dict(ren)
            ren.update(trait_ren)
        j = json.loads(text)
        allren.update(ren)
    # (2) closures turned into named functions (used as function values, so they cannot be inlined)
    _r, conv = detect_closure_renames(j, table)
    if conv:
        j = json.loads(apply_renames(json.dumps(j), conv))
        for bj in j["bodies"]:
            if bj["path"] in conv.values() and bj["kind"] in KINDS:
                bj["kind"] = "closure"
                bj["parent"] = _closure_parent(bj["path"])
                bj["converted_from_fn"] = True
        allren.update(conv)
    # (3) new helper functions are analysed inlined into their callers
    fresh = [bj["path"] for bj in j["bodies"] if bj["kind"] in KINDS and bj["path"] not in ftable]
    inl = {}
    if fresh:
        from .inline import inline_fresh
        inl = inline_fresh(j, fresh)
    # (4) closures whose index / parent changed
    cren, _c = detect_closure_renames(j, table)
    if cren:
        j = json.loads(apply_renames(json.dumps(j), cren))
        allren.update(cren)
    cren2 = realign_closures(j, table)
    if cren2:
        j = json.loads(apply_renames(json.dumps(j), cren2))
        allren.update({k: v for k, v in cren2.items() if v in table})
    # (4b) closures that are called directly where they are defined are local helpers
    from .inline import inline_local_closure_calls
    inline_local_closure_calls(j, known=set(table))
    # (5) named booleans: keep the paths that decided a bool local apart up to the branch on it
    from .inline import decide_linear_bool_switches, split_bool_merges
    for bj in j["bodies"]:
        if bj["kind"] in KINDS or bj["kind"] == "closure":
            split_bool_merges(bj)
            decide_linear_bool_switches(bj)
    return j, allren, inl
