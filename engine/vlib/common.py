"""Repository-specific tables shared by the rule modules: what counts as an OS entry, the
syscall-wrapper inventory, constants."""
import re

from .facts import FE

# field path of the payload of Ok(..): the variant hint keeps Err(..) payloads out of the answer
OKP = (FE("0", "Ok"),)

# ---- Linux constants used as references (x86_64 / generic values; the checker also reads the
# values rustc evaluated for the crate's own constants and compares where both are available)
O_ACCMODE = 0o3
O_CREAT = 0o100
O_EXCL = 0o200
O_NOCTTY = 0o400
O_TRUNC = 0o1000
O_APPEND = 0o2000
O_NONBLOCK = 0o4000
O_DIRECTORY = 0o200000
O_NOFOLLOW = 0o400000
O_CLOEXEC = 0o2000000
O_PATH = 0o10000000
O_TMPFILE_BIT = 0o20000000
O_TMPFILE = O_TMPFILE_BIT | O_DIRECTORY

AT_SYMLINK_NOFOLLOW = 0x100
AT_REMOVEDIR = 0x200
AT_SYMLINK_FOLLOW = 0x400
AT_NO_AUTOMOUNT = 0x800
AT_EMPTY_PATH = 0x1000
AT_RECURSIVE = 0x8000
AT_FDCWD = -100

RESOLVE_NO_XDEV = 0x01
RESOLVE_NO_MAGICLINKS = 0x02
RESOLVE_NO_SYMLINKS = 0x04
RESOLVE_BENEATH = 0x08
RESOLVE_IN_ROOT = 0x10

OPEN_TREE_CLONE = 1
OPEN_TREE_CLOEXEC = O_CLOEXEC
FSOPEN_CLOEXEC = 1
FSMOUNT_CLOEXEC = 1

SYS_openat2 = 437

ENOENT, EEXIST, EXDEV, ENOTDIR, EINVAL, ENOSYS, ELOOP, EACCES, EAGAIN = 2, 17, 18, 20, 22, 38, 40, 13, 11
ENAMETOOLONG = 36

S_IFMT = 0o170000

# ---- OS entry classification -----------------------------------------------------------
PURE_RUSTIX = {
    "rustix::fs::major", "rustix::fs::minor", "rustix::fs::makedev",
}
_RX_RUSTIX_FN = re.compile(r"^rustix::(fs|mount|io|process|thread|net|pipe|event|termios|time|mm|param|rand|stdio|system|pty|shm|ioctl)::[a-z_0-9]+$")
_RX_LIBC_FN = re.compile(r"^libc::[a-z_0-9]+$")
_RX_STD_FS = re.compile(r"^std::(fs|os::unix::fs|os::unix::net|net|process|env)::[a-z_0-9]+$")
_STD_FS_METHODS = re.compile(
    r"^std::fs::(File|OpenOptions|DirBuilder|DirEntry|ReadDir|Metadata)::(<.*>::)?(open|create|create_new|options|metadata|symlink_metadata|"
    r"set_permissions|set_len|sync_all|sync_data|try_clone|read_dir|path|file_type|open_buffered)$")
_STD_PATH_FS = re.compile(r"^std::path::Path::(exists|try_exists|metadata|symlink_metadata|read_link|canonicalize|read_dir|is_dir|is_file|is_symlink)$")
_DUP = re.compile(r"(BorrowedFd::<'_>::try_clone_to_owned|OwnedFd::try_clone|rustix::io::dup|rustix::io::fcntl_dupfd_cloexec)$")
_RUSTIX_DIR = re.compile(r"^rustix::fs::Dir::(read_from|new|read|rewind|stat|statfs|chdir|next)$")
_FDIO = re.compile(r"^std::io::(BufRead::read_line|BufRead::fill_buf|Read::read|Read::read_to_end|Read::read_to_string|Read::read_exact|Write::write|Write::write_all|Write::flush|Seek::seek)$")
_RAND = re.compile(r"^rand::(thread_rng|random)$")


def os_entry_class(term):
    """None, or one of 'path' (takes a path / creates a descriptor), 'dup', 'fdio', 'proc', 'rand'."""
    if term.kind != "call":
        return None
    for n in (term.callee,):
        if not n:
            continue
        if n in PURE_RUSTIX:
            return None
        if _RX_RUSTIX_FN.match(n):
            if n.startswith(("rustix::process::get", "rustix::thread::get")):
                return "proc"
            return "path"
        if _RUSTIX_DIR.match(n):
            return "path"
        if _RX_LIBC_FN.match(n):
            return "path"
        if _RX_STD_FS.match(n) or _STD_FS_METHODS.match(n) or _STD_PATH_FS.match(n):
            return "path"
        if _DUP.search(n):
            return "dup"
        if _FDIO.match(n):
            return "fdio"
        if _RAND.match(n):
            return "rand"
    return None


WRAPPERS = [
    "openat", "openat_follow", "openat2", "readlinkat", "mkdirat", "mknodat", "symlinkat", "linkat",
    "unlinkat", "renameat", "renameat2", "fstatat", "statx", "fstatfs", "open_tree", "fsopen",
    "fsconfig_set_string", "fsconfig_create", "fsmount", "gettid", "geteuid",
]
WRAPPER_PATHS = {"syscalls::" + w for w in WRAPPERS}
RX_WRAPPER = re.compile(r"^syscalls::(%s)$" % "|".join(WRAPPERS))

# wrappers that mutate the filesystem
MUTATING_WRAPPERS = {"syscalls::mkdirat", "syscalls::mknodat", "syscalls::symlinkat", "syscalls::linkat",
                     "syscalls::unlinkat", "syscalls::renameat", "syscalls::renameat2"}


def in_syscalls(body):
    p = body.path
    return p.startswith("syscalls::") or p.startswith("<Fd as syscalls::") or " as syscalls::" in p.split(">::")[0] and p.startswith("<syscalls::")


def is_bitflags_generated(body):
    p = body.path
    return "::_::" in p or p.startswith("flags::_") or body.file.startswith("/") or ".cargo" in body.file


def short(path):
    return path.replace("<'_>", "").replace("::<'_>", "")


def fn_key(body):
    """Function path without lifetime noise, used in violation keys."""
    return body.path.replace("::<'_>", "").replace("<'_>", "")


def decode_bytes(s):
    """Inverse of the extractor's byte-string escaping (printable ASCII kept, \\xNN otherwise)."""
    out = bytearray()
    i = 0
    while i < len(s):
        if s[i] == "\\" and s[i + 1:i + 2] == "x":
            out.append(int(s[i + 2:i + 4], 16))
            i += 4
        else:
            out.append(ord(s[i]))
            i += 1
    return bytes(out)


def errno_of_origin(o):
    """errno number named by a constant origin: libc::EXXX integer, or a rustix::io::Errno constant
    (stored as the negated value in a u16)."""
    if o.kind != "const":
        return None
    c = o.op.const
    ty = c.get("ty", "")
    if "rustix::io::Errno" in ty:
        if "u" in c:
            v = c["u"]
        else:
            b = c.get("bytes")
            if b is None:
                return None
            raw = decode_bytes(b)
            if len(raw) != 2:
                return None
            v = raw[0] | (raw[1] << 8)
        return (0x10000 - v) & 0xffff
    if "i" in c:
        return c["i"]
    return None
