"""ABI table extraction from the C header, the Go binding and the Python binding (text parsers that
fail closed on anything they do not understand)."""
import re


class ParseError(Exception):
    pass


# LP64 type table: name -> (class, size)
CTYPES = {
    "int": ("int", 4), "unsigned int": ("uint", 4), "unsigned": ("uint", 4), "uint32_t": ("uint", 4), "int32_t": ("int", 4),
    "uint64_t": ("uint", 8), "int64_t": ("int", 8), "size_t": ("uint", 8), "ssize_t": ("int", 8), "dev_t": ("uint", 8),
    "long": ("int", 8), "unsigned long": ("uint", 8), "char": ("int", 1), "void": ("void", 0), "bool": ("uint", 1),
    "uint16_t": ("uint", 2), "uint8_t": ("uint", 1), "mode_t": ("uint", 4),
}


def strip_comments(src):
    src = re.sub(r"/\*.*?\*/", " ", src, flags=re.S)
    src = re.sub(r"//[^\n]*", " ", src)
    return src


def tokenize(src):
    toks = re.findall(r"[A-Za-z_][A-Za-z_0-9]*|\d+|\.\.\.|[{}();,*=\[\]-]", src)
    return toks


class Header:
    def __init__(self, text, extra_typedefs=None):
        self.enums = {}        # enum name -> {const: value}
        self.typedefs = dict(extra_typedefs or {})     # name -> C type string
        self.structs = {}      # name -> {"aligned": n|None, "fields": [(ctype, name)], "open": bool}
        self.funcs = {}        # name -> {"ret": ctype, "params": [(ctype, name)]}
        self._parse(text)

    def _parse(self, text):
        text = strip_comments(text)
        text = re.sub(r"^\s*#.*$", "", text, flags=re.M)
        toks = tokenize(text)
        i = 0
        n = len(toks)

        def expect(t):
            nonlocal i
            if i >= n or toks[i] != t:
                raise ParseError("expected %r at token %d (%r)" % (t, i, toks[i:i + 6]))
            i += 1

        def parse_type_and_name(stop):
            """Parse 'const char *name' up to one of the stop tokens; returns (ctype, name)."""
            nonlocal i
            parts = []
            while i < n and toks[i] not in stop:
                parts.append(toks[i])
                i += 1
            if not parts:
                raise ParseError("empty declarator")
            if parts == ["void"]:
                return ("void", None)
            if parts == ["..."]:
                return ("...", None)
            name = None
            if re.match(r"[A-Za-z_]", parts[-1]) and parts[-1] not in ("int", "char", "void", "long", "unsigned") and len(parts) > 1:
                name = parts[-1]
                parts = parts[:-1]
            return (" ".join(parts), name)

        while i < n:
            t = toks[i]
            if t == "enum":
                i += 1
                name = toks[i]
                i += 1
                expect("{")
                vals = {}
                while toks[i] != "}":
                    cn = toks[i]
                    i += 1
                    expect("=")
                    neg = False
                    if toks[i] == "-":
                        neg = True
                        i += 1
                    v = int(toks[i])
                    i += 1
                    vals[cn] = -v if neg else v
                    if toks[i] == ",":
                        i += 1
                expect("}")
                expect(";")
                self.enums[name] = vals
            elif t == "typedef":
                i += 1
                if toks[i] == "struct":
                    i += 1
                    aligned = None
                    if toks[i] == "__CBINDGEN_ALIGNED":
                        i += 1
                        expect("(")
                        aligned = int(toks[i])
                        i += 1
                        expect(")")
                    if toks[i] != "{":
                        # typedef struct tag {..} name
                        i += 1
                    expect("{")
                    fields = []
                    open_ = False
                    while toks[i] != "}":
                        ct, nm = parse_type_and_name((";",))
                        expect(";")
                        if ct == "...":
                            open_ = True
                        else:
                            fields.append((ct, nm))
                    expect("}")
                    name = toks[i]
                    i += 1
                    expect(";")
                    self.structs[name] = {"aligned": aligned, "fields": fields, "open": open_}
                else:
                    ct, nm = parse_type_and_name((";",))
                    expect(";")
                    if nm is None:
                        raise ParseError("typedef without a name: %s" % ct)
                    self.typedefs[nm] = ct
            elif t == ";":
                i += 1
            else:
                # function prototype
                start = i
                ct, nm = parse_type_and_name(("(",))
                if nm is None:
                    raise ParseError("cannot parse declaration at %r" % toks[start:start + 8])
                expect("(")
                params = []
                while toks[i] != ")":
                    pt, pn = parse_type_and_name((",", ")"))
                    if pt != "void" or pn is not None:
                        params.append((pt, pn))
                    if toks[i] == ",":
                        i += 1
                expect(")")
                expect(";")
                self.funcs[nm] = {"ret": ct, "params": params}

    def classify(self, ctype):
        """-> dict(class, size, pointee, const)"""
        ct = ctype.strip()
        if ct.endswith("*"):
            base = ct[:-1].strip()
            const = base.startswith("const ")
            if const:
                base = base[6:].strip()
            return {"class": "ptr", "size": 8, "pointee": self.resolve(base), "const": const}
        r = self.resolve(ct)
        if r in CTYPES:
            c, s = CTYPES[r]
            return {"class": c, "size": s}
        if r in self.structs:
            return {"class": "aggregate", "size": None, "name": r}
        raise ParseError("unknown C type %r" % ctype)

    def resolve(self, name):
        seen = set()
        name = name.replace("enum ", "").strip()
        while name in self.typedefs and name not in seen:
            seen.add(name)
            name = self.typedefs[name].replace("enum ", "").strip()
        return name


# ---------------------------------------------------------------------------------------------- Go
def _balanced_args(src, start):
    """src[start] == '(' ; returns (list of top-level argument strings, index after ')')."""
    depth = 0
    i = start
    cur = ""
    args = []
    while i < len(src):
        ch = src[i]
        if ch in "([{":
            depth += 1
            if depth > 1:
                cur += ch
        elif ch in ")]}":
            depth -= 1
            if depth == 0:
                if cur.strip():
                    args.append(cur.strip())
                return args, i + 1
            cur += ch
        elif ch == "," and depth == 1:
            args.append(cur.strip())
            cur = ""
        else:
            cur += ch
        i += 1
    raise ParseError("unbalanced call")


GO_CASTS = {"C.int": ("int", 4), "C.uint": ("uint", 4), "C.ulong": ("uint", 8), "C.long": ("int", 8), "C.size_t": ("uint", 8),
            "C.dev_t": ("uint", 8), "C.uint32_t": ("uint", 4), "C.uint64_t": ("uint", 8), "C.ushort": ("uint", 2), "C.short": ("int", 2),
            "C.uchar": ("uint", 1), "C.longlong": ("int", 8), "C.ulonglong": ("uint", 8), "C.mode_t": ("uint", 4)}


def go_calls(text, header):
    """[(symbol, [arg class dicts], line)] for every C.pathrs_*(...) call; plus constants/fields referenced."""
    text_nc = re.sub(r"//[^\n]*", "", text)
    # drop the cgo preamble comment
    calls = []
    # function-local variable typing
    funcs = list(re.finditer(r"^func\s+(\w+)\s*\(([^)]*)\)", text_nc, flags=re.M))
    for fi, fm in enumerate(funcs):
        end = funcs[fi + 1].start() if fi + 1 < len(funcs) else len(text_nc)
        body = text_nc[fm.start():end]
        env = {}
        for p in fm.group(2).split(","):
            p = p.strip().split()
            if len(p) == 2:
                env[p[0]] = p[1]
        # parameters of function literals inside the body (a closure handed to a helper): typed like the function's own
        for lm in re.finditer(r"func\s*\(([^()]*)\)", body[fm.end() - fm.start():]):
            for p in lm.group(1).split(","):
                p = p.strip().split()
                if len(p) == 2 and p[0] not in env:
                    env[p[0]] = p[1]
        for am in re.finditer(r"(\w+)\s*:=\s*(C\.\w+)\(", body):
            if am.group(2).startswith("C.pathrs_") and am.group(2)[2:] in header.funcs:
                env[am.group(1)] = "ret:" + am.group(2)[2:]
            else:
                env[am.group(1)] = am.group(2) + "()"
        for m in re.finditer(r"C\.(pathrs_\w+)\(", body):
            sym = m.group(1)
            if sym in header.typedefs or sym in header.structs:
                continue   # a cast to a C type, not a call
            args, _ = _balanced_args(body, m.end() - 1)
            line = text_nc[:fm.start() + m.start()].count("\n") + 1
            classes = []
            for a in args:
                classes.append(_go_arg_class(a, env, header))
            calls.append((sym, classes, line, args))
    consts = sorted(set(re.findall(r"C\.(PATHRS_\w+)", text_nc)))
    types = sorted(set(re.findall(r"C\.(pathrs_\w+_t)\b", text_nc)))
    fields = sorted(set(re.findall(r"cErr\.(\w+)", text_nc)))
    return calls, consts, types, fields


def _go_arg_class(a, env, header):
    m = re.match(r"^(C\.\w+)\(", a)
    if m:
        cast = m.group(1)
        if cast in GO_CASTS:
            c, s = GO_CASTS[cast]
            return {"class": c, "size": s, "expr": a}
        if cast == "C.cast_ptr":
            return {"class": "ptr", "size": 8, "pointee": "char", "const": False, "expr": a}
        if cast == "C.CString":
            return {"class": "ptr", "size": 8, "pointee": "char", "const": False, "expr": a}
        nm = cast[2:]
        if nm in header.typedefs or nm in header.structs:
            d = header.classify(nm)
            d = dict(d)
            d["expr"] = a
            return d
        raise ParseError("unknown cgo cast %s" % cast)
    if re.match(r"^\w+$", a):
        ty = env.get(a)
        if ty is None:
            raise ParseError("untyped Go variable %s" % a)
        if ty.startswith("ret:"):
            d = dict(header.classify(header.funcs[ty[4:]]["ret"]))
            d["expr"] = a
            return d
        if ty.endswith("()"):
            return _go_arg_class(ty[:-2] + "(x)", env, header)
        if ty in GO_CASTS:
            c, s = GO_CASTS[ty]
            return {"class": c, "size": s, "expr": a}
        if ty.startswith("*C."):
            return {"class": "ptr", "size": 8, "pointee": ty[3:], "expr": a}
        if ty.startswith("C.pathrs_"):
            d = dict(header.classify(ty[2:]))
            d["expr"] = a
            return d
        raise ParseError("cannot type Go variable %s: %s" % (a, ty))
    raise ParseError("cannot type Go argument %r" % a)


# ---------------------------------------------------------------------------------------------- Python
def py_calls(text):
    calls = []
    for m in re.finditer(r"libpathrs_so\.(pathrs_\w+)\(", text):
        args, _ = _balanced_args(text, m.end() - 1)
        calls.append((m.group(1), len(args), text[:m.start()].count("\n") + 1, args))
    consts = sorted(set(re.findall(r"libpathrs_so\.(PATHRS_\w+)", text)))
    return calls, consts


def py_cdef_header(header_text, build_text):
    """Apply the regex preprocessing of pathrs_build.py (read from its source) to the header text."""
    hdr = header_text
    subs = re.findall(r"re\.sub\(\s*(r?\"(?:[^\"\\]|\\.)*\")\s*,\s*(r?\"(?:[^\"\\]|\\.)*\")\s*,\s*hdr\s*,\s*flags=re\.MULTILINE", build_text, flags=re.S)
    if len(subs) < 2:
        raise ParseError("expected the two re.sub() preprocessing steps in pathrs_build.py, found %d" % len(subs))
    import ast
    for pat, rep in subs:
        hdr = re.sub(ast.literal_eval(pat), ast.literal_eval(rep), hdr, flags=re.MULTILINE)
    pre = re.findall(r"ffibuilder\.cdef\(\s*\"([^\"]*)\"\s*\)", build_text)
    return hdr, pre
