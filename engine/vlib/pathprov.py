"""Classification of path-argument and dirfd-argument origins (PROV + CONT) shared by C03, C05,
C13, C14."""
import re

from .cfg import cfg_of
from .dataflow import Origin, defuse
from .facts import AnchorMissing, Place
from .common import fn_key

# iterator adaptor shells allowed around RawComponents in a collected iterator type
_ITER_SHELLS = re.compile(r"std::iter::(Map|Filter|FlatMap|Rev|Flatten|Peekable|Chain|Once)<|std::option::Iter<|&mut |&")

NON_INSERTING = {
    "pop_front", "pop_back", "iter", "is_empty", "len", "front", "back", "clear", "iter_mut", "drain", "truncate",
    "next", "next_back", "peek",
}

SPLIT_FUNCS = {"root::RootRef::<'_>::resolve_parent": "parent", "utils::path::path_split": "split"}

RESOLVING_CALLS = re.compile(
    r"^(root::RootRef::<'_>::(resolve|resolve_nofollow)|root::Root::(resolve|resolve_nofollow)|resolvers::Resolver::(resolve|resolve_partial)|"
    r"resolvers::(opath::imp|openat2)::(resolve|resolve_partial)|handle::Handle::reopen|handle::HandleRef::<'_>::reopen|utils::fd::FdExt::reopen|"
    r"procfs::ProcfsHandle::(open|open_base|open_follow)|resolvers::procfs::ProcfsResolver::resolve|resolvers::procfs::(openat2_resolve|opath_resolve))$")

OPENING_CALLS = re.compile(r"^syscalls::(openat|openat_follow|openat2|open_tree|fsmount|fsopen)$")


class PathProv:
    def __init__(self, facts, tracer):
        self.facts = facts
        self.tracer = tracer
        self._callers = None
        self._memo = {}

    # ------------------------------------------------------------------ call graph helpers
    def callers_of(self, path):
        if self._callers is None:
            self._callers = {}
            for b in self.facts.fn_bodies():
                for t in b.calls():
                    for n in {t.callee, t.resolved}:
                        if n:
                            self._callers.setdefault(n, []).append(t)
        return self._callers.get(path, [])

    def is_public(self, body):
        return bool(body.no_mangle or (body.raw.get("pub") and body.raw.get("reachable")))

    # ------------------------------------------------------------------ path classification
    def classify_path_arg(self, term, i):
        return self.classify_path_origins(self.tracer.origins_of_arg(term, i))

    def classify_path_origins(self, origins, depth=0):
        """-> set of (class, proof) ; classes: empty, const:<bytes>, component, api-param, multi, unknown"""
        out = set()
        for o in origins:
            out |= self._classify_path(o, depth)
        return out

    def _classify_path(self, o, depth):
        if depth > 6:
            return {("unknown", "depth")}
        if o.kind == "const":
            b = o.const_bytes()
            if b is None:
                return {("unknown", "const without bytes")}
            if b == "":
                return {("empty", "const")}
            return {("const:" + b, "const")}
        if o.kind == "call":
            c = o.term.callee
            r = o.term.resolved
            for n in (c, r):
                if n in SPLIT_FUNCS:
                    # Ok((dir, Some(name)))  ->  fpath 0.1[.0]
                    fp = o.fpath
                    if len(fp) >= 2 and fp[0] == "0" and fp[1] == "1":
                        return {("component", "split-base of %s" % n)}
                    if len(fp) >= 2 and fp[0] == "0" and fp[1] == "0" and n == "utils::path::path_split":
                        return {("multi", "split-dir")}
            m = (c or "").rsplit("::", 1)[-1]
            if m in ("pop_front", "pop_back", "next", "next_back", "peek") and o.term.args:
                return self._classify_container(o.term, depth)
            if c == "rustix::fs::DirEntry::file_name":
                return {("component", "dirent name")}
            if c in ("std::path::Path::join", "std::path::PathBuf::push"):
                return {("multi", "join")}
            if c == "procfs::ProcfsBase::into_path":
                return {("multi", "procfs base")}
            if c == "utils::path::path_strip_trailing_slash":
                # (path, bool): a view of its argument
                return self.classify_path_origins(self.tracer.origins_of_arg(o.term, 0), depth + 1)
            if c == "utils::fd::proc_subpath":
                return {("const:fd/<n>", "proc_subpath")}
            if c == "capi::utils::parse_path":
                return {("api-param", "C caller")}
            return {("unknown", "call %s" % c)}
        if o.kind == "param":
            body = o.body
            if body.kind == "closure":
                return {("unknown", "closure parameter of %s" % fn_key(body))}
            res = set()
            if self.is_public(body):
                res.add(("api-param", fn_key(body)))
            callers = self.callers_of(body.path)
            idx = o.detail - 1
            key = ("p", body.path, o.detail, o.fpath)
            if key in self._memo:
                return self._memo[key] or {("rec", "")}
            self._memo[key] = None
            for t in callers:
                if t.body.path == body.path and False:
                    continue
                if idx < len(t.args):
                    sub = self.classify_path_origins(self.tracer.origins_of_arg(t, idx, o.fpath), depth + 1)
                    res |= {x for x in sub if x[0] != "rec"}
            if not callers and not res:
                res.add(("unknown", "parameter of %s without callers" % fn_key(body)))
            self._memo[key] = res
            return res
        if o.kind == "mutated":
            return set()
        return {("unknown", "%s %s" % (o.kind, o.detail))}

    def _classify_container(self, term, depth):
        """Element popped/iterated from a container: union over all insertions."""
        bd = term.body
        du = defuse(bd)
        # receiver: &mut container  (or the iterator by value)
        tgt = None
        a0 = term.args[0]
        if a0.place is not None and a0.place.is_local and a0.place.local in du.mutref:
            tgt = du.mutref[a0.place.local]
        if tgt is None or not tgt.is_local:
            return {("unknown", "container receiver of %s" % term.callee)}
        q = tgt.local
        out = set()
        n_ins = 0
        for site in du.all_defs(q):
            if site[0] == "c":
                t = bd.blocks[site[1]].term
                out |= self._classify_container_source(t, depth)
                n_ins += 1
            elif site[0] == "m":
                t = bd.blocks[site[1]].term
                m = (t.callee or "").rsplit("::", 1)[-1]
                if m in NON_INSERTING:
                    continue
                if t.callee == "utils::path::RawComponents::<'_>::prepend":
                    out.add(("component", "RawComponents::prepend"))
                    n_ins += 1
                    continue
                if m in ("push_front", "push_back", "push", "insert") and len(t.args) >= 2:
                    out |= self.classify_path_origins(self.tracer.origins_of_arg(t, len(t.args) - 1), depth + 1)
                    n_ins += 1
                    continue
                out.add(("unknown", "container mutated by %s" % t.callee))
            elif site[0] == "a":
                s = bd.blocks[site[1]].stmts[site[2]]
                ok = False
                if s.rv and s.rv["k"] == "use":
                    for o in self.tracer.origins_of_operand(bd, site[1], site[2], s.rv_operands()[0]):
                        if o.kind == "call":
                            out |= self._classify_container_source(o.term, depth + 1)
                            n_ins += 1
                            ok = True
                        elif o.kind == "agg" and o.stmt is not None and o.stmt.rv.get("k") == "agg" and o.stmt.rv.get("ak") in ("array", "tuple") and depth < 6:
                            # iterating an array literal: its elements are the items
                            pos = [(bl.idx, i2) for bl in o.body.blocks for i2, st in enumerate(bl.stmts) if st is o.stmt]
                            if pos:
                                for op in o.stmt.rv_operands():
                                    out |= self.classify_path_origins(self.tracer.origins_of_operand(o.body, pos[0][0], pos[0][1], op), depth + 1)
                                n_ins += 1
                                ok = True
                if not ok:
                    out.add(("unknown", "container assigned by statement"))
        if n_ins == 0:
            out.add(("unknown", "no insertion found for container"))
        return out

    def _classify_container_source(self, t, depth):
        c = t.callee
        if c in ("std::iter::IntoIterator::into_iter", "std::iter::Iterator::peekable", "std::iter::Iterator::enumerate", "std::iter::Iterator::fuse",
                 "std::iter::Iterator::skip", "std::iter::Iterator::take", "std::iter::Iterator::by_ref", "std::iter::Iterator::cloned",
                 "std::iter::Iterator::copied", "std::iter::Iterator::inspect"):
            # iterator over another container / iterator: follow the receiver
            res = set()
            for o in self.tracer.origins_of_arg(t, 0):
                if o.kind == "call":
                    res |= self._classify_container_source(o.term, depth + 1)
                elif o.kind == "agg" and o.stmt is not None and o.stmt.rv.get("k") == "agg" and depth < 6:
                    # an array / tuple literal: its elements are the items
                    bd = o.body
                    pos = [(bl.idx, i) for bl in bd.blocks for i, st in enumerate(bl.stmts) if st is o.stmt]
                    if not pos:
                        res.add(("unknown", "iterator source %r" % o))
                        continue
                    for op in o.stmt.rv_operands():
                        if op.is_const:
                            res |= self.classify_path_origins(self.tracer.origins_of_operand(bd, pos[0][0], pos[0][1], op), depth + 1)
                        elif op.place is not None:
                            res |= self.classify_path_origins(self.tracer.origins_of_operand(bd, pos[0][0], pos[0][1], op), depth + 1)
                else:
                    res.add(("unknown", "iterator source %r" % o))
            return res
        if c == "std::iter::Iterator::collect":
            ity = t.argtys[0] if t.argtys else ""
            return self._classify_iter_type(ity, t)
        if c in ("std::iter::Iterator::filter", "std::iter::Iterator::map", "std::iter::Iterator::rev"):
            ity = t.rty or ""
            return self._classify_iter_type(ity, t)
        return {("unknown", "container filled by %s" % c)}

    def _classify_iter_type(self, ity, t):
        if "utils::path::RawComponents" not in ity and "rustix::fs::Dir" not in ity:
            return {("unknown", "collected iterator %s" % ity[:80])}
        # strip adaptor shells; what remains must be RawComponents (plus closure/fn types)
        core = ity
        core = re.sub(r"\{closure@[^}]*\}", "", core)
        core = re.sub(r"for<'a> fn\([^)]*\) -> [^ ,>]+(<'a>)? \{[^}]*\}", "", core)
        srcs = set(re.findall(r"(utils::path::RawComponents|rustix::fs::Dir\b|std::path::PathBuf|std::vec::IntoIter|std::collections::\w+::\w+)", core))
        bad = srcs - {"utils::path::RawComponents", "std::path::PathBuf", "rustix::fs::Dir"}
        if bad:
            return {("unknown", "iterator sources %s" % sorted(bad))}
        if "rustix::fs::Dir" in srcs:
            return {("component", "directory scan")}
        return {("component", "raw_components iterator")}

    # ------------------------------------------------------------------ dirfd classification
    def classify_fd_arg(self, term, i):
        return self.classify_fd_origins(self.tracer.origins_of_arg(term, i))

    def classify_fd_origins(self, origins, depth=0):
        out = set()
        for o in origins:
            out |= self._classify_fd(o, depth)
        return out

    def _classify_fd(self, o, depth):
        if depth > 6:
            return {("unknown", "depth")}
        if o.kind == "const":
            v = o.const_int(signed=True)
            if v == -100:
                return {("cwd", "AT_FDCWD")}
            return {("unknown", "const fd %r" % (o.op,))}
        if o.kind == "call":
            c = o.term.callee
            r = o.term.resolved
            for n in (c, r):
                if n == "root::RootRef::<'_>::resolve_parent":
                    fp = o.fpath
                    if len(fp) >= 2 and fp[0] == "0" and fp[1] == "0":
                        return {("inroot-parent", n)}
                if n and OPENING_CALLS.match(n):
                    return {("opened", n)}
                if n and RESOLVING_CALLS.match(n):
                    return {("resolved", n)}
            if c and c.endswith("try_clone_to_owned"):
                sub = self.classify_fd_origins(self.tracer.origins_of_arg(o.term, 0), depth + 1)
                return {("dup:" + k, p) for (k, p) in sub}
            if c and c.endswith("::try_unwrap") and "Rc::" in c:
                return self.classify_fd_origins(self.tracer.origins_of_arg(o.term, 0), depth + 1)
            if c == "capi::utils::CBorrowedFd::<'fd>::try_as_borrowed_fd":
                return {("api-fd", "C caller")}
            if c in ("root::Root::as_ref", "handle::Handle::as_ref"):
                return self.classify_fd_origins(self.tracer.origins_of_arg(o.term, 0), depth + 1)
            return {("unknown", "call %s" % c)}
        if o.kind == "param":
            body = o.body
            if body.kind == "closure":
                return {("unknown", "closure parameter of %s" % fn_key(body))}
            if o.fpath and o.fpath[-1] == "inner":
                return {("self-fd", fn_key(body))}
            res = set()
            if self.is_public(body):
                res.add(("api-fd", fn_key(body)))
            key = ("f", body.path, o.detail, o.fpath)
            if key in self._memo:
                return self._memo[key] or {("rec", "")}
            self._memo[key] = None
            callers = self.callers_of(body.path)
            idx = o.detail - 1
            for t in callers:
                if idx < len(t.args):
                    sub = self.classify_fd_origins(self.tracer.origins_of_arg(t, idx, o.fpath), depth + 1)
                    res |= {x for x in sub if x[0] != "rec"}
            if not callers and not res:
                res.add(("unknown", "parameter of %s without callers" % fn_key(body)))
            self._memo[key] = res
            return res
        if o.kind == "mutated":
            return set()
        return {("unknown", "%s %s" % (o.kind, o.detail))}
