"""Guarded-use analysis: every use of a value produced by a source call must lie behind the
success edge of a guard call applied to that value (typestate 'unverified -> verified')."""
from .cfg import cfg_of
from .cut import result_edges, bool_edges
from .facts import Operand, Place


def _origin_is(tracer, term, i, source, fpath_prefix=None):
    for o in tracer.origins_of_arg(term, i):
        if o.kind == "call" and o.term is source:
            return True
    return False


def source_uses(body, tracer, source, exclude=()):
    """Call terminators (other than `exclude`) taking a value that originates from `source`,
    plus blocks that build the function's return value from it."""
    uses = []
    for t in body.calls():
        if t is source or t in exclude:
            continue
        for i, a in enumerate(t.args):
            if a.place is None:
                continue
            if _origin_is(tracer, t, i, source):
                uses.append(("call", t.bb, t))
                break
    # return-value construction
    for blk in body.blocks:
        if blk.cleanup:
            continue
        for i, s in enumerate(blk.stmts):
            if s.kind == "assign" and s.lhs.local == 0:
                for op in s.rv_operands():
                    if op.place is None:
                        continue
                    for o in tracer.origins_of_operand(body, blk.idx, i, op):
                        if o.kind == "call" and o.term is source:
                            uses.append(("return", blk.idx, s))
    return uses


def guard_calls(body, tracer, source, guard_pats, arg_index=None):
    """Guard calls whose checked argument originates from `source`, with their success edges."""
    out = []
    for t in body.calls(*guard_pats):
        idxs = range(len(t.args)) if arg_index is None else [arg_index]
        hit = any(i < len(t.args) and t.args[i].place is not None and _origin_is(tracer, t, i, source) for i in idxs)
        if not hit:
            continue
        r = result_edges(body, t)
        if r is None:
            # the guard's own result is the function's result (`fn f(..) -> Result<Fd> { .. verified(fd) }`): nothing can
            # use the value after it, and what is returned is what the guard let through
            if t.dest is not None and t.dest.is_local and t.dest.local == 0:
                r = {"ok": [], "all_ok": [], "err": [], "kind": "tail"}
            else:
                continue
        out.append((t, r))
    return out


def unguarded_uses(body, tracer, source, guard_pats, arg_index=None, passthrough=()):
    """Uses of source's value reachable from its success edge without passing a guard's success
    edge. Returns (uses, guards, unguarded list, start edges)."""
    cfg = cfg_of(body)
    re_ = result_edges(body, source)
    if re_ is not None and re_["ok"]:
        start = re_["ok"]
        starts = [e.dst for e in start]
    else:
        # value used directly (no ?/match): start right after the call
        starts = [source.target] if source.target is not None else []
    guards = guard_calls(body, tracer, source, guard_pats, arg_index)
    cut = [e.key() for (_t, r) in guards for e in r["all_ok"]]
    gset = [g[0] for g in guards]
    uses = source_uses(body, tracer, source, exclude=gset)
    uses = [u for u in uses if not (u[0] == "call" and u[2].callee in passthrough)]
    reach = cfg.reachable(starts, cut_edges=cut)
    bad = [u for u in uses if u[1] in reach]
    return uses, guards, bad, starts


def closure_guards_param(facts, tracer, cl, param, guard_pats):
    """In closure `cl`, is every success return that carries parameter `param` behind a guard on it?"""
    cfg = cfg_of(cl)
    guards = []
    for t in cl.calls(*guard_pats):
        hit = False
        for i in range(len(t.args)):
            for o in tracer.origins_of_arg(t, i):
                if o.kind == "param" and o.body is cl and o.detail == param:
                    hit = True
        if hit:
            r = result_edges(cl, t)
            if r:
                guards.append((t, r))
    if not guards:
        return False, "no guard call on the closure's argument"
    cut = [e.key() for (_t, r) in guards for e in r["all_ok"]]
    reach = cfg.reachable(cfg.entry, cut_edges=cut)
    for blk in cl.blocks:
        if blk.cleanup or blk.idx not in reach:
            continue
        for i, s in enumerate(blk.stmts):
            if s.kind == "assign" and s.lhs.local == 0 and s.rv["k"] == "agg" and s.rv.get("variant") in ("Ok", "Some"):
                return False, "Ok(..) reachable without the guard's success edge"
    return True, "guarded"
