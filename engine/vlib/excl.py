"""Which constant names ('.', '..', '') are provably excluded for a value at a program point.
Accepts the proof at any layer: a dominating refusal in the function, a filter/any() on the
container the value was taken from, a refusal in every caller, or a refusal inside the callee
that produced the value."""
from .cfg import cfg_of
from .cut import bool_edges, const_eq_tests, origin_keys
from .dataflow import Tracer, defuse
from .facts import Operand, Place

CANDS = (".", "..", "")

ITER_IDENTITY = {
    "core::slice::<impl [T]>::iter": (0, "same"),
    "std::collections::VecDeque::<T, A>::iter": (0, "same"),
    "std::iter::IntoIterator::into_iter": (0, "same"),
    "std::iter::Iterator::by_ref": (0, "same"),
    "std::iter::Iterator::peekable": (0, "same"),
    "std::iter::Iterator::filter": (0, "same"),
    "std::iter::Iterator::rev": (0, "same"),
    "std::option::Option::<T>::iter": (0, "same"),
}

ELEMENT_CALLS = ("next", "next_back", "pop_front", "pop_back", "peek")


class Excl:
    def __init__(self, facts, tracer, pp):
        self.facts = facts
        self.tracer = tracer
        self.itracer = Tracer(facts, extra_identity=ITER_IDENTITY)
        self.pp = pp
        self._memo = {}

    # ------------------------------------------------------------------ public
    def excluded_for_arg(self, term, i, depth=0):
        body = term.body
        n = len(body.blocks[term.bb].stmts)
        return self.excluded(body, term.bb, n, term.args[i], depth)

    def excluded(self, body, bb, idx, op, depth=0):
        """-> (set of excluded constants, {const: proof text})"""
        if depth > 5:
            return set(), {}
        origins = self.tracer.origins_of_operand(body, bb, idx, op)
        return self._excluded_origins(body, bb, origins, depth)

    def _excluded_origins(self, body, bb, origins, depth):
        origins = [o for o in origins if o.kind != "mutated"]
        proofs = {}
        ex = set()
        # (1) local dominating refusals on a value of the same origin
        vkeys = origin_keys(origins)
        cfg = cfg_of(body)
        none_cuts = self._none_edges(body, origins)
        for c in CANDS:
            ref = self._refuting_edges(body, vkeys, c)
            if not ref:
                continue
            reach = cfg.reachable(cfg.entry, cut_edges=ref + none_cuts)
            if bb not in reach:
                ex.add(c)
                proofs[c] = "every path in %s passes a test that rules out %r" % (body.path, c)
        # (2..5) per origin: all origins must exclude the constant
        per = None
        for o in origins:
            e, p = self._origin_excl(o, body, bb, depth)
            if per is None:
                per = set(e)
                pp_ = dict(p)
            else:
                per &= e
            for k, v in p.items():
                proofs.setdefault(k, v)
        if per:
            ex |= per
        return ex, {k: v for k, v in proofs.items() if k in ex}

    def _refuting_edges(self, body, vkeys, c):
        """Edges on which a value with origin keys `vkeys` is known to differ from the constant c."""
        key = ("refute", body.path, frozenset(vkeys), c)
        if key in self._memo:
            return self._memo[key]
        cfg = cfg_of(body)
        T = self.tracer
        out = []
        # (a) equality calls against constants
        for t in body.calls("std::cmp::PartialEq::eq", "std::cmp::PartialEq::ne"):
            if len(t.args) != 2:
                continue
            consts, others = [], []
            for i in (0, 1):
                os_ = T.origins_of_arg(t, i)
                cb = [o.const_bytes() for o in os_ if o.kind == "const" and o.const_bytes() is not None]
                if cb and len(cb) == len(os_):
                    consts.extend(cb)
                else:
                    others.append(os_)
            if len(consts) != 1 or len(others) != 1 or not (origin_keys(others[0]) & vkeys):
                continue
            be = bool_edges(body, t)
            if be is None:
                continue
            eq_edges, ne_edges = (be["true"], be["false"]) if t.callee.endswith("::eq") else (be["false"], be["true"])
            if consts[0] == c:
                out.extend(e.key() for e in ne_edges)
            else:
                out.extend(e.key() for e in eq_edges)
        # (b) slice patterns: length tests and element tests on a slice with the same origin
        for blk in body.blocks:
            if blk.cleanup or blk.term.kind != "switch":
                continue
            t = blk.term
            d = Operand(t.raw["d"])
            # element test:  switch (*x)[i]
            if d.place is not None and d.place.proj and isinstance(d.place.proj[-1], dict) and "ci" in d.place.proj[-1] and not d.place.proj[-1].get("fe"):
                i = d.place.proj[-1]["ci"]
                base = Place({"l": d.place.local, "p": []})
                if origin_keys(T.origins(body, blk.idx, len(blk.stmts), base)) & vkeys:
                    explicit = [e.label[1] for e in cfg.succ.get(blk.idx, []) if e.label[1] != "otherwise"]
                    for e in cfg.succ.get(blk.idx, []):
                        v = e.label[1]
                        if i >= len(c):
                            continue
                        if v == "otherwise":
                            if ord(c[i]) in explicit:
                                out.append(e.key())
                        elif v != ord(c[i]):
                            out.append(e.key())
                continue
            # length test:  l = Eq(PtrMetadata(x), const k) ; switch l
            if d.place is None or not d.place.is_local:
                continue
            k = None
            src = None
            vals = {}
            for st in blk.stmts:
                if st.kind != "assign" or not st.lhs.is_local:
                    continue
                if st.rv["k"] == "un" and st.rv["op"] == "PtrMetadata":
                    op = Operand(st.rv["a"])
                    if op.place is not None:
                        vals[st.lhs.local] = ("len", op.place.local)
                elif st.rv["k"] == "use":
                    op = Operand(st.rv["a"])
                    if op.is_const and op.int_value() is not None:
                        vals[st.lhs.local] = ("const", op.int_value())
                    elif op.place is not None and op.place.is_local and op.place.local in vals:
                        vals[st.lhs.local] = vals[op.place.local]
                elif st.rv["k"] == "bin" and st.rv["op"] == "Eq" and st.lhs.local == d.place.local:
                    a, b2 = Operand(st.rv["a"]), Operand(st.rv["b"])
                    def ev(o):
                        if o.is_const:
                            return ("const", o.int_value())
                        if o.place is not None and o.place.is_local:
                            return vals.get(o.place.local)
                        return None
                    va, vb = ev(a), ev(b2)
                    for x, y in ((va, vb), (vb, va)):
                        if x and y and x[0] == "len" and y[0] == "const":
                            src, k = x[1], y[1]
            if k is None:
                continue
            # the slice local may be a raw pointer to the slice place
            base = Place({"l": src, "p": []})
            if not (origin_keys(T.origins(body, blk.idx, 0, base)) & vkeys):
                continue
            for e in cfg.succ.get(blk.idx, []):
                is_true = e.label != ("sw", 0)
                if k == len(c) and not is_true:
                    out.append(e.key())
                elif k != len(c) and is_true:
                    out.append(e.key())
        # (c) emptiness tests
        for t in body.calls("std::ffi::OsString::is_empty", "std::ffi::OsStr::is_empty", "core::slice::<impl [T]>::is_empty", "std::path::Path::is_empty"):
            if not (origin_keys(T.origins_of_arg(t, 0)) & vkeys):
                continue
            be = bool_edges(body, t)
            if be is None:
                continue
            if c == "":
                out.extend(e.key() for e in be["false"])
            else:
                out.extend(e.key() for e in be["true"])
        self._memo[key] = out
        return out

    def _none_edges(self, body, origins):
        """Edges taken when an Option whose payload is the value is None: on those paths the value
        does not exist, so they are irrelevant for refusals about it."""
        want = set()
        for o in origins:
            if o.fpath and o.fpath[-1] == "0":
                k = list(o.key())
                k[4] = o.fpath[:-1]
                want.add(tuple(k))
        if not want:
            return []
        cfg = cfg_of(body)
        cuts = []
        for blk in body.blocks:
            if blk.cleanup or blk.term.kind != "switch":
                continue
            for i, s in enumerate(blk.stmts):
                if s.kind == "assign" and s.rv["k"] == "discr":
                    pl = Place(s.rv["p"])
                    ty = body.local_tys[pl.local] if pl.is_local else ""
                    if not pl.is_local or not ty.startswith("std::option::Option"):
                        continue
                    os_ = self.tracer.origins(body, blk.idx, i, pl)
                    if origin_keys(os_) & want:
                        for e in cfg.succ.get(blk.idx, []):
                            if e.label != ("sw", 1):
                                cuts.append(e.key())
        return cuts

    # ------------------------------------------------------------------ per origin
    def _origin_excl(self, o, body, bb, depth):
        if o.kind == "const":
            b = o.const_bytes()
            if b is None:
                return set(), {}
            e = {c for c in CANDS if c != b}
            return e, {c: "constant %r" % b for c in e}
        if o.kind == "call":
            m = (o.term.callee or "").rsplit("::", 1)[-1]
            if m in ELEMENT_CALLS and o.term.args:
                return self._container_excl(o.term, body, bb, depth)
            if o.term.callee == "rustix::fs::DirEntry::file_name":
                # name of a directory entry: exclusions come from the scan it was taken from
                sub = [x for x in self.tracer.origins_of_arg(o.term, 0) if x.kind != "mutated"]
                res = None
                proofs = {}
                for x in sub:
                    e, p = self._origin_excl(x, body, bb, depth + 1)
                    res = set(e) if res is None else (res & e)
                    proofs.update(p)
                return res or set(), {k: v for k, v in proofs.items() if k in (res or set())}
            # value produced by a crate function: refusals inside the callee on what it returns
            r = o.term.resolved
            if self.facts.has(r) and depth < 4:
                cb = self.facts.body(r)
                key = ("ret", r, o.fpath)
                if key in self._memo:
                    return self._memo[key]
                self._memo[key] = (set(), {})
                ccfg = cfg_of(cb)
                res = None
                proofs = {}
                du = defuse(cb)
                sites = set()
                for rb in ccfg.return_blocks():
                    sites |= set(du.defs_at(0, rb, len(cb.blocks[rb].stmts)))
                for site in sites:
                    if site[0] == "a":
                        pb_, pi_ = site[1], site[2] + 1
                    elif site[0] == "c":
                        tt = cb.blocks[site[1]].term
                        if tt.callee == "std::ops::FromResidual::from_residual" or tt.target is None:
                            continue
                        pb_, pi_ = tt.target, 0
                    else:
                        continue
                    ros = self.tracer.origins(cb, pb_, pi_, Place({"l": 0, "p": []}), o.fpath)
                    ros = [x for x in ros if x.kind != "mutated"]
                    if not ros:
                        continue
                    e, p = self._excluded_origins(cb, site[1], ros, depth + 1)
                    res = set(e) if res is None else (res & e)
                    proofs.update(p)
                out = (res or set(), {k: v for k, v in proofs.items() if k in (res or set())})
                self._memo[key] = out
                return out
            return set(), {}
        if o.kind == "param":
            pb = o.body
            if pb.kind == "closure":
                return set(), {}
            key = ("param", pb.path, o.detail, o.fpath)
            if key in self._memo:
                return self._memo[key]
            self._memo[key] = (set(CANDS), {})   # optimistic for recursion
            callers = self.pp.callers_of(pb.path)
            res = None
            proofs = {}
            if self.pp.is_public(pb) or not callers:
                res = set()
            else:
                for t in callers:
                    idx = o.detail - 1
                    if idx >= len(t.args):
                        res = set()
                        break
                    cb = t.body
                    n = len(cb.blocks[t.bb].stmts)
                    origins = self.tracer.origins_of_operand(cb, t.bb, n, t.args[idx], o.fpath)
                    e, p = self._excluded_origins(cb, t.bb, origins, depth + 1)
                    res = set(e) if res is None else (res & e)
                    for k, v in p.items():
                        proofs.setdefault(k, "every caller: " + v)
            out = (res or set(), {k: v for k, v in proofs.items() if k in (res or set())})
            self._memo[key] = out
            return out
        return set(), {}

    # ------------------------------------------------------------------ containers
    CHAIN_STOP = ("std::iter::Iterator::collect", "std::iter::Iterator::filter", "std::iter::Iterator::map",
                  "std::iter::Iterator::rev", "std::iter::Iterator::flat_map", "std::iter::Iterator::filter_map")

    def _container_chain(self, term):
        """Walk from an element-producing call back through the iterator chain. Returns
        (source origins, [closure bodies of Filter adaptors on the way])."""
        base = Tracer(self.facts, extra_identity={
            "core::slice::<impl [T]>::iter": (0, "same"),
            "std::collections::VecDeque::<T, A>::iter": (0, "same"),
            "std::iter::IntoIterator::into_iter": (0, "same"),
            "std::iter::Iterator::by_ref": (0, "same"),
            "std::iter::Iterator::peekable": (0, "same"),
            "std::option::Option::<T>::iter": (0, "same"),
            "std::iter::Iterator::enumerate": (0, "same"),
            "std::iter::Iterator::fuse": (0, "same"),
            "std::iter::Iterator::inspect": (0, "same"),
            "std::iter::Iterator::cloned": (0, "same"),
            "std::iter::Iterator::copied": (0, "same"),
        })
        filters = []
        sources = []
        seen = set()
        work = [o for o in base.origins_of_arg(term, 0) if o.kind != "mutated"]
        while work:
            o = work.pop()
            if o.key() in seen:
                continue
            seen.add(o.key())
            if o.kind == "call" and o.term.callee in self.CHAIN_STOP:
                t = o.term
                if t.callee == "std::iter::Iterator::filter":
                    for a in self.tracer.origins_of_arg(t, 1):
                        if a.kind == "agg" and a.detail and a.detail.startswith("closure "):
                            cp = a.detail[len("closure "):]
                            if self.facts.has(cp):
                                filters.append(self.facts.body(cp))
                        elif a.kind == "const" and a.op is not None and a.op.is_const and a.op.const.get("fn"):
                            # `.filter(named_predicate)`: a function item used as the predicate
                            fp = a.op.const["fn"]
                            if self.facts.has(fp):
                                filters.append(self.facts.body(fp))
                if t.callee == "std::iter::Iterator::collect":
                    ty = (t.argtys[0] if t.argtys else "")
                    # only closures sitting in a Filter<..> shell reject elements
                    import re
                    for m in re.finditer(r"std::iter::Filter<", ty):
                        pass
                    filters.extend(self._filter_closures_in_type(ty))
                    sources.append(o)
                    continue
                sources.append(o)
                work.extend(x for x in base.origins_of_arg(t, 0) if x.kind != "mutated")
                continue
            sources.append(o)
        return sources, filters

    def _container_chain_for_arg(self, term, i):
        """Sources and Filter closures of the container(s) an argument's value was taken from."""
        srcs, filters = [], []
        for o in self.tracer.origins_of_arg(term, i):
            if o.kind == "call":
                m = (o.term.callee or "").rsplit("::", 1)[-1]
                if m in ELEMENT_CALLS and o.term.args:
                    s2, f2 = self._container_chain(o.term)
                    srcs.extend(s2)
                    filters.extend(f2)
        return srcs, filters

    def _filter_closures_in_type(self, ty):
        """Closures that are the predicate of a Filter<I, P> shell in an iterator type string."""
        out = []
        # find each 'Filter<' and take the last top-level generic argument
        i = 0
        while True:
            i = ty.find("std::iter::Filter<", i)
            if i < 0:
                break
            j = i + len("std::iter::Filter<")
            depth = 1
            k = j
            last_comma = None
            while k < len(ty) and depth > 0:
                ch = ty[k]
                if ch in "<([{":
                    depth += 1
                elif ch in ">)]}" and not (ch == ">" and ty[k - 1] == "-"):
                    depth -= 1
                elif ch == "," and depth == 1:
                    last_comma = k
                k += 1
            if last_comma is not None:
                pred = ty[last_comma + 1:k - 1].strip()
                out.extend(self._closures_in_type(pred, None))
            i = j
        return out

    def _container_excl(self, term, body, bb, depth):
        srcs, filters = self._container_chain(term)
        ex = set()
        proofs = {}
        skeys = origin_keys(srcs)
        for cl in filters:
            for c in CANDS:
                if self._closure_rejects(cl, c):
                    ex.add(c)
                    proofs[c] = "filter closure %s rejects %r" % (cl.path, c)
        # any()-guards on the same container dominating the point
        cfg = cfg_of(body)
        for t in body.calls("std::iter::Iterator::any"):
            tsrcs, _f = self._container_chain(t)
            tk = origin_keys(tsrcs)
            if not (tk & skeys):
                continue
            be = bool_edges(body, t)
            if be is None or not be["false"]:
                continue
            reach = cfg.reachable(cfg.entry, cut_edges=[e.key() for e in be["false"]])
            if bb in reach:
                continue
            for o in self.tracer.origins_of_arg(t, 1):
                if o.kind == "agg" and o.detail and o.detail.startswith("closure "):
                    cp = o.detail[len("closure "):]
                    if self.facts.has(cp):
                        cl = self.facts.body(cp)
                        for c in CANDS:
                            if self._closure_accepts(cl, c):
                                ex.add(c)
                                proofs[c] = "any(%s) refusal dominates the use" % cl.path
        return ex, {k: v for k, v in proofs.items() if k in ex}

    def _closures_in_type(self, ty, body):
        """Closure bodies named in an iterator type string ({closure@src/file.rs:L:C: L:C})."""
        import re
        out = []
        for m in re.finditer(r"\{closure@([^:}]+):(\d+):(\d+): (\d+):(\d+)\}", ty):
            f, l1 = m.group(1), int(m.group(2))
            for b in self.facts.bodies:
                if b.kind == "closure" and b.file == f and b.line == l1 and b.span.startswith("%s:%d:%d:" % (f, l1, int(m.group(3)))):
                    out.append(b)
        return out

    def _closure_const_result(self, cl, c, want):
        """Does closure `cl` (bool-returning) surely return `want` when its argument equals c?"""
        cfg = cfg_of(cl)
        tests = [t for t in const_eq_tests(cl, self.tracer, c)]
        for t in tests:
            if not t["true"]:
                continue
            reach = cfg.edge_targets_reachable(t["true"])
            vals = set()
            # follow to the return: all assignments to _0 reachable
            for b in reach | {t["bb"]}:
                for s in cl.blocks[b].stmts:
                    if s.kind == "assign" and s.lhs.is_local and s.lhs.local == 0:
                        ops = s.rv_operands()
                        if s.rv["k"] == "use" and ops and ops[0].is_const:
                            vals.add(bool(ops[0].int_value()))
                        elif s.rv["k"] == "un" and s.rv["op"] == "Not":
                            vals.add(("not", repr(ops[0])))
                        else:
                            vals.add(("expr", s.rv["k"]))
            if vals == {want}:
                return True
            # `!matches!(..)`:  _t = const true on the matching arm ; _0 = Not(_t)
            if any(isinstance(v, tuple) and v[0] == "not" for v in vals) and len(vals) == 1:
                # find the negated temp's constant on the matched arm
                tv = set()
                for b in reach:
                    for s in cl.blocks[b].stmts:
                        if s.kind == "assign" and s.lhs.is_local and s.rv["k"] == "use":
                            ops = s.rv_operands()
                            if ops and ops[0].is_const and ops[0].const.get("ty") == "bool":
                                tv.add(bool(ops[0].int_value()))
                if tv == {not want}:
                    return True
            # eq-call whose bool is returned directly (part == "..") / negated (part != ".")
            if t["kind"] == "eq-call":
                pass
        # closures that return the comparison itself:  |p| p == c   or  |p| !p.is_empty() && p != c
        for t in cl.calls("std::cmp::PartialEq::eq", "std::cmp::PartialEq::ne"):
            hit = False
            for i in (0, 1):
                for o in self.tracer.origins_of_arg(t, i):
                    if o.kind == "const" and o.const_bytes() == c:
                        hit = True
            if not hit:
                continue
            # result returned directly?
            ro = self.tracer.return_origins(cl)
            direct = any(o.kind == "call" and o.term is t for o in ro)
            eq_true = t.callee.endswith("::eq")
            if direct:
                if (want is True and eq_true) or (want is False and not eq_true):
                    return True
            # returned through `a && (p != c)`:  false edge of the comparison reaches `_0 = false`
            be = bool_edges(cl, t)
            if be is not None:
                edges = be["true"] if eq_true else be["false"]   # edges taken when p == c
                reach = cfg.edge_targets_reachable(edges)
                vals = set()
                for b in reach:
                    for s in cl.blocks[b].stmts:
                        if s.kind == "assign" and s.lhs.is_local and s.lhs.local == 0:
                            ops = s.rv_operands()
                            if s.rv["k"] == "use" and ops and ops[0].is_const:
                                vals.add(bool(ops[0].int_value()))
                            else:
                                vals.add("expr")
                if vals == {want}:
                    return True
        if c == "":
            # closures returning (the negation of) an is_empty() call directly
            for t in cl.calls("std::ffi::OsString::is_empty", "std::ffi::OsStr::is_empty", "core::slice::<impl [T]>::is_empty", "std::path::Path::is_empty"):
                for blk in cl.blocks:
                    for i, s in enumerate(blk.stmts):
                        if s.kind == "assign" and s.lhs.is_local and s.lhs.local == 0 and s.rv["k"] in ("un", "use"):
                            ops = s.rv_operands()
                            if not ops or ops[0].place is None:
                                continue
                            os_ = self.tracer.origins_of_operand(cl, blk.idx, i, ops[0])
                            if any(o.kind == "call" and o.term is t for o in os_):
                                val_when_empty = not (s.rv["k"] == "un" and s.rv.get("op") == "Not")
                                if val_when_empty == want:
                                    return True
                ro = self.tracer.return_origins(cl)
                if want is True and any(o.kind == "call" and o.term is t for o in ro):
                    return True
            # is_empty() tests
            for t in cl.calls("std::ffi::OsString::is_empty", "std::ffi::OsStr::is_empty", "core::slice::<impl [T]>::is_empty"):
                be = bool_edges(cl, t)
                if be is None:
                    continue
                reach = cfg.edge_targets_reachable(be["true"])
                vals = set()
                for b in reach:
                    for s in cl.blocks[b].stmts:
                        if s.kind == "assign" and s.lhs.is_local and s.lhs.local == 0:
                            ops = s.rv_operands()
                            if s.rv["k"] == "use" and ops and ops[0].is_const:
                                vals.add(bool(ops[0].int_value()))
                            else:
                                vals.add("expr")
                if vals == {want}:
                    return True
        return False

    def _closure_rejects(self, cl, c):
        return self._closure_const_result(cl, c, False)

    def _closure_accepts(self, cl, c):
        return self._closure_const_result(cl, c, True)
