#!/bin/bash
# usage: try_patch_fast.sh <base-commit> <patch.diff|-> -- like try_seed_at.sh but runs the 18 checks in parallel on one extraction
C="$1"; P="$2"
D=$(mktemp -d /var/tmp/verif-seed.XXXXXX)
trap 'rm -rf "$D"' EXIT
git -C /repo archive "$C" | tar -x -C "$D" || exit 9
if [ "$P" != "-" ]; then (cd "$D" && patch -p1 -s --no-backup-if-mismatch -i "$P") || { echo "try_patch: patch does not apply at $C"; exit 8; }; fi
/verif/engine/extract.sh capi "$D/facts.json" "$D" >/dev/null || { echo "try_patch: does not build"; exit 7; }
cd /verif
one() { p=$1; out=$(VERIF_NO_EVIDENCE=1 ./check $p --facts capi="$2/facts.json" --repo "$2" 2>&1); n=$(echo "$out" | grep -c "^VIOLATION"); echo "$out" | grep "^note" | sort -u | sed "s/^/$p /" > $2/notes-$p.txt; if [ "$n" -gt 0 ]; then { echo "== $p: $n violation(s)"; echo "$out" | grep -E "^(VIOLATED|UNPROVEN)" | cut -c1-330 | head -${MAXL:-6}; } > $2/out-$p.txt; fi; }
export -f one
printf "%s\n" C01 C02 C03 C04 C05 C06 C07 C08 C09 C10 C11 C12 C13 C14 C15 C16 C17 C18 | xargs -P 9 -I{} bash -c "one {} $D"
cat $D/notes-*.txt 2>/dev/null | cut -d' ' -f2- | sort -u | cut -c1-200
cat $D/out-*.txt 2>/dev/null
echo "try_patch: done"
