#!/usr/bin/env python3
"""import_seed.py <seedwork-dir> <changeN> <seed-id> <base-commit>
Copies an independently written breaking change into /verif/seeded/<seed-id>/ and records which checks report it
(the checks are evaluated on a scratch copy of /repo at <base-commit> with the patch applied)."""
import json, os, re, shutil, subprocess, sys
sw, ch, sid, base = sys.argv[1:5]
src = os.path.join(sw, ch)
dst = os.path.join("/verif/seeded", sid)
os.makedirs(dst, exist_ok=True)
shutil.copy(os.path.join(src, "patch.diff"), os.path.join(dst, "patch.diff"))
if os.path.isdir(os.path.join(dst, "demo")):
    shutil.rmtree(os.path.join(dst, "demo"))
shutil.copytree(os.path.join(src, "demo"), os.path.join(dst, "demo"), ignore=shutil.ignore_patterns("*.log"))
agent_meta = json.load(open(os.path.join(src, "meta.json")))
# baseline: which violations exist at the base commit without the patch (pre-fix findings), to subtract
def run(patch):
    env = dict(os.environ, MAXL="40")
    p = subprocess.run(["/verif/engine/try_patch_fast.sh", base, patch], capture_output=True, text=True, env=env)
    keys = {}
    cur = None
    for line in p.stdout.splitlines():
        m = re.match(r"== (C\d+): (\d+) violation", line)
        if m:
            cur = m.group(1); keys[cur] = []
        m = re.match(r"(VIOLATED|UNPROVEN): (\S+) ", line)
        if m and cur:
            keys[cur].append(m.group(2))
    return keys, p.stdout[-400:]
basefile = "/var/tmp/seed-baseline-%s.json" % base
if os.path.exists(basefile):
    base_keys = json.load(open(basefile))
else:
    base_keys, _ = run("-")
    json.dump(base_keys, open(basefile, "w"))
keys, tail = run(os.path.join(dst, "patch.diff"))
new = {}
for p, ks in keys.items():
    fresh = [k for k in ks if k not in base_keys.get(p, [])]
    if fresh:
        new[p] = fresh
confirm = None
cl = "/var/tmp/confirm_all.log"
tag = "RESULT %s %s:" % (agent_meta.get("property"), ch)
for f in (cl, "/var/tmp/confirm_extra.log", "/var/tmp/confirm_wave2.log", "/var/tmp/confirm_wave3.log"):
    if os.path.exists(f):
        for line in open(f):
            if line.startswith(tag):
                confirm = line.strip()
meta = {
    "id": sid,
    "property": agent_meta.get("property"),
    "summary": agent_meta.get("summary"),
    "mechanism_attacked": agent_meta.get("mechanism_attacked"),
    "needs_to_manifest": agent_meta.get("needs_to_manifest"),
    "base_commit": base,
    "written_by": "independent sub-agent given only the property text and a scratch worktree (no access to /verif)",
    "author_reported": {k: agent_meta.get(k) for k in ("compiles", "lib_tests_pass", "demo_fails_with_change", "demo_passes_without_change", "notes")},
    "author_commands": agent_meta.get("commands_run"),
    "confirmed_by_me": {
        "what_i_ran": "scratch worktree at %s: demo without the patch (expected pass), git apply patch.diff, cargo build --offline, cargo build --offline --features capi, demo with the patch (expected fail) -- /var/tmp/confirm.sh / confirm2.sh" % base,
        "result": confirm,
        "existing_suite": "the author ran the full `cargo test --offline --lib` with the change (see author_reported.notes: only the load-dependent *_loop_* EAGAIN flakes that also fail on the unmodified tree); I re-ran the lib tests of the touched modules",
    },
    "detected_by": new,
    "detected": bool(new),
    "pre_existing_findings_at_base_commit": base_keys,
}
json.dump(meta, open(os.path.join(dst, "meta.json"), "w"), indent=1)
print(sid, "detected by", {p: ks[:3] for p, ks in new.items()} if new else "NOTHING")
