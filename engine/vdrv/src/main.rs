// vdrv: MIR fact extractor for the libpathrs static checks.
//
// Used as RUSTC_WORKSPACE_WRAPPER under `cargo +nightly check`: argv[1] is the real rustc,
// the remaining arguments are the rustc command line. For the crate named by VDRV_CRATE
// (default "pathrs") the driver dumps one JSON fact file (VDRV_OUT) after analysis; every
// other crate is compiled unchanged. Zero cargo dependencies.
#![feature(rustc_private)]
#![allow(clippy::all)]

extern crate rustc_abi;
extern crate rustc_data_structures;
extern crate rustc_driver;
extern crate rustc_hir;
extern crate rustc_interface;
extern crate rustc_middle;
extern crate rustc_span;

use rustc_driver::{Callbacks, Compilation};
use rustc_hir::def::DefKind;
use rustc_hir::def_id::{DefId, LOCAL_CRATE};
use rustc_middle::mir::interpret::{GlobalAlloc, Scalar};
use rustc_middle::mir::*;
use rustc_middle::ty::print::{with_no_trimmed_paths, with_no_visible_paths};
use rustc_middle::ty::{self, Instance, Ty, TyCtxt, TypingEnv};
use rustc_span::Span;

use std::fmt::Write as _;

// ---------------------------------------------------------------------------------------
// tiny JSON value
// ---------------------------------------------------------------------------------------
enum J {
    Null,
    Bool(bool),
    Int(i128),
    Str(String),
    Arr(Vec<J>),
    Obj(Vec<(&'static str, J)>),
}

fn s<T: ToString>(x: T) -> J {
    J::Str(x.to_string())
}
fn opt_s(x: Option<String>) -> J {
    match x {
        Some(v) => J::Str(v),
        None => J::Null,
    }
}

impl J {
    fn write(&self, out: &mut String) {
        match self {
            J::Null => out.push_str("null"),
            J::Bool(b) => out.push_str(if *b { "true" } else { "false" }),
            J::Int(i) => {
                let _ = write!(out, "{}", i);
            }
            J::Str(st) => {
                out.push('"');
                for c in st.chars() {
                    match c {
                        '"' => out.push_str("\\\""),
                        '\\' => out.push_str("\\\\"),
                        '\n' => out.push_str("\\n"),
                        '\r' => out.push_str("\\r"),
                        '\t' => out.push_str("\\t"),
                        c if (c as u32) < 0x20 => {
                            let _ = write!(out, "\\u{:04x}", c as u32);
                        }
                        c => out.push(c),
                    }
                }
                out.push('"');
            }
            J::Arr(v) => {
                out.push('[');
                for (i, x) in v.iter().enumerate() {
                    if i > 0 {
                        out.push(',');
                    }
                    x.write(out);
                }
                out.push(']');
            }
            J::Obj(v) => {
                out.push('{');
                for (i, (k, x)) in v.iter().enumerate() {
                    if i > 0 {
                        out.push(',');
                    }
                    let _ = write!(out, "\"{}\":", k);
                    x.write(out);
                }
                out.push('}');
            }
        }
    }
}

// ---------------------------------------------------------------------------------------
// helpers
// ---------------------------------------------------------------------------------------
fn dp(tcx: TyCtxt<'_>, did: DefId) -> String {
    with_no_trimmed_paths!(tcx.def_path_str(did))
}
// true definition path (no re-export shortening)
fn dpd(tcx: TyCtxt<'_>, did: DefId) -> String {
    with_no_visible_paths!(with_no_trimmed_paths!(tcx.def_path_str(did)))
}
fn tys<'tcx>(ty: Ty<'tcx>) -> String {
    with_no_trimmed_paths!(format!("{}", ty))
}

fn span_str(tcx: TyCtxt<'_>, sp: Span) -> String {
    let sp = sp.source_callsite();
    tcx.sess.source_map().span_to_diagnostic_string(sp)
}

fn expn(sp: Span) -> J {
    if !sp.from_expansion() {
        return J::Null;
    }
    let mut v = Vec::new();
    for e in sp.macro_backtrace() {
        let d = match e.kind {
            rustc_span::ExpnKind::Macro(_, name) => format!("macro:{}", name),
            rustc_span::ExpnKind::Desugaring(k) => format!("desugar:{:?}", k),
            rustc_span::ExpnKind::AstPass(_) => "astpass".to_string(),
            rustc_span::ExpnKind::Root => "root".to_string(),
        };
        v.push(J::Str(d));
    }
    J::Arr(v)
}

fn bytes_to_str(b: &[u8]) -> String {
    // printable ASCII kept, everything else as \xNN (the JSON writer escapes the backslash)
    let mut o = String::new();
    for &c in b {
        if (0x20..0x7f).contains(&c) && c != b'\\' {
            o.push(c as char);
        } else {
            let _ = write!(o, "\\x{:02x}", c);
        }
    }
    o
}

struct Cx<'tcx> {
    tcx: TyCtxt<'tcx>,
    tenv: TypingEnv<'tcx>,
}

fn alloc_info<'tcx>(tcx: TyCtxt<'tcx>, id: rustc_middle::mir::interpret::AllocId, off: u64, len: Option<u64>, depth: u32) -> Vec<(&'static str, J)> {
    let mut o = Vec::new();
    match tcx.try_get_global_alloc(id) {
        Some(GlobalAlloc::Static(sdid)) => {
            o.push(("static", s(dp(tcx, sdid))));
        }
        Some(GlobalAlloc::Function { instance }) => {
            o.push(("fnptr", s(dp(tcx, instance.def_id()))));
        }
        Some(GlobalAlloc::Memory(a)) => {
            let al = a.inner();
            let total = al.len() as u64;
            let start = off.min(total);
            let end = match len {
                Some(l) => (start + l).min(total),
                None => total,
            };
            let end = end.min(start + 512);
            let bytes = al.inspect_with_uninit_and_ptr_outside_interpreter(start as usize..end as usize);
            o.push(("bytes", s(bytes_to_str(bytes))));
            o.push(("blen", J::Int((end - start) as i128)));
            // follow pointers stored in the allocation (one level per depth)
            if depth < 3 {
                let mut ptrs = Vec::new();
                for (poff, prov) in al.provenance().ptrs().iter() {
                    let po = poff.bytes();
                    if po < start || po >= end {
                        continue;
                    }
                    let pid = prov.alloc_id();
                    // the addend is stored in the bytes
                    let raw = al.inspect_with_uninit_and_ptr_outside_interpreter(po as usize..(po as usize + 8).min(total as usize));
                    let mut add: u64 = 0;
                    for (i, b) in raw.iter().enumerate() {
                        add |= (*b as u64) << (8 * i);
                    }
                    // a fat pointer's length follows the pointer
                    let mut flen: Option<u64> = None;
                    if po + 16 <= total {
                        let has_prov_next = al.provenance().ptrs().iter().any(|(q, _)| q.bytes() == po + 8);
                        if !has_prov_next {
                            let r2 = al.inspect_with_uninit_and_ptr_outside_interpreter((po + 8) as usize..(po + 16) as usize);
                            let mut l: u64 = 0;
                            for (i, b) in r2.iter().enumerate() {
                                l |= (*b as u64) << (8 * i);
                            }
                            flen = Some(l);
                        }
                    }
                    let mut inner = alloc_info(tcx, pid, add, None, depth + 1);
                    inner.push(("at", J::Int((po - start) as i128)));
                    if let Some(l) = flen {
                        inner.push(("fatlen", J::Int(l as i128)));
                    }
                    ptrs.push(J::Obj(inner));
                }
                if !ptrs.is_empty() {
                    o.push(("ptrs", J::Arr(ptrs)));
                }
            }
        }
        Some(_) => {
            o.push(("alloc", s("other")));
        }
        None => {
            o.push(("alloc", s("dangling")));
        }
    }
    o
}

impl<'tcx> Cx<'tcx> {
    fn const_json(&self, c: &ConstOperand<'tcx>) -> J {
        let tcx = self.tcx;
        let ty = c.const_.ty();
        let mut o: Vec<(&'static str, J)> = vec![("ty", s(tys(ty)))];
        if let ty::FnDef(fdid, fargs) = ty.kind() {
            o.push(("fn", s(dp(tcx, *fdid))));
            o.push(("fnd", s(dpd(tcx, *fdid))));
            o.push(("fnargs", s(with_no_trimmed_paths!(tcx.def_path_str_with_args(*fdid, fargs)))));
            return J::Obj(o);
        }
        if let Some(sdid) = c.check_static_ptr(tcx) {
            o.push(("static", s(dp(tcx, sdid))));
            return J::Obj(o);
        }
        // record which item an unevaluated constant names (assoc consts, promoteds)
        if let Const::Unevaluated(uv, _) = c.const_ {
            o.push(("item", s(dp(tcx, uv.def))));
            if let Some(p) = uv.promoted {
                o.push(("promoted", J::Int(p.as_u32() as i128)));
            }
        }
        match c.const_.eval(tcx, self.tenv, c.span) {
            Ok(ConstValue::Scalar(Scalar::Int(i))) => {
                let sz = i.size();
                if sz.bytes() > 0 {
                    o.push(("u", J::Int(i.to_uint(sz) as i128)));
                    o.push(("i", J::Int(i.to_int(sz))));
                    o.push(("sz", J::Int(sz.bytes() as i128)));
                } else {
                    o.push(("zst", J::Bool(true)));
                }
            }
            Ok(ConstValue::Scalar(Scalar::Ptr(ptr, _))) => {
                let (prov, off) = ptr.prov_and_relative_offset();
                let id = prov.alloc_id();
                for kv in alloc_info(tcx, id, off.bytes(), None, 0) {
                    o.push(kv);
                }
            }
            Ok(ConstValue::Slice { alloc_id, meta }) => {
                for kv in alloc_info(tcx, alloc_id, 0, Some(meta), 0) {
                    o.push(kv);
                }
                o.push(("slice", J::Bool(true)));
            }
            Ok(ConstValue::Indirect { alloc_id, offset }) => {
                let len = self
                    .tcx
                    .layout_of(self.tenv.as_query_input(ty))
                    .ok()
                    .map(|l| l.size.bytes());
                for kv in alloc_info(tcx, alloc_id, offset.bytes(), len, 0) {
                    o.push(kv);
                }
                o.push(("indirect", J::Bool(true)));
            }
            Ok(ConstValue::ZeroSized) => {
                o.push(("zst", J::Bool(true)));
            }
            Err(_) => {
                o.push(("text", s(with_no_trimmed_paths!(format!("{}", c.const_)))));
            }
        }
        J::Obj(o)
    }

    fn place_json(&self, body: &Body<'tcx>, p: &Place<'tcx>) -> J {
        let tcx = self.tcx;
        let mut projs = Vec::new();
        let mut pty = rustc_middle::mir::PlaceTy::from_ty(body.local_decls[p.local].ty);
        for elem in p.projection.iter() {
            let j = match elem {
                ProjectionElem::Deref => s("*"),
                ProjectionElem::Field(f, fty) => {
                    let mut name = format!("{}", f.as_u32());
                    match pty.ty.kind() {
                        ty::Adt(def, _) => {
                            let vi = pty.variant_index.unwrap_or(rustc_abi::FIRST_VARIANT);
                            if def.is_enum() || def.is_struct() || def.is_union() {
                                if let Some(fd) = def.variant(vi).fields.get(f) {
                                    name = fd.name.to_string();
                                }
                            }
                        }
                        _ => {}
                    }
                    J::Obj(vec![("f", J::Int(f.as_u32() as i128)), ("n", s(name)), ("ty", s(tys(fty)))])
                }
                ProjectionElem::Downcast(name, vi) => J::Obj(vec![
                    ("dc", match name {
                        Some(n) => s(n),
                        None => s(vi.as_u32()),
                    }),
                    ("vi", J::Int(vi.as_u32() as i128)),
                ]),
                ProjectionElem::Index(l) => J::Obj(vec![("idx", J::Int(l.as_u32() as i128))]),
                ProjectionElem::ConstantIndex { offset, min_length, from_end } => J::Obj(vec![
                    ("ci", J::Int(offset as i128)),
                    ("min", J::Int(min_length as i128)),
                    ("fe", J::Bool(from_end)),
                ]),
                ProjectionElem::Subslice { from, to, from_end } => J::Obj(vec![
                    ("sub", J::Int(from as i128)),
                    ("to", J::Int(to as i128)),
                    ("fe", J::Bool(from_end)),
                ]),
                ProjectionElem::OpaqueCast(_) => s("opaque"),
                ProjectionElem::UnwrapUnsafeBinder(_) => s("unbind"),
            };
            projs.push(j);
            pty = pty.projection_ty(tcx, elem);
        }
        J::Obj(vec![("l", J::Int(p.local.as_u32() as i128)), ("p", J::Arr(projs))])
    }

    fn op_json(&self, body: &Body<'tcx>, op: &Operand<'tcx>) -> J {
        match op {
            Operand::Copy(p) => J::Obj(vec![("c", self.place_json(body, p))]),
            Operand::Move(p) => J::Obj(vec![("m", self.place_json(body, p))]),
            Operand::Constant(c) => J::Obj(vec![("k", self.const_json(c))]),
            #[allow(unreachable_patterns)]
            _ => J::Obj(vec![("other", s(format!("{:?}", op)))]),
        }
    }

    fn rvalue_json(&self, body: &Body<'tcx>, rv: &Rvalue<'tcx>) -> J {
        let tcx = self.tcx;
        match rv {
            Rvalue::Use(op, _) => J::Obj(vec![("k", s("use")), ("a", self.op_json(body, op))]),
            Rvalue::Repeat(op, _) => J::Obj(vec![("k", s("repeat")), ("a", self.op_json(body, op))]),
            Rvalue::Ref(_, bk, p) => J::Obj(vec![
                ("k", s("ref")),
                ("mut", J::Bool(matches!(bk, BorrowKind::Mut { .. }))),
                ("p", self.place_json(body, p)),
            ]),
            Rvalue::ThreadLocalRef(d) => J::Obj(vec![("k", s("tls")), ("static", s(dp(tcx, *d)))]),
            Rvalue::RawPtr(k, p) => J::Obj(vec![
                ("k", s("rawptr")),
                ("mut", J::Bool(matches!(k, RawPtrKind::Mut))),
                ("p", self.place_json(body, p)),
            ]),
            Rvalue::Cast(ck, op, ty) => J::Obj(vec![
                ("k", s("cast")),
                ("ck", s(format!("{:?}", ck))),
                ("a", self.op_json(body, op)),
                ("ty", s(tys(*ty))),
            ]),
            Rvalue::BinaryOp(bop, ab) => J::Obj(vec![
                ("k", s("bin")),
                ("op", s(format!("{:?}", bop))),
                ("a", self.op_json(body, &ab.0)),
                ("b", self.op_json(body, &ab.1)),
            ]),
            Rvalue::UnaryOp(uop, op) => J::Obj(vec![
                ("k", s("un")),
                ("op", s(format!("{:?}", uop))),
                ("a", self.op_json(body, op)),
            ]),
            Rvalue::Discriminant(p) => J::Obj(vec![("k", s("discr")), ("p", self.place_json(body, p))]),
            Rvalue::Aggregate(ak, ops) => {
                let mut o: Vec<(&'static str, J)> = vec![("k", s("agg"))];
                match &**ak {
                    AggregateKind::Array(_) => o.push(("ak", s("array"))),
                    AggregateKind::Tuple => o.push(("ak", s("tuple"))),
                    AggregateKind::Adt(adid, vi, _, _, _) => {
                        let def = tcx.adt_def(*adid);
                        o.push(("ak", s("adt")));
                        o.push(("adt", s(dp(tcx, *adid))));
                        let v = def.variant(*vi);
                        o.push(("variant", s(v.name)));
                        o.push(("vi", J::Int(vi.as_u32() as i128)));
                        o.push((
                            "fields",
                            J::Arr(v.fields.iter().map(|f| s(f.name)).collect()),
                        ));
                    }
                    AggregateKind::Closure(cdid, _) => {
                        o.push(("ak", s("closure")));
                        o.push(("closure", s(dp(tcx, *cdid))));
                    }
                    AggregateKind::Coroutine(cdid, _) => {
                        o.push(("ak", s("coroutine")));
                        o.push(("closure", s(dp(tcx, *cdid))));
                    }
                    AggregateKind::CoroutineClosure(cdid, _) => {
                        o.push(("ak", s("coroutine_closure")));
                        o.push(("closure", s(dp(tcx, *cdid))));
                    }
                    AggregateKind::RawPtr(_, _) => o.push(("ak", s("rawptr"))),
                }
                o.push(("ops", J::Arr(ops.iter().map(|x| self.op_json(body, x)).collect())));
                J::Obj(o)
            }
            Rvalue::CopyForDeref(p) => J::Obj(vec![("k", s("use")), ("a", J::Obj(vec![("c", self.place_json(body, p))]))]),
            Rvalue::WrapUnsafeBinder(op, _) => J::Obj(vec![("k", s("use")), ("a", self.op_json(body, op))]),
        }
    }

    fn callee_json(&self, body: &Body<'tcx>, func: &Operand<'tcx>) -> J {
        let tcx = self.tcx;
        let fty = func.ty(&body.local_decls, tcx);
        let mut o: Vec<(&'static str, J)> = Vec::new();
        match fty.kind() {
            ty::FnDef(did, args) => {
                o.push(("path", s(dp(tcx, *did))));
                o.push(("dpath", s(dpd(tcx, *did))));
                o.push(("full", s(with_no_trimmed_paths!(tcx.def_path_str_with_args(*did, args)))));
                o.push(("local", J::Bool(did.is_local())));
                if let Some(tr) = tcx.trait_of_assoc(*did) {
                    o.push(("trait", s(dp(tcx, tr))));
                    o.push(("method", s(tcx.item_name(*did))));
                    // Self type of the trait call
                    if let Some(st) = args.types().next() {
                        o.push(("self_ty", s(tys(st))));
                    }
                }
                match Instance::try_resolve(tcx, self.tenv, *did, args) {
                    Ok(Some(inst)) => {
                        let rd = inst.def_id();
                        o.push(("rpath", s(dp(tcx, rd))));
                        o.push(("rdpath", s(dpd(tcx, rd))));
                        o.push(("rlocal", J::Bool(rd.is_local())));
                        let kind = match inst.def {
                            ty::InstanceKind::Item(_) => "item",
                            ty::InstanceKind::Intrinsic(_) => "intrinsic",
                            ty::InstanceKind::VTableShim(_) => "vtable_shim",
                            ty::InstanceKind::ReifyShim(..) => "reify_shim",
                            ty::InstanceKind::FnPtrShim(..) => "fnptr_shim",
                            ty::InstanceKind::Virtual(..) => "virtual",
                            ty::InstanceKind::ClosureOnceShim { .. } => "closure_once_shim",
                            ty::InstanceKind::DropGlue(..) => "drop_glue",
                            ty::InstanceKind::CloneShim(..) => "clone_shim",
                            _ => "other",
                        };
                        o.push(("rkind", s(kind)));
                    }
                    Ok(None) => {
                        o.push(("unres", J::Bool(true)));
                    }
                    Err(_) => {
                        o.push(("unres", J::Bool(true)));
                    }
                }
            }
            ty::FnPtr(..) => {
                o.push(("fnptr", J::Bool(true)));
                o.push(("op", self.op_json(body, func)));
            }
            _ => {
                o.push(("indirect", s(tys(fty))));
                o.push(("op", self.op_json(body, func)));
            }
        }
        J::Obj(o)
    }

    fn term_json(&self, body: &Body<'tcx>, t: &Terminator<'tcx>) -> J {
        let tcx = self.tcx;
        let sp = t.source_info.span;
        let mut o: Vec<(&'static str, J)> = Vec::new();
        let bbn = |b: BasicBlock| J::Int(b.as_u32() as i128);
        let unw = |u: &UnwindAction| match u {
            UnwindAction::Cleanup(b) => J::Int(b.as_u32() as i128),
            _ => J::Null,
        };
        match &t.kind {
            TerminatorKind::Goto { target } => {
                o.push(("k", s("goto")));
                o.push(("t", bbn(*target)));
            }
            TerminatorKind::SwitchInt { discr, targets } => {
                o.push(("k", s("switch")));
                o.push(("d", self.op_json(body, discr)));
                let dty = discr.ty(&body.local_decls, tcx);
                o.push(("dty", s(tys(dty))));
                let mut vals = Vec::new();
                let mut tgts = Vec::new();
                for (v, b) in targets.iter() {
                    vals.push(J::Int(v as i128));
                    tgts.push(bbn(b));
                }
                o.push(("vals", J::Arr(vals)));
                o.push(("tgts", J::Arr(tgts)));
                o.push(("other", bbn(targets.otherwise())));
            }
            TerminatorKind::UnwindResume => o.push(("k", s("resume"))),
            TerminatorKind::UnwindTerminate(_) => o.push(("k", s("terminate"))),
            TerminatorKind::Return => o.push(("k", s("ret"))),
            TerminatorKind::Unreachable => o.push(("k", s("unreachable"))),
            TerminatorKind::Drop { place, target, unwind, .. } => {
                o.push(("k", s("drop")));
                o.push(("p", self.place_json(body, place)));
                o.push(("pty", s(tys(place.ty(&body.local_decls, tcx).ty))));
                o.push(("t", bbn(*target)));
                o.push(("u", unw(unwind)));
            }
            TerminatorKind::Call { func, args, destination, target, unwind, fn_span, .. } => {
                o.push(("k", s("call")));
                o.push(("f", self.callee_json(body, func)));
                o.push(("args", J::Arr(args.iter().map(|a| self.op_json(body, &a.node)).collect())));
                o.push((
                    "argtys",
                    J::Arr(args.iter().map(|a| s(tys(a.node.ty(&body.local_decls, tcx)))).collect()),
                ));
                o.push(("dest", self.place_json(body, destination)));
                o.push(("rty", s(tys(destination.ty(&body.local_decls, tcx).ty))));
                o.push(("t", match target {
                    Some(b) => bbn(*b),
                    None => J::Null,
                }));
                o.push(("u", unw(unwind)));
                o.push(("fx", expn(*fn_span)));
            }
            TerminatorKind::TailCall { func, args, .. } => {
                o.push(("k", s("tailcall")));
                o.push(("f", self.callee_json(body, func)));
                o.push(("args", J::Arr(args.iter().map(|a| self.op_json(body, &a.node)).collect())));
            }
            TerminatorKind::Assert { cond, expected, msg, target, unwind } => {
                o.push(("k", s("assert")));
                o.push(("cond", self.op_json(body, cond)));
                o.push(("expected", J::Bool(*expected)));
                let m = format!("{:?}", msg);
                let m = m.split('(').next().unwrap_or("").to_string();
                o.push(("msg", s(m)));
                o.push(("t", bbn(*target)));
                o.push(("u", unw(unwind)));
            }
            TerminatorKind::FalseEdge { real_target, .. } => {
                o.push(("k", s("goto")));
                o.push(("t", bbn(*real_target)));
            }
            TerminatorKind::FalseUnwind { real_target, .. } => {
                o.push(("k", s("goto")));
                o.push(("t", bbn(*real_target)));
            }
            TerminatorKind::Yield { .. } => o.push(("k", s("yield"))),
            TerminatorKind::CoroutineDrop => o.push(("k", s("coroutine_drop"))),
            TerminatorKind::InlineAsm { .. } => o.push(("k", s("asm"))),
        }
        o.push(("sp", s(span_str(tcx, sp))));
        o.push(("x", expn(sp)));
        J::Obj(o)
    }

    fn body_json(&self, did: DefId, body: &Body<'tcx>, kind: &str, promoted: Option<u32>) -> J {
        let tcx = self.tcx;
        let mut o: Vec<(&'static str, J)> = Vec::new();
        let mut path = dp(tcx, did);
        if let Some(p) = promoted {
            path = format!("{}::{{promoted#{}}}", path, p);
        }
        o.push(("path", s(path)));
        o.push(("kind", s(kind)));
        o.push(("span", s(tcx.sess.source_map().span_to_diagnostic_string(body.span))));
        o.push(("argc", J::Int(body.arg_count as i128)));
        if matches!(tcx.def_kind(did), DefKind::Closure) && promoted.is_none() {
            o.push(("parent", s(dp(tcx, tcx.parent(did)))));
            if let Some(ldid) = did.as_local() {
                let caps = tcx.closure_captures(ldid);
                o.push((
                    "upvars",
                    J::Arr(
                        caps.iter()
                            .map(|c| {
                                J::Obj(vec![
                                    ("name", s(c.to_symbol())),
                                    ("by_ref", J::Bool(matches!(c.info.capture_kind, ty::UpvarCapture::ByRef(_)))),
                                    ("ty", s(tys(c.place.ty()))),
                                ])
                            })
                            .collect(),
                    ),
                ));
            }
        }
        if matches!(tcx.def_kind(did), DefKind::Fn | DefKind::AssocFn) && promoted.is_none() {
            let sig = tcx.fn_sig(did).instantiate_identity().skip_norm_wip();
            o.push(("abi", s(format!("{:?}", sig.abi()))));
            let attrs = tcx.codegen_fn_attrs(did);
            o.push((
                "no_mangle",
                J::Bool(attrs.flags.contains(rustc_middle::middle::codegen_fn_attrs::CodegenFnAttrFlags::NO_MANGLE)),
            ));
            o.push(("name", s(tcx.item_name(did))));
            o.push(("pub", J::Bool(tcx.visibility(did).is_public())));
            if let Some(ldid) = did.as_local() {
                o.push(("reachable", J::Bool(tcx.effective_visibilities(()).is_reachable(ldid))));
            }
            o.push(("unsafe", J::Bool(sig.safety().is_unsafe())));
            o.push(("generic", J::Bool(tcx.generics_of(did).requires_monomorphization(tcx))));
            // impl info for assoc fns
            if let Some(impl_did) = tcx.impl_of_assoc(did) {
                o.push(("impl_self", s(tys(tcx.type_of(impl_did).instantiate_identity().skip_norm_wip()))));
                if let Some(tr) = tcx.impl_opt_trait_ref(impl_did) {
                    let tr = tr.instantiate_identity().skip_norm_wip();
                    o.push(("impl_trait", s(dp(tcx, tr.def_id))));
                }
            }
        }
        // locals
        let mut locals = Vec::new();
        for (_l, d) in body.local_decls.iter_enumerated() {
            locals.push(J::Obj(vec![("ty", s(tys(d.ty)))]));
        }
        o.push(("locals", J::Arr(locals)));
        // debuginfo names
        let mut dbg = Vec::new();
        for v in body.var_debug_info.iter() {
            if let VarDebugInfoContents::Place(p) = &v.value {
                dbg.push(J::Obj(vec![
                    ("name", s(v.name)),
                    ("place", self.place_json(body, p)),
                    ("arg", match v.argument_index {
                        Some(i) => J::Int(i as i128),
                        None => J::Null,
                    }),
                ]));
            }
        }
        o.push(("dbg", J::Arr(dbg)));
        // blocks
        let mut blocks = Vec::new();
        for (_bb, data) in body.basic_blocks.iter_enumerated() {
            let mut stmts = Vec::new();
            for st in data.statements.iter() {
                match &st.kind {
                    StatementKind::Assign(b) => {
                        let (lhs, rv) = &**b;
                        stmts.push(J::Obj(vec![
                            ("k", s("assign")),
                            ("lhs", self.place_json(body, lhs)),
                            ("rv", self.rvalue_json(body, rv)),
                            ("sp", s(span_str(tcx, st.source_info.span))),
                            ("x", expn(st.source_info.span)),
                        ]));
                    }
                    StatementKind::SetDiscriminant { place, variant_index } => {
                        stmts.push(J::Obj(vec![
                            ("k", s("setdiscr")),
                            ("lhs", self.place_json(body, place)),
                            ("vi", J::Int(variant_index.as_u32() as i128)),
                        ]));
                    }
                    StatementKind::Intrinsic(i) => {
                        stmts.push(J::Obj(vec![("k", s("intrinsic")), ("text", s(format!("{:?}", i)))]));
                    }
                    _ => {}
                }
            }
            let term = match &data.terminator {
                Some(t) => self.term_json(body, t),
                None => J::Null,
            };
            blocks.push(J::Obj(vec![
                ("cleanup", J::Bool(data.is_cleanup)),
                ("stmts", J::Arr(stmts)),
                ("term", term),
            ]));
        }
        o.push(("blocks", J::Arr(blocks)));
        J::Obj(o)
    }
}

fn scalar_class<'tcx>(tcx: TyCtxt<'tcx>, tenv: TypingEnv<'tcx>, ty: Ty<'tcx>) -> J {
    let mut o: Vec<(&'static str, J)> = vec![("ty", s(tys(ty)))];
    match tcx.layout_of(tenv.as_query_input(ty)) {
        Ok(l) => {
            o.push(("size", J::Int(l.size.bytes() as i128)));
            o.push(("align", J::Int(l.align.abi.bytes() as i128)));
            match l.backend_repr {
                rustc_abi::BackendRepr::Scalar(sc) => match sc.primitive() {
                    rustc_abi::Primitive::Int(_, signed) => {
                        o.push(("class", s(if signed { "int" } else { "uint" })));
                    }
                    rustc_abi::Primitive::Float(_) => o.push(("class", s("float"))),
                    rustc_abi::Primitive::Pointer(_) => o.push(("class", s("ptr"))),
                },
                _ => {
                    if l.size.bytes() == 0 {
                        o.push(("class", s("void")));
                    } else {
                        o.push(("class", s("aggregate")));
                    }
                }
            }
        }
        Err(_) => o.push(("class", s("unknown"))),
    }
    // pointee information
    let mut inner = ty;
    // Option<&T> / Option<&mut T>
    if let ty::Adt(def, args) = inner.kind() {
        if tcx.is_diagnostic_item(rustc_span::sym::Option, def.did()) {
            if let Some(t) = args.types().next() {
                o.push(("option", J::Bool(true)));
                inner = t;
            }
        }
    }
    match inner.kind() {
        ty::RawPtr(p, m) => {
            o.push(("pointee", s(tys(*p))));
            o.push(("ptr_mut", J::Bool(m.is_mut())));
        }
        ty::Ref(_, p, m) => {
            o.push(("pointee", s(tys(*p))));
            o.push(("ptr_mut", J::Bool(m.is_mut())));
        }
        _ => {}
    }
    J::Obj(o)
}

struct Dump;

impl Callbacks for Dump {
    fn after_analysis<'tcx>(&mut self, _c: &rustc_interface::interface::Compiler, tcx: TyCtxt<'tcx>) -> Compilation {
        let want = std::env::var("VDRV_CRATE").unwrap_or_else(|_| "pathrs".to_string());
        let cname = tcx.crate_name(LOCAL_CRATE).to_string();
        if cname != want {
            return Compilation::Continue;
        }
        let out = match std::env::var("VDRV_OUT") {
            Ok(v) => v,
            Err(_) => return Compilation::Continue,
        };
        let nonce = std::env::var("VDRV_NONCE").unwrap_or_default();

        let mut bodies = Vec::new();
        let mut consts = Vec::new();
        for ldid in tcx.mir_keys(()) {
            let did = ldid.to_def_id();
            let kind = tcx.def_kind(did);
            let (body, kname): (&Body<'tcx>, &str) = match kind {
                DefKind::Fn => (tcx.optimized_mir(did), "fn"),
                DefKind::AssocFn => (tcx.optimized_mir(did), "assoc_fn"),
                DefKind::Closure => (tcx.optimized_mir(did), "closure"),
                DefKind::Static { .. } => (tcx.mir_for_ctfe(did), "static"),
                DefKind::Const { .. } => (tcx.mir_for_ctfe(did), "const"),
                DefKind::AssocConst { .. } => (tcx.mir_for_ctfe(did), "assoc_const"),
                DefKind::AnonConst | DefKind::InlineConst => (tcx.mir_for_ctfe(did), "anon_const"),
                _ => continue,
            };
            let cx = Cx { tcx, tenv: TypingEnv::post_analysis(tcx, did) };
            bodies.push(cx.body_json(did, body, kname, None));
            // promoted bodies (not for ctfe bodies: those are evaluated as a whole)
            if matches!(kind, DefKind::Fn | DefKind::AssocFn | DefKind::Closure) {
                for (p, pb) in tcx.promoted_mir(did).iter_enumerated() {
                    bodies.push(cx.body_json(did, pb, "promoted", Some(p.as_u32())));
                }
            }
            // evaluated value of non-generic consts
            if matches!(kind, DefKind::Const { .. } | DefKind::AssocConst { .. }) {
                if !tcx.generics_of(did).requires_monomorphization(tcx) {
                    if let Ok(ConstValue::Scalar(Scalar::Int(i))) = tcx.const_eval_poly(did) {
                        let sz = i.size();
                        if sz.bytes() > 0 {
                            consts.push(J::Obj(vec![
                                ("path", s(dp(tcx, did))),
                                ("ty", s(tys(tcx.type_of(did).instantiate_identity().skip_norm_wip()))),
                                ("u", J::Int(i.to_uint(sz) as i128)),
                                ("i", J::Int(i.to_int(sz))),
                            ]));
                        }
                    }
                }
            }
        }

        // statics
        let mut statics = Vec::new();
        // ADTs
        let mut adts = Vec::new();
        // extern fns
        let mut externs = Vec::new();
        for ldid in tcx.hir_crate_items(()).definitions() {
            let did = ldid.to_def_id();
            match tcx.def_kind(did) {
                DefKind::Static { .. } => {
                    statics.push(J::Obj(vec![
                        ("path", s(dp(tcx, did))),
                        ("ty", s(tys(tcx.type_of(did).instantiate_identity().skip_norm_wip()))),
                        ("span", s(tcx.sess.source_map().span_to_diagnostic_string(tcx.def_span(did)))),
                    ]));
                    // a #[no_mangle] / #[export_name] static is an exported data symbol
                    let attrs = tcx.codegen_fn_attrs(did);
                    let nm = attrs.flags.contains(rustc_middle::middle::codegen_fn_attrs::CodegenFnAttrFlags::NO_MANGLE);
                    if nm || attrs.symbol_name.is_some() {
                        let sym = match attrs.symbol_name { Some(n) => s(n), None => s(tcx.item_name(did)) };
                        externs.push(J::Obj(vec![
                            ("path", s(dp(tcx, did))),
                            ("symbol", sym),
                            ("abi", s("static")),
                            ("no_mangle", J::Bool(true)),
                            ("pub", J::Bool(tcx.visibility(did).is_public())),
                            ("reachable", J::Bool(tcx.effective_visibilities(()).is_reachable(ldid))),
                            ("params", J::Arr(Vec::new())),
                            ("param_names", J::Arr(Vec::new())),
                            ("ret", J::Null),
                            ("span", s(tcx.sess.source_map().span_to_diagnostic_string(tcx.def_span(did)))),
                        ]));
                    }
                }
                DefKind::Struct | DefKind::Enum | DefKind::Union => {
                    let def = tcx.adt_def(did);
                    let repr = def.repr();
                    let mut o: Vec<(&'static str, J)> = vec![
                        ("path", s(dp(tcx, did))),
                        ("kind", s(format!("{:?}", tcx.def_kind(did)))),
                        ("repr_c", J::Bool(repr.c())),
                        ("repr_transparent", J::Bool(repr.transparent())),
                        ("repr_int", match repr.int {
                            Some(i) => s(format!("{:?}", i)),
                            None => J::Null,
                        }),
                        ("span", s(tcx.sess.source_map().span_to_diagnostic_string(tcx.def_span(did)))),
                    ];
                    let mut variants = Vec::new();
                    for v in def.variants().iter() {
                        variants.push(J::Obj(vec![
                            ("name", s(v.name)),
                            (
                                "fields",
                                J::Arr(
                                    v.fields
                                        .iter()
                                        .map(|f| {
                                            J::Obj(vec![
                                                ("name", s(f.name)),
                                                ("ty", s(tys(tcx.type_of(f.did).instantiate_identity().skip_norm_wip()))),
                                                ("pub", J::Bool(f.vis.is_public())),
                                            ])
                                        })
                                        .collect(),
                                ),
                            ),
                        ]));
                    }
                    o.push(("variants", J::Arr(variants)));
                    // traits implemented we care about are found via the impl table
                    let gens = tcx.generics_of(did);
                    let only_lifetimes = !gens.requires_monomorphization(tcx);
                    if only_lifetimes {
                        let ty = tcx.type_of(did).instantiate_identity().skip_norm_wip();
                        let tenv = TypingEnv::post_analysis(tcx, did);
                        if let Ok(l) = tcx.layout_of(tenv.as_query_input(ty)) {
                            o.push(("size", J::Int(l.size.bytes() as i128)));
                            o.push(("align", J::Int(l.align.abi.bytes() as i128)));
                            if def.is_struct() {
                                let mut offs = Vec::new();
                                for i in 0..l.fields.count() {
                                    offs.push(J::Int(l.fields.offset(i).bytes() as i128));
                                }
                                o.push(("offsets", J::Arr(offs)));
                                let v = def.non_enum_variant();
                                let mut fl = Vec::new();
                                for f in v.fields.iter() {
                                    let fty = tcx.type_of(f.did).instantiate_identity().skip_norm_wip();
                                    fl.push(scalar_class(tcx, tenv, fty));
                                }
                                o.push(("field_classes", J::Arr(fl)));
                            }
                        }
                    }
                    adts.push(J::Obj(o));
                }
                DefKind::Fn | DefKind::AssocFn => {
                    let sig = tcx.fn_sig(did).instantiate_identity().skip_norm_wip();
                    let abi = format!("{:?}", sig.abi());
                    let attrs = tcx.codegen_fn_attrs(did);
                    // #[no_mangle] or #[export_name = ".."]: exported under a fixed name
                    let nm = attrs.flags.contains(rustc_middle::middle::codegen_fn_attrs::CodegenFnAttrFlags::NO_MANGLE) || attrs.symbol_name.is_some();
                    let sym = match attrs.symbol_name { Some(n) => s(n), None => s(tcx.item_name(did)) };
                    if nm || abi.starts_with("C") {
                        let tenv = TypingEnv::post_analysis(tcx, did);
                        let sig = tcx.instantiate_bound_regions_with_erased(sig);
                        let mut params = Vec::new();
                        for t in sig.inputs().iter() {
                            params.push(scalar_class(tcx, tenv, *t));
                        }
                        // parameter names from the MIR debuginfo
                        let body = tcx.optimized_mir(did);
                        let mut names: Vec<J> = Vec::new();
                        for i in 0..body.arg_count {
                            let mut nme = J::Null;
                            for v in body.var_debug_info.iter() {
                                if v.argument_index == Some((i + 1) as u16) {
                                    nme = s(v.name);
                                }
                            }
                            names.push(nme);
                        }
                        externs.push(J::Obj(vec![
                            ("path", s(dp(tcx, did))),
                            ("symbol", sym),
                            ("abi", s(abi)),
                            ("no_mangle", J::Bool(nm)),
                            ("pub", J::Bool(tcx.visibility(did).is_public())),
                            ("reachable", J::Bool(tcx.effective_visibilities(()).is_reachable(ldid))),
                            ("params", J::Arr(params)),
                            ("param_names", J::Arr(names)),
                            ("ret", scalar_class(tcx, tenv, sig.output())),
                            ("span", s(tcx.sess.source_map().span_to_diagnostic_string(tcx.def_span(did)))),
                        ]));
                    }
                }
                _ => {}
            }
        }

        // impl table
        let mut impls = Vec::new();
        for (tr, impl_ids) in tcx.all_local_trait_impls(()).iter() {
            for il in impl_ids.iter() {
                let idid = il.to_def_id();
                let self_ty = tcx.type_of(idid).instantiate_identity().skip_norm_wip();
                let mut methods = Vec::new();
                for it in tcx.associated_items(idid).in_definition_order() {
                    if let Some(tid) = it.trait_item_def_id() {
                        methods.push(J::Obj(vec![
                            ("trait_item", s(dp(tcx, tid))),
                            ("impl_item", s(dp(tcx, it.def_id))),
                            ("name", s(it.name())),
                        ]));
                    }
                }
                impls.push(J::Obj(vec![
                    ("trait", s(dp(tcx, *tr))),
                    ("self_ty", s(tys(self_ty))),
                    ("methods", J::Arr(methods)),
                ]));
            }
        }
        // inherent/all impls of selected marker traits for types (Clone/Copy/Drop) come from above

        let root = J::Obj(vec![
            ("nonce", s(nonce)),
            ("crate", s(cname)),
            ("rustc", s(env!("CARGO_PKG_VERSION"))),
            ("bodies", J::Arr(bodies)),
            ("consts", J::Arr(consts)),
            ("statics", J::Arr(statics)),
            ("adts", J::Arr(adts)),
            ("externs", J::Arr(externs)),
            ("impls", J::Arr(impls)),
        ]);
        let mut buf = String::new();
        root.write(&mut buf);
        let tmp = format!("{}.tmp.{}", out, std::process::id());
        std::fs::write(&tmp, buf).expect("vdrv: cannot write fact file");
        std::fs::rename(&tmp, &out).expect("vdrv: cannot move fact file");
        Compilation::Continue
    }
}

fn main() {
    // argv[0] = vdrv, argv[1] = real rustc (RUSTC_WORKSPACE_WRAPPER), rest = rustc args
    let args: Vec<String> = std::env::args().skip(1).collect();
    let mut cb = Dump;
    rustc_driver::run_compiler(&args, &mut cb);
}
