#!/bin/bash
# usage: try_seed.sh <patch.diff> [Cxx ...]   -- applies the patch to /repo, runs the checks, reverts
P="$1"; shift
PROPS="${@:-C01 C02 C03 C04 C05 C06 C07 C08 C09 C10 C11 C12 C13 C14 C15 C16 C17 C18}"
cd /repo || exit 9
if ! git diff --quiet; then echo "try_seed: /repo is dirty, refusing"; exit 9; fi
if ! git apply --check "$P" 2>/dev/null; then echo "try_seed: patch does not apply to HEAD"; git apply --check "$P"; exit 8; fi
git apply "$P"
trap 'git -C /repo checkout -- . ; git -C /repo clean -fdq -e target' EXIT
/verif/engine/extract.sh capi /verif/.work/seed-facts.json >/dev/null || { echo "try_seed: does not build"; exit 7; }
cd /verif
for p in $PROPS; do
  [ -f engine/vlib/rules/${p,,}.py ] || continue
  out=$(./check $p --facts capi=/verif/.work/seed-facts.json 2>&1)
  n=$(echo "$out" | grep -c "^VIOLATION")
  if [ "$n" -gt 0 ]; then echo "== $p: $n violation(s)"; echo "$out" | grep -E "^(VIOLATED|UNPROVEN)" | cut -c1-330 | head -6; fi
done
echo "try_seed: done"
