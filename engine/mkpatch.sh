#!/bin/bash
# usage: mkpatch.sh <Cxx> <name> <expect-substring>...   (run after editing /var/tmp/mut)
set -e
P=$1; N=$2; shift 2
mkdir -p /verif/sensitivity/$P
OUT=/verif/sensitivity/$P/$N.diff
: > $OUT
for e in "$@"; do echo "# expect: $e" >> $OUT; done
git -C /var/tmp/mut diff >> $OUT
git -C /var/tmp/mut checkout -q .
echo "wrote $OUT ($(grep -c '^[-+][^-+]' $OUT) changed lines)"
