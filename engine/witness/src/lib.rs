//! Compile-fail witnesses for the type-level remainder of C11 (descriptor ownership).
//! Each `compile_fail,E0xxx` witness has a compiling twin that differs only in the offending
//! line, so that a witness which merely fails for an unrelated reason is noticed.
//! Run with `cargo +nightly test --doc --offline` (the error code is only checked on nightly).

/// A `RootRef` cannot outlive the descriptor it borrows.
/// ```compile_fail,E0597
/// use std::os::unix::io::{AsFd, OwnedFd};
/// use pathrs::{Root, RootRef};
/// let r: RootRef<'_>;
/// {
///     let fd: OwnedFd = Root::open(".").unwrap().into();
///     r = RootRef::from_fd(fd.as_fd());
/// } // fd closed here
/// let _ = r.resolve(".");
/// ```
/// Twin (compiles): the descriptor outlives the reference.
/// ```no_run
/// use std::os::unix::io::{AsFd, OwnedFd};
/// use pathrs::{Root, RootRef};
/// let fd: OwnedFd = Root::open(".").unwrap().into();
/// let r: RootRef<'_>;
/// {
///     r = RootRef::from_fd(fd.as_fd());
/// }
/// let _ = r.resolve(".");
/// ```
pub struct RootRefCannotOutliveFd;

/// A `HandleRef` cannot outlive the `Handle` it was borrowed from.
/// ```compile_fail,E0597
/// use pathrs::{Root, HandleRef};
/// let h: HandleRef<'_>;
/// {
///     let handle = Root::open(".").unwrap().resolve(".").unwrap();
///     h = handle.as_ref();
/// } // handle closed here
/// let _ = h.reopen(pathrs::flags::OpenFlags::O_RDONLY);
/// ```
/// Twin (compiles):
/// ```no_run
/// use pathrs::{Root, HandleRef};
/// let handle = Root::open(".").unwrap().resolve(".").unwrap();
/// let h: HandleRef<'_>;
/// {
///     h = handle.as_ref();
/// }
/// let _ = h.reopen(pathrs::flags::OpenFlags::O_RDONLY);
/// ```
pub struct HandleRefCannotOutliveHandle;

/// `Handle` is not `Clone`: a second owner of the same descriptor number cannot be made implicitly
/// (it would be closed twice).
/// ```compile_fail,E0599
/// use pathrs::Root;
/// let handle = Root::open(".").unwrap().resolve(".").unwrap();
/// let second = handle.clone();
/// ```
/// Twin (compiles): an explicit dup.
/// ```no_run
/// use pathrs::Root;
/// let handle = Root::open(".").unwrap().resolve(".").unwrap();
/// let second = handle.try_clone();
/// ```
pub struct HandleIsNotClone;

/// `Root` is not `Clone` either.
/// ```compile_fail,E0599
/// use pathrs::Root;
/// let root = Root::open(".").unwrap();
/// let second = root.clone();
/// ```
/// Twin (compiles):
/// ```no_run
/// use pathrs::Root;
/// let root = Root::open(".").unwrap();
/// let second = root.try_clone();
/// ```
pub struct RootIsNotClone;

/// Converting a `Handle` into its `OwnedFd` consumes it: the handle cannot be used (or dropped, i.e.
/// closed) again afterwards.
/// ```compile_fail,E0382
/// use std::os::unix::io::OwnedFd;
/// use pathrs::Root;
/// let handle = Root::open(".").unwrap().resolve(".").unwrap();
/// let fd: OwnedFd = handle.into();
/// let _ = handle.try_clone();
/// ```
/// Twin (compiles):
/// ```no_run
/// use std::os::unix::io::OwnedFd;
/// use pathrs::Root;
/// let handle = Root::open(".").unwrap().resolve(".").unwrap();
/// let _ = handle.try_clone();
/// let fd: OwnedFd = handle.into();
/// ```
pub struct IntoOwnedFdConsumes;

/// A `ProcfsHandle` cannot be duplicated or turned into a raw descriptor by safe code.
/// ```compile_fail,E0599
/// use pathrs::procfs::ProcfsHandle;
/// let p = ProcfsHandle::new().unwrap();
/// let q = p.clone();
/// ```
/// Twin (compiles):
/// ```no_run
/// use pathrs::procfs::ProcfsHandle;
/// let p = ProcfsHandle::new().unwrap();
/// let q = &p;
/// ```
pub struct ProcfsHandleIsNotClone;
