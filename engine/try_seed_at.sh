#!/bin/bash
# usage: try_seed_at.sh <base-commit> <patch.diff|-> [Cxx ...]  -- evaluates the checks on a scratch copy of /repo at <base-commit> with the patch applied
C="$1"; P="$2"; shift 2
PROPS="${@:-C01 C02 C03 C04 C05 C06 C07 C08 C09 C10 C11 C12 C13 C14 C15 C16 C17 C18}"
D=$(mktemp -d /var/tmp/verif-seed.XXXXXX)
trap 'rm -rf "$D"' EXIT
git -C /repo archive "$C" | tar -x -C "$D" || exit 9
if [ "$P" != "-" ]; then (cd "$D" && patch -p1 -s --no-backup-if-mismatch -i "$P") || { echo "try_seed_at: patch does not apply at $C"; exit 8; }; fi
/verif/engine/extract.sh capi "$D/facts.json" "$D" >/dev/null || { echo "try_seed_at: does not build"; exit 7; }
cd /verif
for p in $PROPS; do
  [ -f engine/vlib/rules/${p,,}.py ] || continue
  out=$(./check $p --facts capi="$D/facts.json" --repo "$D" 2>&1)
  n=$(echo "$out" | grep -c "^VIOLATION")
  if [ "$n" -gt 0 ]; then echo "== $p: $n violation(s)"; echo "$out" | grep -E "^(VIOLATED|UNPROVEN)" | cut -c1-300 | head -${MAXL:-6}; fi
done
echo "try_seed_at: done"
