#!/bin/bash
# Runs all 18 checks on every stored behaviour-preserving refactoring (refactorings/<id>/patch.diff, written by
# independent sub-agents against the commit in engine/anchors.json).  Any VIOLATED/UNPROVEN line is a false alarm.
cd /verif
BASE=$(python3 -c "import json;print(json.load(open('engine/anchors.json'))['repo_commit'])")
rc=0
for d in refactorings/*/; do
  id=$(basename $d); [ -f $d/patch.diff ] || continue
  b=$BASE; [ -f $d/base ] && b=$(cat $d/base)
  out=$(MAXL=4 engine/try_patch_fast.sh $b /verif/$d/patch.diff 2>&1 | grep -E "^(VIOLATED|UNPROVEN|try_patch: (patch|does))")
  if [ -n "$out" ] && [ -f $d/KNOWN_LIMITATION ]; then echo "KNOWN-LIMITATION (documented false alarm, DESIGN 11) on $id:"; echo "$out" | cut -c1-200
  elif [ -n "$out" ]; then echo "FALSE-ALARM on $id:"; echo "$out" | cut -c1-300; rc=1; else echo "silent: $id"; fi
done
exit $rc
